// =================================================================================================
// C17 — lemmas over an inductive spec tree: completeness and (under the ideal-hash axiom) soundness
// of proof folding, in the sorted-pair form and in the positional (indexed) form.
// Trees are arbitrary binary trees (balanced or not); a position is a root-to-node path.
// =================================================================================================

pub enum Tree { Leaf(Seq<u8>), Node(Box<Tree>, Box<Tree>) }

pub open spec fn is_node(t: Tree) -> bool { t is Node }
pub open spec fn child(t: Tree, right: bool) -> Tree {
    match t { Tree::Node(l, r) => if right { *r } else { *l }, Tree::Leaf(_) => t }
}
/// every leaf value is a 32-byte string (a `Bytes32`)
pub open spec fn wf(t: Tree) -> bool decreases t {
    match t { Tree::Leaf(v) => v.len() == 32, Tree::Node(l, r) => wf(*l) && wf(*r) }
}
/// root hash, positional (unsorted) pair hashing
pub open spec fn hi<H: Hasher>(t: Tree) -> Seq<u8> decreases t {
    match t { Tree::Leaf(v) => v, Tree::Node(l, r) => hpair::<H>(hi::<H>(*l), hi::<H>(*r)) }
}
/// root hash, commutative (sorted) pair hashing
pub open spec fn hs<H: Hasher>(t: Tree) -> Seq<u8> decreases t {
    match t { Tree::Leaf(v) => v, Tree::Node(l, r) => cpair::<H>(hs::<H>(*l), hs::<H>(*r)) }
}
/// the node reached from the root by `path` (true = right child); None if the path leaves the tree
pub open spec fn node_at(t: Tree, path: Seq<bool>) -> Option<Tree> decreases path.len() {
    if path.len() == 0 { Some(t) } else if is_node(t) { node_at(child(t, path[0]), path.drop_first()) } else { None }
}
/// the honest proof for the node at `path`: sibling hashes, deepest level first
pub open spec fn proof_i<H: Hasher>(t: Tree, path: Seq<bool>) -> Seq<Seq<u8>> decreases path.len() {
    if path.len() == 0 || !is_node(t) { Seq::empty() }
    else { proof_i::<H>(child(t, path[0]), path.drop_first()).push(hi::<H>(child(t, !path[0]))) }
}
pub open spec fn proof_s<H: Hasher>(t: Tree, path: Seq<bool>) -> Seq<Seq<u8>> decreases path.len() {
    if path.len() == 0 || !is_node(t) { Seq::empty() }
    else { proof_s::<H>(child(t, path[0]), path.drop_first()).push(hs::<H>(child(t, !path[0]))) }
}
/// a root-to-node path read bottom-up (level bits, deepest first) and back
pub open spec fn up_bits(path: Seq<bool>) -> Seq<bool> decreases path.len() {
    if path.len() == 0 { Seq::empty() } else { up_bits(path.drop_first()).push(path[0]) }
}
pub open spec fn down_path(bits: Seq<bool>) -> Seq<bool> decreases bits.len() {
    if bits.len() == 0 { Seq::empty() } else { seq![bits.last()] + down_path(bits.drop_last()) }
}
/// the low k bits of i, least significant first (bit j = parity of the running index at level j)
pub open spec fn bits_of(i: nat, k: nat) -> Seq<bool> decreases k {
    if k == 0 { Seq::empty() } else { seq![i % 2 == 1] + bits_of(i / 2, (k - 1) as nat) }
}
pub open spec fn index_of_bits(b: Seq<bool>) -> nat decreases b.len() {
    if b.len() == 0 { 0 } else { (if b[0] { 1nat } else { 0nat }) + 2 * index_of_bits(b.drop_first()) }
}
/// the position number (0-based, left to right among the 2^k slots of depth k) of the node at `path`
pub open spec fn leaf_index(path: Seq<bool>) -> nat { index_of_bits(up_bits(path)) }
pub open spec fn path_of_index(i: nat, k: nat) -> Seq<bool> { down_path(bits_of(i, k)) }

pub open spec fn bpair<H: Hasher>(x: Seq<u8>, s: Seq<u8>, right: bool) -> Seq<u8> { if right { hpair::<H>(s, x) } else { hpair::<H>(x, s) } }
pub open spec fn fold_bits<H: Hasher>(p: Seq<Seq<u8>>, x: Seq<u8>, bits: Seq<bool>) -> Seq<u8> decreases p.len() {
    if p.len() == 0 { x } else { fold_bits::<H>(p.drop_first(), bpair::<H>(x, p[0], bits[0]), bits.drop_first()) }
}
pub open spec fn all32(p: Seq<Seq<u8>>) -> bool { forall|j: int| 0 <= j < p.len() ==> (#[trigger] p[j]).len() == 32 }

// ---- the ideal-hash assumption (M7), the ONLY axiom of this unit ----
/// the pair hash of 32-byte nodes is collision free
pub open spec fn ideal_pair_hash<H: Hasher>() -> bool {
    forall|a1: Seq<u8>, b1: Seq<u8>, a2: Seq<u8>, b2: Seq<u8>|
        a1.len() == 32 && b1.len() == 32 && a2.len() == 32 && b2.len() == 32
        && #[trigger] hpair::<H>(a1, b1) == #[trigger] hpair::<H>(a2, b2) ==> a1 == a2 && b1 == b2
}
/// IDEAL-HASH AXIOM: SHA-256 and Keccak-256 have no collisions on 64-byte inputs.  This is a
/// cryptographic assumption, not a mathematical fact; every soundness lemma below names it as a
/// hypothesis (`ideal_pair_hash::<H>()`), only the two `_sha256/_keccak256` corollaries invoke it.
#[verifier::external_body]
pub proof fn axiom_ideal_hash()
    ensures ideal_pair_hash::<Sha256>(), ideal_pair_hash::<Keccak256>(),
{}
/// leaves are domain separated from inner nodes: no leaf value is the pair hash of two nodes (the
/// WARNING in merkle.rs: "avoid leaf values that are 64 bytes long prior to hashing")
pub open spec fn leaves_sep<H: Hasher>(t: Tree) -> bool decreases t {
    match t {
        Tree::Leaf(v) => forall|a: Seq<u8>, b: Seq<u8>| a.len() == 32 && b.len() == 32 ==> v != #[trigger] hpair::<H>(a, b),
        Tree::Node(l, r) => leaves_sep::<H>(*l) && leaves_sep::<H>(*r),
    }
}

// ---- basic facts ----
pub proof fn lemma_lex_total(a: Seq<u8>, b: Seq<u8>)
    ensures !(lex_gt(a, b) && lex_gt(b, a)), a != b ==> lex_gt(a, b) || lex_gt(b, a),
    decreases a.len()
{
    if a.len() == 0 || b.len() == 0 {
        if a.len() == 0 && b.len() == 0 { assert(a =~= b); }
    } else if a[0] != b[0] {
    } else {
        lemma_lex_total(a.drop_first(), b.drop_first());
        if a.drop_first() == b.drop_first() {
            assert(a =~= seq![a[0]] + a.drop_first());
            assert(b =~= seq![b[0]] + b.drop_first());
        }
    }
}
pub proof fn lemma_cpair_comm<H: Hasher>(a: Seq<u8>, b: Seq<u8>)
    ensures
        //@@ C17:lemma.cpair_commutative
        cpair::<H>(a, b) == cpair::<H>(b, a),
{
    lemma_lex_total(a, b);
}
pub proof fn lemma_hi_len<H: Hasher>(t: Tree)
    requires wf(t),
    ensures hi::<H>(t).len() == 32, hs::<H>(t).len() == 32,
{
    match t {
        Tree::Leaf(v) => {}
        Tree::Node(l, r) => {
            H::lemma_digest_len(hi::<H>(*l) + hi::<H>(*r));
            H::lemma_digest_len(hs::<H>(*l) + hs::<H>(*r));
            H::lemma_digest_len(hs::<H>(*r) + hs::<H>(*l));
        }
    }
}
pub proof fn lemma_fold_bits_snoc<H: Hasher>(p: Seq<Seq<u8>>, x: Seq<u8>, bits: Seq<bool>, s: Seq<u8>, b: bool)
    requires bits.len() == p.len(),
    ensures fold_bits::<H>(p.push(s), x, bits.push(b)) == bpair::<H>(fold_bits::<H>(p, x, bits), s, b),
    decreases p.len()
{
    let p2 = p.push(s);
    let b2 = bits.push(b);
    if p.len() == 0 {
        assert(p2.drop_first() =~= Seq::<Seq<u8>>::empty());
        assert(fold_bits::<H>(p2.drop_first(), bpair::<H>(x, s, b), b2.drop_first()) == bpair::<H>(x, s, b));
    } else {
        assert(p2.drop_first() =~= p.drop_first().push(s));
        assert(b2.drop_first() =~= bits.drop_first().push(b));
        lemma_fold_bits_snoc::<H>(p.drop_first(), bpair::<H>(x, p[0], bits[0]), bits.drop_first(), s, b);
    }
}
pub proof fn lemma_fold_sorted_snoc<H: Hasher>(p: Seq<Seq<u8>>, x: Seq<u8>, s: Seq<u8>)
    ensures fold_sorted::<H>(p.push(s), x) == cpair::<H>(fold_sorted::<H>(p, x), s),
    decreases p.len()
{
    let p2 = p.push(s);
    if p.len() == 0 {
        assert(p2.drop_first() =~= Seq::<Seq<u8>>::empty());
        assert(fold_sorted::<H>(p2.drop_first(), cpair::<H>(x, s)) == cpair::<H>(x, s));
    } else {
        assert(p2.drop_first() =~= p.drop_first().push(s));
        lemma_fold_sorted_snoc::<H>(p.drop_first(), cpair::<H>(x, p[0]), s);
    }
}
pub proof fn lemma_fold_len<H: Hasher>(p: Seq<Seq<u8>>, x: Seq<u8>, bits: Seq<bool>)
    requires x.len() == 32,
    ensures fold_bits::<H>(p, x, bits).len() == 32, fold_sorted::<H>(p, x).len() == 32,
    decreases p.len()
{
    if p.len() > 0 {
        H::lemma_digest_len(x + p[0]);
        H::lemma_digest_len(p[0] + x);
        lemma_fold_len::<H>(p.drop_first(), bpair::<H>(x, p[0], bits[0]), bits.drop_first());
        lemma_fold_len::<H>(p.drop_first(), cpair::<H>(x, p[0]), bits.drop_first());
    }
}
/// the positional fold only looks at the low `len` bits of the index
pub proof fn lemma_fold_indexed_bits<H: Hasher>(p: Seq<Seq<u8>>, x: Seq<u8>, i: nat)
    ensures fold_indexed::<H>(p, x, i) == fold_bits::<H>(p, x, bits_of(i, p.len())),
    decreases p.len()
{
    if p.len() > 0 {
        let bs = bits_of(i, p.len());
        assert(bs[0] == (i % 2 == 1));
        assert(bs.drop_first() =~= bits_of(i / 2, (p.len() - 1) as nat));
        lemma_fold_indexed_bits::<H>(p.drop_first(), ipair::<H>(x, p[0], i), i / 2);
    }
}
pub proof fn lemma_bits_of_len(i: nat, k: nat)
    ensures bits_of(i, k).len() == k,
    decreases k
{ if k > 0 { lemma_bits_of_len(i / 2, (k - 1) as nat); } }
pub proof fn lemma_index_of_bits(b: Seq<bool>)
    ensures index_of_bits(b) < pow2(b.len()), bits_of(index_of_bits(b), b.len()) =~= b,
    decreases b.len()
{
    vstd::arithmetic::power2::lemma2_to64();
    if b.len() > 0 {
        lemma_index_of_bits(b.drop_first());
        vstd::arithmetic::power2::lemma_pow2_unfold(b.len());
        let i = index_of_bits(b);
        let j = index_of_bits(b.drop_first());
        assert(i / 2 == j);
        assert((i % 2 == 1) == b[0]);
        lemma_bits_of_len(j, (b.len() - 1) as nat);
        assert(bits_of(i, b.len()) =~= seq![b[0]] + b.drop_first());
    }
}
/// an index below 2^k is determined by its k level bits
pub proof fn lemma_bits_of_index(i: nat, k: nat)
    requires i < pow2(k),
    ensures index_of_bits(bits_of(i, k)) == i,
    decreases k
{
    vstd::arithmetic::power2::lemma2_to64();
    if k > 0 {
        vstd::arithmetic::power2::lemma_pow2_unfold(k);
        lemma_bits_of_index(i / 2, (k - 1) as nat);
        let bs = bits_of(i, k);
        assert(bs.drop_first() =~= bits_of(i / 2, (k - 1) as nat));
    }
}
pub proof fn lemma_up_down(bits: Seq<bool>)
    ensures up_bits(down_path(bits)) =~= bits, down_path(bits).len() == bits.len(),
    decreases bits.len()
{
    if bits.len() > 0 {
        lemma_up_down(bits.drop_last());
        let d = down_path(bits);
        assert(d.drop_first() =~= down_path(bits.drop_last()));
        assert(bits =~= bits.drop_last().push(bits.last()));
    }
}
pub proof fn lemma_up_bits_len(path: Seq<bool>)
    ensures up_bits(path).len() == path.len(),
    decreases path.len()
{ if path.len() > 0 { lemma_up_bits_len(path.drop_first()); } }

// ---- completeness: the honest proof of ANY node of ANY tree folds to the root ----
pub proof fn lemma_complete_bits<H: Hasher>(t: Tree, path: Seq<bool>)
    requires node_at(t, path).is_some(),
    ensures
        proof_i::<H>(t, path).len() == path.len(), up_bits(path).len() == path.len(),
        fold_bits::<H>(proof_i::<H>(t, path), hi::<H>(node_at(t, path).unwrap()), up_bits(path)) == hi::<H>(t),
    decreases path.len()
{
    if path.len() > 0 {
        let c = child(t, path[0]);
        lemma_complete_bits::<H>(c, path.drop_first());
        lemma_fold_bits_snoc::<H>(proof_i::<H>(c, path.drop_first()), hi::<H>(node_at(t, path).unwrap()), up_bits(path.drop_first()),
            hi::<H>(child(t, !path[0])), path[0]);
    }
}
pub proof fn lemma_complete_indexed<H: Hasher>(t: Tree, path: Seq<bool>)
    requires node_at(t, path).is_some(),
    ensures
        //@@ C17:lemma.complete_indexed
        fold_indexed::<H>(proof_i::<H>(t, path), hi::<H>(node_at(t, path).unwrap()), leaf_index(path)) == hi::<H>(t),
        proof_i::<H>(t, path).len() == path.len(),
        leaf_index(path) < pow2(path.len()),
{
    lemma_complete_bits::<H>(t, path);
    lemma_index_of_bits(up_bits(path));
    lemma_fold_indexed_bits::<H>(proof_i::<H>(t, path), hi::<H>(node_at(t, path).unwrap()), leaf_index(path));
}
pub proof fn lemma_complete_sorted<H: Hasher>(t: Tree, path: Seq<bool>)
    requires node_at(t, path).is_some(),
    ensures
        //@@ C17:lemma.complete_sorted
        fold_sorted::<H>(proof_s::<H>(t, path), hs::<H>(node_at(t, path).unwrap())) == hs::<H>(t),
        proof_s::<H>(t, path).len() == path.len(),
    decreases path.len()
{
    if path.len() > 0 {
        let c = child(t, path[0]);
        let o = child(t, !path[0]);
        lemma_complete_sorted::<H>(c, path.drop_first());
        lemma_fold_sorted_snoc::<H>(proof_s::<H>(c, path.drop_first()), hs::<H>(node_at(t, path).unwrap()), hs::<H>(o));
        lemma_cpair_comm::<H>(hs::<H>(c), hs::<H>(o));
    }
}
/// the index the positional form needs is the usual left-to-right position number at that depth
pub proof fn lemma_leaf_index_position(path: Seq<bool>)
    requires path.len() > 0,
    ensures
        //@@ C17:lemma.index_is_position
        leaf_index(path) == (if path[0] { pow2((path.len() - 1) as nat) } else { 0 }) + leaf_index(path.drop_first()),
{
    lemma_up_bits_len(path.drop_first());
    lemma_index_snoc(up_bits(path.drop_first()), path[0]);
}
pub proof fn lemma_index_snoc(b: Seq<bool>, x: bool)
    ensures index_of_bits(b.push(x)) == index_of_bits(b) + (if x { pow2(b.len()) } else { 0 }),
    decreases b.len()
{
    vstd::arithmetic::power2::lemma2_to64();
    let b2 = b.push(x);
    if b.len() == 0 {
        assert(b2.drop_first() =~= Seq::<bool>::empty());
        assert(index_of_bits(b2.drop_first()) == 0);
    } else {
        assert(b2.drop_first() =~= b.drop_first().push(x));
        lemma_index_snoc(b.drop_first(), x);
        vstd::arithmetic::power2::lemma_pow2_unfold(b.len());
    }
}

// ---- soundness under the ideal-hash assumption ----
pub proof fn lemma_sound_bits<H: Hasher>(t: Tree, p: Seq<Seq<u8>>, x: Seq<u8>, bits: Seq<bool>)
    requires
        ideal_pair_hash::<H>(), wf(t), leaves_sep::<H>(t), x.len() == 32, all32(p), bits.len() == p.len(),
        fold_bits::<H>(p, x, bits) == hi::<H>(t),
    ensures
        node_at(t, down_path(bits)).is_some(),
        hi::<H>(node_at(t, down_path(bits)).unwrap()) == x,
        proof_i::<H>(t, down_path(bits)) =~= p,
    decreases p.len()
{
    if p.len() > 0 {
        let p1 = p.drop_last();
        let s = p.last();
        let b1 = bits.drop_last();
        let b = bits.last();
        assert(p =~= p1.push(s));
        assert(bits =~= b1.push(b));
        lemma_fold_bits_snoc::<H>(p1, x, b1, s, b);
        let y = fold_bits::<H>(p1, x, b1);
        lemma_fold_len::<H>(p1, x, b1);
        assert(s.len() == 32);
        assert(hi::<H>(t) == bpair::<H>(y, s, b));
        let path = down_path(bits);
        assert(path[0] == b);
        assert(path.drop_first() =~= down_path(b1));
        match t {
            Tree::Leaf(v) => {
                if b { assert(v == hpair::<H>(s, y)); } else { assert(v == hpair::<H>(y, s)); }
                assert(false);
            }
            Tree::Node(l, r) => {
                lemma_hi_len::<H>(*l);
                lemma_hi_len::<H>(*r);
                if b {
                    assert(hpair::<H>(s, y) == hpair::<H>(hi::<H>(*l), hi::<H>(*r)));
                    lemma_sound_bits::<H>(*r, p1, x, b1);
                } else {
                    assert(hpair::<H>(y, s) == hpair::<H>(hi::<H>(*l), hi::<H>(*r)));
                    lemma_sound_bits::<H>(*l, p1, x, b1);
                }
            }
        }
    }
}
/// SOUNDNESS, positional form: if the fold of a length-k proof from x with index i < 2^k reaches the
/// root, then the path spelled by i exists in the tree, x is the hash of the node at depth k at
/// position i, and the proof is exactly that node's honest proof (so any altered, reordered,
/// truncated or extended proof, or a wrong index, is rejected unless it is itself a valid path).
pub proof fn lemma_sound_indexed<H: Hasher>(t: Tree, p: Seq<Seq<u8>>, x: Seq<u8>, i: nat)
    requires
        ideal_pair_hash::<H>(), wf(t), leaves_sep::<H>(t), x.len() == 32, all32(p),
        i < pow2(p.len()),
        fold_indexed::<H>(p, x, i) == hi::<H>(t),
    ensures
        //@@ C17:lemma.sound_indexed
        node_at(t, path_of_index(i, p.len())).is_some()
            && hi::<H>(node_at(t, path_of_index(i, p.len())).unwrap()) == x
            && proof_i::<H>(t, path_of_index(i, p.len())) =~= p
            && path_of_index(i, p.len()).len() == p.len()
            && leaf_index(path_of_index(i, p.len())) == i,
{
    lemma_fold_indexed_bits::<H>(p, x, i);
    lemma_bits_of_len(i, p.len());
    lemma_sound_bits::<H>(t, p, x, bits_of(i, p.len()));
    lemma_up_down(bits_of(i, p.len()));
    lemma_bits_of_index(i, p.len());
}
/// SOUNDNESS, sorted-pair form: returns the path of a node at depth k whose hash is x and whose
/// honest proof is p.
pub proof fn lemma_sound_sorted<H: Hasher>(t: Tree, p: Seq<Seq<u8>>, x: Seq<u8>) -> (path: Seq<bool>)
    requires
        ideal_pair_hash::<H>(), wf(t), leaves_sep::<H>(t), x.len() == 32, all32(p),
        fold_sorted::<H>(p, x) == hs::<H>(t),
    ensures
        //@@ C17:lemma.sound_sorted
        path.len() == p.len() && node_at(t, path).is_some() && hs::<H>(node_at(t, path).unwrap()) == x
            && proof_s::<H>(t, path) =~= p,
    decreases p.len()
{
    if p.len() == 0 {
        Seq::<bool>::empty()
    } else {
        let p1 = p.drop_last();
        let s = p.last();
        assert(p =~= p1.push(s));
        lemma_fold_sorted_snoc::<H>(p1, x, s);
        let y = fold_sorted::<H>(p1, x);
        lemma_fold_len::<H>(p1, x, Seq::<bool>::empty());
        assert(s.len() == 32);
        assert(hs::<H>(t) == cpair::<H>(y, s));
        match t {
            Tree::Leaf(v) => {
                if bgt(y, s) { assert(v == hpair::<H>(s, y)); } else { assert(v == hpair::<H>(y, s)); }
                assert(false);
                Seq::<bool>::empty()
            }
            Tree::Node(l, r) => {
                lemma_hi_len::<H>(*l);
                lemma_hi_len::<H>(*r);
                let (hl, hr) = (hs::<H>(*l), hs::<H>(*r));
                // both sides are pair hashes of 32-byte strings: the unordered pairs coincide
                let (a1, b1) = if bgt(y, s) { (s, y) } else { (y, s) };
                let (a2, b2) = if bgt(hl, hr) { (hr, hl) } else { (hl, hr) };
                assert(hpair::<H>(a1, b1) == hpair::<H>(a2, b2));
                assert(a1 == a2 && b1 == b2);
                if y == hl && s == hr {
                    let sub = lemma_sound_sorted::<H>(*l, p1, x);
                    let path = seq![false] + sub;
                    assert(path.drop_first() =~= sub);
                    path
                } else {
                    assert(y == hr && s == hl);
                    let sub = lemma_sound_sorted::<H>(*r, p1, x);
                    let path = seq![true] + sub;
                    assert(path.drop_first() =~= sub);
                    path
                }
            }
        }
    }
}

// ---- the two real hashers: soundness with the axiom discharged by name ----
pub proof fn lemma_sound_indexed_sha256(t: Tree, p: Seq<Seq<u8>>, x: Seq<u8>, i: nat)
    requires wf(t), leaves_sep::<Sha256>(t), x.len() == 32, all32(p), i < pow2(p.len()),
        fold_indexed::<Sha256>(p, x, i) == hi::<Sha256>(t),
    ensures
        //@@ C17:lemma.sound_indexed_sha256
        node_at(t, path_of_index(i, p.len())).is_some()
            && hi::<Sha256>(node_at(t, path_of_index(i, p.len())).unwrap()) == x
            && proof_i::<Sha256>(t, path_of_index(i, p.len())) =~= p,
{ axiom_ideal_hash(); lemma_sound_indexed::<Sha256>(t, p, x, i); }
pub proof fn lemma_sound_indexed_keccak256(t: Tree, p: Seq<Seq<u8>>, x: Seq<u8>, i: nat)
    requires wf(t), leaves_sep::<Keccak256>(t), x.len() == 32, all32(p), i < pow2(p.len()),
        fold_indexed::<Keccak256>(p, x, i) == hi::<Keccak256>(t),
    ensures
        //@@ C17:lemma.sound_indexed_keccak256
        node_at(t, path_of_index(i, p.len())).is_some()
            && hi::<Keccak256>(node_at(t, path_of_index(i, p.len())).unwrap()) == x
            && proof_i::<Keccak256>(t, path_of_index(i, p.len())) =~= p,
{ axiom_ideal_hash(); lemma_sound_indexed::<Keccak256>(t, p, x, i); }
pub proof fn lemma_sound_sorted_sha256(t: Tree, p: Seq<Seq<u8>>, x: Seq<u8>) -> (path: Seq<bool>)
    requires wf(t), leaves_sep::<Sha256>(t), x.len() == 32, all32(p), fold_sorted::<Sha256>(p, x) == hs::<Sha256>(t),
    ensures
        //@@ C17:lemma.sound_sorted_sha256
        path.len() == p.len() && node_at(t, path).is_some() && hs::<Sha256>(node_at(t, path).unwrap()) == x
            && proof_s::<Sha256>(t, path) =~= p,
{ axiom_ideal_hash(); lemma_sound_sorted::<Sha256>(t, p, x) }
pub proof fn lemma_sound_sorted_keccak256(t: Tree, p: Seq<Seq<u8>>, x: Seq<u8>) -> (path: Seq<bool>)
    requires wf(t), leaves_sep::<Keccak256>(t), x.len() == 32, all32(p), fold_sorted::<Keccak256>(p, x) == hs::<Keccak256>(t),
    ensures
        //@@ C17:lemma.sound_sorted_keccak256
        path.len() == p.len() && node_at(t, path).is_some() && hs::<Keccak256>(node_at(t, path).unwrap()) == x
            && proof_s::<Keccak256>(t, path) =~= p,
{ axiom_ideal_hash(); lemma_sound_sorted::<Keccak256>(t, p, x) }

// ---- corollaries in the property's own words ----
pub proof fn lemma_down_up(path: Seq<bool>)
    ensures down_path(up_bits(path)) =~= path,
    decreases path.len()
{
    if path.len() > 0 {
        lemma_down_up(path.drop_first());
        let u = up_bits(path);
        assert(u.drop_last() =~= up_bits(path.drop_first()));
        assert(u.last() == path[0]);
    }
}
/// at the leaf's own index only the honest (leaf hash, proof) pair is accepted: a value that is not the
/// node there, or any altered / reordered proof of the same length, is rejected
pub proof fn lemma_indexed_only_honest<H: Hasher>(t: Tree, path: Seq<bool>, p2: Seq<Seq<u8>>, x2: Seq<u8>)
    requires
        ideal_pair_hash::<H>(), wf(t), leaves_sep::<H>(t), node_at(t, path).is_some(),
        x2.len() == 32, all32(p2), p2.len() == path.len(),
        fold_indexed::<H>(p2, x2, leaf_index(path)) == hi::<H>(t),
    ensures
        //@@ C17:lemma.indexed_only_honest
        p2 =~= proof_i::<H>(t, path) && x2 == hi::<H>(node_at(t, path).unwrap()),
{
    lemma_up_bits_len(path);
    lemma_index_of_bits(up_bits(path));
    lemma_down_up(path);
    lemma_sound_indexed::<H>(t, p2, x2, leaf_index(path));
    assert(path_of_index(leaf_index(path), p2.len()) =~= path);
}
/// with a wrong index j (same depth) the honest pair of position `path` is rejected unless the node at
/// position j has the same hash and the same proof, i.e. is itself a valid path for that value
pub proof fn lemma_wrong_index<H: Hasher>(t: Tree, path: Seq<bool>, j: nat)
    requires
        ideal_pair_hash::<H>(), wf(t), leaves_sep::<H>(t), node_at(t, path).is_some(),
        j < pow2(path.len()), j != leaf_index(path),
        fold_indexed::<H>(proof_i::<H>(t, path), hi::<H>(node_at(t, path).unwrap()), j) == hi::<H>(t),
    ensures
        //@@ C17:lemma.wrong_index_only_if_other_valid_path
        path_of_index(j, path.len()) != path
            && node_at(t, path_of_index(j, path.len())).is_some()
            && hi::<H>(node_at(t, path_of_index(j, path.len())).unwrap()) == hi::<H>(node_at(t, path).unwrap())
            && proof_i::<H>(t, path_of_index(j, path.len())) =~= proof_i::<H>(t, path),
{
    lemma_complete_bits::<H>(t, path);
    let n = node_at(t, path).unwrap();
    lemma_node_at_wf::<H>(t, path);
    lemma_hi_len::<H>(n);
    lemma_proof_all32::<H>(t, path);
    lemma_sound_indexed::<H>(t, proof_i::<H>(t, path), hi::<H>(n), j);
}
pub proof fn lemma_node_at_wf<H: Hasher>(t: Tree, path: Seq<bool>)
    requires wf(t), node_at(t, path).is_some(),
    ensures wf(node_at(t, path).unwrap()),
    decreases path.len()
{
    if path.len() > 0 { lemma_node_at_wf::<H>(child(t, path[0]), path.drop_first()); }
}
pub proof fn lemma_proof_all32<H: Hasher>(t: Tree, path: Seq<bool>)
    requires wf(t),
    ensures all32(proof_i::<H>(t, path)), all32(proof_s::<H>(t, path)),
    decreases path.len()
{
    if path.len() > 0 && is_node(t) {
        lemma_proof_all32::<H>(child(t, path[0]), path.drop_first());
        lemma_hi_len::<H>(child(t, !path[0]));
    }
}
/// any other root is rejected (the fold is a function of proof, leaf and index)
pub proof fn lemma_other_root<H: Hasher>(p: Seq<Seq<u8>>, x: Seq<u8>, i: nat, root: Seq<u8>, root2: Seq<u8>)
    requires root2 != root,
    ensures
        //@@ C17:lemma.other_root_rejected
        !(fold_indexed::<H>(p, x, i) == root && fold_indexed::<H>(p, x, i) == root2),
        !(fold_sorted::<H>(p, x) == root && fold_sorted::<H>(p, x) == root2),
{}
/// the arguments `Verifier` really receives are sequences of 32-byte strings
pub proof fn lemma_seq_bytes_all32(s: Seq<BytesN<32>>)
    ensures all32(seq_bytes(s)),
{
    assert forall|j: int| 0 <= j < seq_bytes(s).len() implies (#[trigger] seq_bytes(s)[j]).len() == 32 by { s[j].lemma_len(); }
}
/// what a `true` from `Verifier::<Sha256>::verify_with_index(e, proof, root, leaf, index)` means when
/// `root` is the root of tree t (read together with the contract `C17:verify_with_index.exact/.bounds`)
pub proof fn lemma_verify_with_index_true_sha256(t: Tree, proof_: Seq<BytesN<32>>, leaf: BytesN<32>, index: u32)
    requires wf(t), leaves_sep::<Sha256>(t), (index as int) < pow2(proof_.len()),
        fold_indexed::<Sha256>(seq_bytes(proof_), leaf@, index as nat) == hi::<Sha256>(t),
    ensures
        //@@ C17:lemma.verify_with_index_true_means_member
        node_at(t, path_of_index(index as nat, proof_.len())).is_some()
            && hi::<Sha256>(node_at(t, path_of_index(index as nat, proof_.len())).unwrap()) == leaf@
            && proof_i::<Sha256>(t, path_of_index(index as nat, proof_.len())) =~= seq_bytes(proof_),
{
    leaf.lemma_len();
    lemma_seq_bytes_all32(proof_);
    lemma_sound_indexed_sha256(t, seq_bytes(proof_), leaf@, index as nat);
}
pub proof fn lemma_verify_true_sha256(t: Tree, proof_: Seq<BytesN<32>>, leaf: BytesN<32>) -> (path: Seq<bool>)
    requires wf(t), leaves_sep::<Sha256>(t), fold_sorted::<Sha256>(seq_bytes(proof_), leaf@) == hs::<Sha256>(t),
    ensures
        //@@ C17:lemma.verify_true_means_member
        path.len() == proof_.len() && node_at(t, path).is_some() && hs::<Sha256>(node_at(t, path).unwrap()) == leaf@
            && proof_s::<Sha256>(t, path) =~= seq_bytes(proof_),
{
    leaf.lemma_len();
    lemma_seq_bytes_all32(proof_);
    lemma_sound_sorted_sha256(t, seq_bytes(proof_), leaf@)
}
