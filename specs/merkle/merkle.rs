// =================================================================================================
// C17 — Merkle proof verification and the single-claim distributor: specification layer
// =================================================================================================
//
// The repository's traits (crypto/hasher.rs `Hasher`, crypto/hashable.rs `Hashable`,
// merkle_distributor/mod.rs `IndexableLeaf`) have no bodies; they are declared here with the same
// signatures plus a Verus contract.  The contract is NOT assumed for the two real hashers: the
// extracted `impl Hasher for Sha256` / `impl Hasher for Keccak256` (and `impl Hashable for
// BytesN<32>` / `Bytes`) are verified against it.  Generic code (`hash_pair`, `Verifier<H>`,
// `MerkleDistributor<H>`) is verified once for every `H` that satisfies the contract.

use vstd::arithmetic::power2::*;
/// ghost view of a hasher output as a byte string
pub trait HasBytes { spec fn bytes(&self) -> Seq<u8>; }
impl<const N: usize> HasBytes for BytesN<N> { open spec fn bytes(&self) -> Seq<u8> { self@ } }

/// absorbing `b` into a hasher state
pub open spec fn st_app(s: Option<Seq<u8>>, b: Seq<u8>) -> Seq<u8> { match s { None => b, Some(x) => x + b } }

pub trait Hasher: Sized {   // (`Sized` is needed by the ghost clauses naming `Self` values; every implementor is Sized)
    type Output: HasBytes;
    /// bytes absorbed so far (None: nothing yet)
    spec fn st(&self) -> Option<Seq<u8>>;
    /// the hash function computed by this hasher
    spec fn digest(b: Seq<u8>) -> Seq<u8>;
    proof fn lemma_digest_len(b: Seq<u8>) ensures Self::digest(b).len() == 32;
    fn new(e: &Env) -> (r: Self) ensures r.st().is_none();
    fn update(&mut self, input: Bytes) ensures final(self).st() == Some(st_app(old(self).st(), input@));
    /// fails on an empty state (CryptoError::HasherEmptyState)
    fn finalize(self) -> (r: Self::Output) ensures self.st().is_some(), r.bytes() == Self::digest(self.st().unwrap());
}

pub trait Hashable {
    /// the bytes this value feeds into a hasher
    spec fn hbytes(&self) -> Seq<u8>;
    fn hash<H: Hasher>(&self, hasher: &mut H) ensures final(hasher).st() == Some(st_app(old(hasher).st(), self.hbytes()));
}

pub trait IndexableLeaf {
    spec fn idx(&self) -> u32;
    fn index(&self) -> (r: u32) ensures r == self.idx();
}

// ---- pair hashing and proof folding (mirrors hashable.rs / merkle.rs) ----
pub open spec fn hpair<H: Hasher>(a: Seq<u8>, b: Seq<u8>) -> Seq<u8> { H::digest(a + b) }
/// strict "greater" of the host's byte-string order
pub open spec fn bgt(a: Seq<u8>, b: Seq<u8>) -> bool { a != b && lex_gt(a, b) }
pub open spec fn cpair<H: Hasher>(a: Seq<u8>, b: Seq<u8>) -> Seq<u8> { if bgt(a, b) { hpair::<H>(b, a) } else { hpair::<H>(a, b) } }
/// one level of the positional form: the running node is a left child iff its index is even
pub open spec fn ipair<H: Hasher>(x: Seq<u8>, sib: Seq<u8>, i: nat) -> Seq<u8> { if i % 2 == 0 { hpair::<H>(x, sib) } else { hpair::<H>(sib, x) } }

pub open spec fn fold_sorted<H: Hasher>(p: Seq<Seq<u8>>, x: Seq<u8>) -> Seq<u8>
    decreases p.len()
{
    if p.len() == 0 { x } else { fold_sorted::<H>(p.drop_first(), cpair::<H>(x, p[0])) }
}
pub open spec fn fold_indexed<H: Hasher>(p: Seq<Seq<u8>>, x: Seq<u8>, i: nat) -> Seq<u8>
    decreases p.len()
{
    if p.len() == 0 { x } else { fold_indexed::<H>(p.drop_first(), ipair::<H>(x, p[0], i), i / 2) }
}
pub open spec fn seq_bytes(s: Seq<BytesN<32>>) -> Seq<Seq<u8>> { Seq::new(s.len(), |i: int| s[i]@) }

pub proof fn lemma_seq_bytes_skip(s: Seq<BytesN<32>>, i: int)
    requires 0 <= i < s.len(),
    ensures seq_bytes(s.skip(i)).len() > 0, seq_bytes(s.skip(i))[0] == s[i]@,
        seq_bytes(s.skip(i)).drop_first() =~= seq_bytes(s.skip(i + 1)),
        seq_bytes(s.skip(s.len() as int)).len() == 0,
        s.skip(0) =~= s,
{}

pub open spec fn swap_of<T: PartialOrd>(a: &T, b: &T) -> bool {
    vstd::std_specs::cmp::PartialOrdSpec::partial_cmp_spec(a, b) == Some(core::cmp::Ordering::Greater)
}

/// `1 << n` on u32 is 2^n for n < 32
pub proof fn lemma_shl1_pow2(n: u32)
    requires n < 32,
    ensures (1u32 << n) as int == pow2(n as nat), pow2(n as nat) <= u32::MAX,
{
    vstd::arithmetic::power2::lemma2_to64();
    vstd::arithmetic::power2::lemma_pow2_strictly_increases(n as nat, 32);
    vstd::bits::lemma_u32_shl_is_mul(1u32, n);
}
