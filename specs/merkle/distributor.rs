// =================================================================================================
// C17 — MerkleDistributor: exact successor states of every function of the unit
// =================================================================================================
pub open spec fn k_root() -> MerkleDistributorStorageKey { MerkleDistributorStorageKey::Root }
pub open spec fn k_claimed(i: u32) -> MerkleDistributorStorageKey { MerkleDistributorStorageKey::Claimed(i) }

/// view: is a root stored, and its bytes
pub open spec fn root_is_set(w: World) -> bool { iget(w, k_root()).is_some() }
pub open spec fn root_bytes(w: World) -> Seq<u8> { <BytesN<32> as ToSV>::unsv(iget(w, k_root()).unwrap())@ }
/// view: the claimed flag of an index (what `is_claimed` returns)
pub open spec fn claimed(w: World, i: u32) -> bool { dec::<bool>(pget(w, k_claimed(i))) == Some(true) }

pub open spec fn ev_set_root(root: Seq<u8>) -> SV { SetRoot { root: Bytes { s: Ghost(root) } }.ev() }
pub open spec fn ev_set_claimed(i: u32) -> SV { SetClaimed { index: Val { v: Ghost(SV::U32(i)) } }.ev() }

pub open spec fn set_root_post(w: World, root: Seq<u8>) -> World {
    w_event(iset(w, k_root(), SV::Bytes(root)), ev_set_root(root))
}
pub open spec fn set_claimed_post(w: World, i: u32) -> World {
    w_event(pset(w, k_claimed(i), true.sv()), ev_set_claimed(i))
}
/// what must have been true for `verify_and_set_claimed` to return
pub open spec fn claim_sorted_guard<H: Hasher>(w: World, i: u32, xdr: Seq<u8>, p: Seq<Seq<u8>>) -> bool {
    &&& root_is_set(w)
    &&& !claimed(w, i)
    &&& fold_sorted::<H>(p, H::digest(xdr)) == root_bytes(w)
}
/// ... and for `verify_with_index_and_set_claimed`
pub open spec fn claim_indexed_guard<H: Hasher>(w: World, i: u32, xdr: Seq<u8>, p: Seq<Seq<u8>>) -> bool {
    &&& root_is_set(w)
    &&& !claimed(w, i)
    &&& p.len() < 32 && (i as int) < pow2(p.len())
    &&& fold_indexed::<H>(p, H::digest(xdr), i as nat) == root_bytes(w)
}

// ---- property lemmas over the successor states ----
pub proof fn lemma_set_claimed_frame(w: World, i: u32, j: u32)
    ensures
        //@@ C17:lemma.set_claimed_sets_only_i
        claimed(set_claimed_post(w, i), j) == (j == i || claimed(w, j)),
        root_is_set(set_claimed_post(w, i)) == root_is_set(w),
        root_is_set(w) ==> root_bytes(set_claimed_post(w, i)) == root_bytes(w),
{
    broadcast use sdk_store;
    assert(<bool as ToSV>::unsv(true.sv()) == true);
}
pub proof fn lemma_set_root_frame(w: World, root: Seq<u8>, j: u32)
    ensures
        //@@ C17:lemma.set_root_keeps_claims
        claimed(set_root_post(w, root), j) == claimed(w, j),
        root_is_set(set_root_post(w, root)),
        root_bytes(set_root_post(w, root)) == root,
{
    broadcast use sdk_store;
}
