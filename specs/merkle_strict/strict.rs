// ---- strict flavour (pass B) of unit `merkle`, C17 converse direction: "proof verification ACCEPTS every leaf with the
// ---- proof produced for it" needs more than the exact boolean on return - the call must RETURN.  Here every contract
// ---- error of the unit is a proof obligation (`sdk_panic_strict requires false`), diverging closures (`unwrap_or_else(||
// ---- panic_with_error!(..))`) get `requires false` (unit option "diverge_spec"), arithmetic is native (overflow, shift
// ---- amount and division by zero are Verus obligations), and the abstract hasher's `finalize` carries the precondition
// ---- "something was absorbed" (unit option "spec_subst" on ../merkle/merkle.rs; the two real hashers are verified against it).
// ---- What verifies here CANNOT revert on the stated domain.
#[verifier::external_body]
pub fn sdk_panic_strict(code: u32) -> !
    requires false
{ panic!() }
macro_rules! panic_with_error {
    ($e:expr, $err:expr) => { sdk_panic_strict($err as u32) };
}

/// the shape of every positional proof produced for a leaf: a tree of depth `len` (at most 31 levels below the root, the
/// documented maximum of `verify_with_index`) has 2^len slots at that depth, numbered 0 .. 2^len - 1
pub open spec fn indexed_shape(len: nat, index: u32) -> bool { len < 32 && (index as int) < pow2(len) }

/// ... and that IS the shape of the honest proof: for the node at `path` of any tree (depth below 32), the positional proof
/// has one sibling per level, the node's position number is below 2^depth, and it fits the `u32` index parameter
pub proof fn lemma_honest_proof_has_indexed_shape<H: Hasher>(t: Tree, path: Seq<bool>)
    requires node_at(t, path).is_some(), path.len() < 32,
    ensures
        //@@ C17:strict.lemma.honest_indexed_proof_in_domain
        leaf_index(path) <= u32::MAX
            && indexed_shape(proof_i::<H>(t, path).len(), leaf_index(path) as u32)
            && fold_indexed::<H>(proof_i::<H>(t, path), hi::<H>(node_at(t, path).unwrap()), leaf_index(path) as u32 as nat) == hi::<H>(t),
{
    lemma_complete_indexed::<H>(t, path);
    vstd::arithmetic::power2::lemma2_to64();
    if path.len() < 32 { vstd::arithmetic::power2::lemma_pow2_strictly_increases(path.len(), 32); }
}
