// expanded nft-access-control example: macro-injected admin / role guards (C06), AccessControl defaults wired to the
// library (C06, C07), NonFungibleToken defaults and the role-guarded burn wired to Base (C10, C11)
pub open spec fn xrole(name: Seq<char>) -> Symbol { Symbol { code: Ghost(str_code(name)) } }
pub open spec fn minter_role() -> Symbol { xrole("minter"@) }
pub open spec fn burner_role() -> Symbol { xrole("burner"@) }
