// ================================================================================================
// C03 in the property's own words, derived from the contracts of the extracted functions
// (get_authenticated_signers / get_valid_context_rules / get_validated_context / authenticate / do_check_auth).
// ================================================================================================

// ---- signers: "signers not named by the rule never count" ----
pub proof fn lemma_filter_in_is_filter(s: Seq<Signer>, all: Seq<Signer>)
    ensures
        //@@ C03:lemma.signers.filter_order_kept
        filter_in(s, all) == s.filter(|x: Signer| all.contains(x)),
    decreases s.len()
{
    reveal_with_fuel(Seq::filter, 2);
    if s.len() > 0 { lemma_filter_in_is_filter(s.drop_last(), all); }
}
pub proof fn lemma_filter_in_members(s: Seq<Signer>, all: Seq<Signer>)
    ensures
        //@@ C03:lemma.signers.only_rule_signers_count
        forall|x: Signer| filter_in(s, all).contains(x) ==> s.contains(x) && all.contains(x),
        forall|x: Signer| s.contains(x) && all.contains(x) ==> filter_in(s, all).contains(x),
        filter_in(s, all).len() <= s.len(),
    decreases s.len()
{
    if s.len() > 0 {
        let s0 = s.drop_last();
        lemma_filter_in_members(s0, all);
        let f0 = filter_in(s0, all);
        let f = filter_in(s, all);
        assert forall|x: Signer| f.contains(x) implies s.contains(x) && all.contains(x) by {
            let i = choose|i: int| 0 <= i < f.len() && f[i] == x;
            if i < f0.len() {
                assert(f0[i] == x);
                assert(f0.contains(x));
                assert(s0.contains(x) && all.contains(x));
                let j = choose|j: int| 0 <= j < s0.len() && s0[j] == x;
                assert(s[j] == x);
            } else {
                assert(all.contains(s.last()) && x == s.last());
                assert(s[s.len() - 1] == x);
            }
        }
        assert forall|x: Signer| s.contains(x) && all.contains(x) implies f.contains(x) by {
            let j = choose|j: int| 0 <= j < s.len() && s[j] == x;
            if j == s.len() - 1 { assert(f[f0.len() as int] == x); }
            else { assert(s0[j] == x); assert(s0.contains(x)); assert(f0.contains(x)); let i = choose|i: int| 0 <= i < f0.len() && f0[i] == x; assert(f[i] == x); }
        }
    }
}
/// the test `rule_signers.len() == authenticated_signers.len()` means: EVERY signer of the rule was supplied
pub proof fn lemma_filter_in_full(s: Seq<Signer>, all: Seq<Signer>)
    ensures
        //@@ C03:lemma.signers.all_rule_signers_required
        (filter_in(s, all).len() == s.len()) <==> (forall|i: int| 0 <= i < s.len() ==> all.contains(#[trigger] s[i])),
    decreases s.len()
{
    if s.len() > 0 {
        let s0 = s.drop_last();
        lemma_filter_in_full(s0, all);
        lemma_filter_in_members(s0, all);
        if filter_in(s, all).len() == s.len() {
            assert forall|i: int| 0 <= i < s.len() implies all.contains(#[trigger] s[i]) by {
                if i < s.len() - 1 { assert(s0[i] == s[i]); }
            }
        }
        if forall|i: int| 0 <= i < s.len() ==> all.contains(#[trigger] s[i]) {
            assert forall|i: int| 0 <= i < s0.len() implies all.contains(#[trigger] s0[i]) by { assert(s0[i] == s[i]); }
            assert(all.contains(s[s.len() - 1]));
        }
    }
}

// ---- candidates: "existing, unexpired rule of the matching type (or Default)", "newest-first, type-specific before Default" ----
pub proof fn lemma_live_rules_members(w: World, ids: Seq<u32>)
    ensures
        //@@ C03:lemma.candidates.existing_unexpired
        forall|c: ContextRule| #[trigger] live_rules_rev(w, ids).contains(c) ==>
            rule_live(w, c) && exists|i: int| 0 <= i < ids.len() && c == sa_rule(w, #[trigger] ids[i]),
        //@@ C03:lemma.candidates.no_live_rule_skipped
        forall|i: int| 0 <= i < ids.len() && rule_live(w, sa_rule(w, #[trigger] ids[i])) ==> live_rules_rev(w, ids).contains(sa_rule(w, ids[i])),
    decreases ids.len()
{
    if ids.len() > 0 {
        let ids0 = ids.drop_last();
        lemma_live_rules_members(w, ids0);
        let l0 = live_rules_rev(w, ids0);
        let l = live_rules_rev(w, ids);
        let last = sa_rule(w, ids.last());
        assert forall|c: ContextRule| #[trigger] l.contains(c) implies
            rule_live(w, c) && exists|i: int| 0 <= i < ids.len() && c == sa_rule(w, #[trigger] ids[i]) by {
            let p = choose|p: int| 0 <= p < l.len() && l[p] == c;
            if rule_live(w, last) && p == 0 {
                assert(c == sa_rule(w, ids[ids.len() - 1]));
            } else {
                let q = if rule_live(w, last) { p - 1 } else { p };
                assert(l0[q] == c);
                assert(l0.contains(c));
                assert(exists|i: int| 0 <= i < ids0.len() && c == sa_rule(w, #[trigger] ids0[i]));
                let i = choose|i: int| 0 <= i < ids0.len() && c == sa_rule(w, #[trigger] ids0[i]);
                assert(ids0[i] == ids[i]);
                assert(c == sa_rule(w, ids[i]));
            }
        }
        assert forall|i: int| 0 <= i < ids.len() && rule_live(w, sa_rule(w, #[trigger] ids[i])) implies l.contains(sa_rule(w, ids[i])) by {
            if i == ids.len() - 1 { assert(l[0] == last); }
            else {
                assert(ids0[i] == ids[i]);
                assert(l0.contains(sa_rule(w, ids0[i])));
                let q = choose|q: int| 0 <= q < l0.len() && l0[q] == sa_rule(w, ids[i]);
                if rule_live(w, last) { assert(l[q + 1] == l0[q]); } else { assert(l[q] == l0[q]); }
            }
        }
    }
}
/// newest first: the list is the live ids, each replaced by its rule, in REVERSE order of the id list
pub proof fn lemma_live_rules_newest_first(w: World, ids: Seq<u32>)
    ensures
        //@@ C03:lemma.candidates.newest_first
        live_rules_rev(w, ids) == ids.filter(|id: u32| rule_live(w, sa_rule(w, id))).map_values(|id: u32| sa_rule(w, id)).reverse(),
    decreases ids.len()
{
    reveal_with_fuel(Seq::filter, 2);
    let live = |id: u32| rule_live(w, sa_rule(w, id));
    let mk = |id: u32| sa_rule(w, id);
    if ids.len() > 0 {
        let ids0 = ids.drop_last();
        lemma_live_rules_newest_first(w, ids0);
        let f0 = ids0.filter(live);
        if live(ids.last()) {
            assert(ids.filter(live) == f0.push(ids.last()));
            assert(f0.push(ids.last()).map_values(mk) =~= f0.map_values(mk).push(mk(ids.last())));
            assert(f0.map_values(mk).push(mk(ids.last())).reverse() =~= seq![mk(ids.last())] + f0.map_values(mk).reverse());
        } else {
            assert(ids.filter(live) == f0);
        }
    } else {
        assert(ids.filter(live).map_values(mk).reverse() =~= Seq::<ContextRule>::empty());
    }
}
pub proof fn lemma_candidates_order(w: World, t: ContextRuleType, k: int)
    requires 0 <= k < candidates(w, t).len(),
    ensures
        //@@ C03:lemma.candidates.type_specific_before_default
        k < live_rules_rev(w, sa_ids(w, t)).len() ==> candidates(w, t)[k] == live_rules_rev(w, sa_ids(w, t))[k],
        k >= live_rules_rev(w, sa_ids(w, t)).len() ==>
            candidates(w, t)[k] == live_rules_rev(w, sa_ids(w, ContextRuleType::Default))[k - live_rules_rev(w, sa_ids(w, t)).len()],
        //@@ C03:lemma.candidates.member_is_live_listed_rule
        rule_live(w, candidates(w, t)[k]),
        (exists|i: int| 0 <= i < sa_ids(w, t).len() && candidates(w, t)[k] == sa_rule(w, #[trigger] sa_ids(w, t)[i]))
            || (exists|i: int| 0 <= i < sa_ids(w, ContextRuleType::Default).len() && candidates(w, t)[k] == sa_rule(w, #[trigger] sa_ids(w, ContextRuleType::Default)[i])),
{
    let a = live_rules_rev(w, sa_ids(w, t));
    let b = live_rules_rev(w, sa_ids(w, ContextRuleType::Default));
    lemma_live_rules_members(w, sa_ids(w, t));
    lemma_live_rules_members(w, sa_ids(w, ContextRuleType::Default));
    if k < a.len() { assert(a.contains(a[k])); } else { assert(b.contains(b[k - a.len()])); }
}

// ---- precedence: "the chosen rule's requirement is met and no earlier candidate's was" ----
/// candidate `rule` was tried and NOT satisfied, read off the log: a rule without policies misses one of its signers;
/// a rule with policies had one of its own policies answer `false` to `can_enforce` (asked with exactly the rule's
/// supplied signers `filter_in(rule.signers, all)`)
pub open spec fn rule_refused(seg: Seq<Call>, this: Address, ctx: Context, all: Seq<Signer>, rule: ContextRule) -> bool {
    let a = filter_in(rule.signers@, all);
    if rule.policies@.len() == 0 {
        exists|i: int| 0 <= i < rule.signers@.len() && !all.contains(#[trigger] rule.signers@[i])
    } else {
        exists|p: int, i: int| 0 <= p < seg.len() && 0 <= i < rule.policies@.len()
            && #[trigger] seg[p] == ce_call(this, #[trigger] rule.policies@[i], ctx, a, rule, false)
    }
}
/// candidate `rule` is satisfied, read off the END of the log: without policies, EVERY signer of the rule was supplied;
/// with policies, each of them was asked in order and each answered `true`
pub open spec fn rule_satisfied(seg: Seq<Call>, this: Address, ctx: Context, all: Seq<Signer>, rule: ContextRule) -> bool {
    let a = filter_in(rule.signers@, all);
    let np = rule.policies@.len() as int;
    if np == 0 {
        forall|i: int| 0 <= i < rule.signers@.len() ==> all.contains(#[trigger] rule.signers@[i])
    } else {
        np <= seg.len() && forall|i: int| 0 <= i < np ==> #[trigger] seg[seg.len() - np + i] == ce_call(this, rule.policies@[i], ctx, a, rule, true)
    }
}
pub proof fn lemma_refused_mono(s1: Seq<Call>, s2: Seq<Call>, this: Address, ctx: Context, all: Seq<Signer>, rule: ContextRule)
    requires rule_refused(s1, this, ctx, all, rule), s1.len() <= s2.len(), s2.take(s1.len() as int) =~= s1,
    ensures rule_refused(s2, this, ctx, all, rule),
{
    if rule.policies@.len() > 0 {
        let a = filter_in(rule.signers@, all);
        let (p, i) = choose|p: int, i: int| 0 <= p < s1.len() && 0 <= i < rule.policies@.len()
            && #[trigger] s1[p] == ce_call(this, #[trigger] rule.policies@[i], ctx, a, rule, false);
        assert(s2.take(s1.len() as int)[p] == s2[p]);
        assert(s2[p] == ce_call(this, rule.policies@[i], ctx, a, rule, false));
    }
}
pub proof fn lemma_rejected_all_refused(seg: Seq<Call>, this: Address, ctx: Context, all: Seq<Signer>, cands: Seq<ContextRule>, j: int)
    requires rejected_log(seg, this, ctx, all, cands, j), 0 <= j <= cands.len(),
    ensures forall|q: int| 0 <= q < j ==> rule_refused(seg, this, ctx, all, #[trigger] cands[q]),
    decreases j
{
    if j > 0 {
        let rule = cands[j - 1];
        let a = filter_in(rule.signers@, all);
        if rule.policies@.len() == 0 {
            lemma_rejected_all_refused(seg, this, ctx, all, cands, j - 1);
            lemma_filter_in_full(rule.signers@, all);
            assert(rule_refused(seg, this, ctx, all, rule));
        } else {
            let m = choose|m: int| 0 <= m < seg.len() && rejected_log(#[trigger] seg.take(m), this, ctx, all, cands, j - 1)
                && ce_seg(seg.skip(m), this, ctx, a, rule, seg.len() - m, false);
            lemma_rejected_all_refused(seg.take(m), this, ctx, all, cands, j - 1);
            assert forall|q: int| 0 <= q < j - 1 implies rule_refused(seg, this, ctx, all, #[trigger] cands[q]) by {
                assert(seg.take(seg.take(m).len() as int) =~= seg.take(m));
                lemma_refused_mono(seg.take(m), seg, this, ctx, all, cands[q]);
            }
            let n = seg.len() - m;
            assert(seg.skip(m)[n - 1] == seg[seg.len() - 1]);
            assert(seg[seg.len() - 1] == ce_call(this, rule.policies@[n - 1], ctx, a, rule, false));
            assert(rule_refused(seg, this, ctx, all, rule));
        }
    }
}
pub proof fn lemma_accepted_precedence(seg: Seq<Call>, this: Address, ctx: Context, all: Seq<Signer>, cands: Seq<ContextRule>, k: int)
    requires accepted_log(seg, this, ctx, all, cands, k), 0 <= k < cands.len(),
    ensures
        //@@ C03:lemma.precedence.chosen_rule_satisfied
        rule_satisfied(seg, this, ctx, all, cands[k]),
        //@@ C03:lemma.precedence.no_earlier_candidate_satisfied
        forall|q: int| 0 <= q < k ==> rule_refused(seg, this, ctx, all, #[trigger] cands[q]),
{
    let rule = cands[k];
    let a = filter_in(rule.signers@, all);
    let np = rule.policies@.len() as int;
    if np == 0 {
        lemma_filter_in_full(rule.signers@, all);
        lemma_rejected_all_refused(seg, this, ctx, all, cands, k);
    } else {
        let m = seg.len() - np;
        lemma_rejected_all_refused(seg.take(m), this, ctx, all, cands, k);
        assert forall|q: int| 0 <= q < k implies rule_refused(seg, this, ctx, all, #[trigger] cands[q]) by {
            assert(seg.take(seg.take(m).len() as int) =~= seg.take(m));
            lemma_refused_mono(seg.take(m), seg, this, ctx, all, cands[q]);
        }
        assert forall|i: int| 0 <= i < np implies #[trigger] seg[seg.len() - np + i] == ce_call(this, rule.policies@[i], ctx, a, rule, true) by {
            assert(seg.skip(m)[i] == seg[m + i]);
        }
    }
}

// ---- the whole check: "succeeds only if every supplied signature verifies and every requested context is covered" ----
pub proof fn lemma_auth_every_pair(base: Set<(Address, Seq<SV>)>, payload: Seq<u8>, entries: Seq<(Signer, Bytes)>)
    ensures
        forall|x: (Address, Seq<SV>)| base.contains(x) ==> auth_args_after(base, payload, entries).contains(x),
        forall|i: int| 0 <= i < entries.len() ==> match (#[trigger] entries[i]).0 {
            Signer::External(v, k) => auth_calls(payload, entries).contains(verify_call(payload, v, k, entries[i].1)),
            Signer::Delegated(a) => auth_args_after(base, payload, entries).contains((a, seq![SV::Bytes(payload)])),
        },
    decreases entries.len()
{
    if entries.len() > 0 {
        let e0 = entries.drop_last();
        lemma_auth_every_pair(base, payload, e0);
        let c0 = auth_calls(payload, e0);
        let c = auth_calls(payload, entries);
        assert forall|i: int| 0 <= i < entries.len() implies match (#[trigger] entries[i]).0 {
            Signer::External(v, k) => c.contains(verify_call(payload, v, k, entries[i].1)),
            Signer::Delegated(a) => auth_args_after(base, payload, entries).contains((a, seq![SV::Bytes(payload)])),
        } by {
            if i < entries.len() - 1 {
                assert(e0[i] == entries[i]);
                match entries[i].0 {
                    Signer::External(v, k) => {
                        let x = verify_call(payload, v, k, entries[i].1);
                        assert(c0.contains(x));
                        let q = choose|q: int| 0 <= q < c0.len() && c0[q] == x;
                        assert(c[q] == x);
                    }
                    Signer::Delegated(a) => {}
                }
            } else {
                match entries[i].0 {
                    Signer::External(v, k) => { assert(c[c0.len() as int] == verify_call(payload, v, k, entries[i].1)); }
                    Signer::Delegated(a) => {}
                }
            }
        }
    }
}
pub proof fn lemma_validated_each(w: World, seg: Seq<Call>, ctxs: Seq<Context>, all: Seq<Signer>, vcs: Seq<VC>, i: int)
    requires validated_log(w, seg, ctxs, all, vcs), 0 <= i < vcs.len(),
    ensures exists|lo: int, hi: int| 0 <= lo <= hi <= seg.len() && gvc_seg(w, #[trigger] seg.subrange(lo, hi), ctxs[i], all, vcs[i]),
    decreases vcs.len()
{
    let p = choose|p: int| 0 <= p <= seg.len() && validated_log(w, #[trigger] seg.take(p), ctxs, all, vcs.drop_last())
        && gvc_seg(w, seg.skip(p), ctxs[vcs.len() - 1], all, vcs.last());
    if i == vcs.len() - 1 {
        assert(seg.skip(p) =~= seg.subrange(p, seg.len() as int));
    } else {
        lemma_validated_each(w, seg.take(p), ctxs, all, vcs.drop_last(), i);
        let (lo, hi) = choose|lo: int, hi: int| 0 <= lo <= hi <= seg.take(p).len() && gvc_seg(w, #[trigger] seg.take(p).subrange(lo, hi), ctxs[i], all, vcs.drop_last()[i]);
        assert(seg.take(p).subrange(lo, hi) =~= seg.subrange(lo, hi));
    }
}
pub proof fn lemma_validated_choice(w: World, seg: Seq<Call>, ctxs: Seq<Context>, all: Seq<Signer>, vcs: Seq<VC>, i: int)
    requires validated_log(w, seg, ctxs, all, vcs), 0 <= i < vcs.len(),
    ensures vcs[i].1 == ctxs[i], candidates_exist(w, ctx_rule_type(ctxs[i])),
        exists|sub: Seq<Call>, k: int| #[trigger] gvc_choice(w, sub, ctxs[i], all, vcs[i].0, vcs[i].2@, k),
{
    lemma_validated_each(w, seg, ctxs, all, vcs, i);
    let (lo, hi) = choose|lo: int, hi: int| 0 <= lo <= hi <= seg.len() && gvc_seg(w, #[trigger] seg.subrange(lo, hi), ctxs[i], all, vcs[i]);
    let sub = seg.subrange(lo, hi);
    assert(gvc_seg(w, sub, ctxs[i], all, vcs[i]));
    let k = choose|k: int| #[trigger] gvc_choice(w, sub, ctxs[i], all, vcs[i].0, vcs[i].2@, k);
    assert(gvc_choice(w, sub, ctxs[i], all, vcs[i].0, vcs[i].2@, k));
}
/// C03, soundness direction, for the log shape `dca_with` that `do_check_auth` guarantees on `Ok`
pub proof fn lemma_check_auth_sound(w0: World, w2: World, payload: Seq<u8>, entries: Seq<(Signer, Bytes)>, ctxs: Seq<Context>, vcs: Seq<VC>)
    requires dca_with(w0, w2, payload, entries, ctxs, vcs),
    ensures
        //@@ C03:lemma.check_auth.every_signature_verified
        forall|i: int| 0 <= i < entries.len() ==> match (#[trigger] entries[i]).0 {
            Signer::External(v, k) => new_calls(w0, w2).contains(verify_call(payload, v, k, entries[i].1)),
            Signer::Delegated(a) => w2.auth_args.contains((a, seq![SV::Bytes(payload)])),
        },
        //@@ C03:lemma.check_auth.every_context_covered_by_selected_rule
        forall|i: int| 0 <= i < ctxs.len() ==> (#[trigger] vcs[i]).1 == ctxs[i] && candidates_exist(w0, ctx_rule_type(ctxs[i]))
            && exists|sub: Seq<Call>, k: int| #[trigger] gvc_choice(w0, sub, ctxs[i], smap_keys(entries), vcs[i].0, vcs[i].2@, k),
        //@@ C03:lemma.check_auth.exactly_chosen_policies_enforced
        w2.calls.len() >= enforce_calls(w0.this, vcs, vcs.len() as int).len()
            && w2.calls.skip(w2.calls.len() - enforce_calls(w0.this, vcs, vcs.len() as int).len()) =~= enforce_calls(w0.this, vcs, vcs.len() as int),
        //@@ C03:lemma.check_auth.own_state_untouched
        w2.same_storage(w0) && w2.same_ledger(w0) && w2.events == w0.events && w2.auths == w0.auths,
{
    lemma_auth_every_pair(w0.auth_args, payload, entries);
    let la = auth_calls(payload, entries);
    let le = enforce_calls(w0.this, vcs, vcs.len() as int);
    let pa = (w0.calls.len() + la.len()) as int;
    let pe = (w2.calls.len() - le.len()) as int;
    assert forall|i: int| 0 <= i < entries.len() implies match (#[trigger] entries[i]).0 {
        Signer::External(v, k) => new_calls(w0, w2).contains(verify_call(payload, v, k, entries[i].1)),
        Signer::Delegated(a) => w2.auth_args.contains((a, seq![SV::Bytes(payload)])),
    } by {
        match entries[i].0 {
            Signer::External(v, k) => {
                let x = verify_call(payload, v, k, entries[i].1);
                let q = choose|q: int| 0 <= q < la.len() && la[q] == x;
                assert(w2.calls.subrange(0, pa)[w0.calls.len() + q] == (w0.calls + la)[w0.calls.len() + q]);
                assert(new_calls(w0, w2)[q] == x);
            }
            Signer::Delegated(a) => {}
        }
    }
    let seg = w2.calls.subrange(pa, pe);
    assert forall|i: int| 0 <= i < ctxs.len() implies (#[trigger] vcs[i]).1 == ctxs[i] && candidates_exist(w0, ctx_rule_type(ctxs[i]))
        && exists|sub: Seq<Call>, k: int| #[trigger] gvc_choice(w0, sub, ctxs[i], smap_keys(entries), vcs[i].0, vcs[i].2@, k) by {
        lemma_validated_choice(w0, seg, ctxs, smap_keys(entries), vcs, i);
    }
    assert(w2.calls.skip(pe) =~= w2.calls.subrange(pe, w2.calls.len() as int));
}
