// ================================================================================================
// C20 (context-rule registry): every edit is the abstract map/set operation on the registry views, and
// the representation invariant (NextId monotone, ids never reused, per-type id lists <-> stored rules,
// Count = number of stored rules <= limit, per-rule limits) holds after any history of edits.
// ================================================================================================

/// number of stored rules with id < n
pub open spec fn count_below(w: World, n: int) -> int
    decreases n
{
    if n <= 0 { 0 } else { count_below(w, n - 1) + if sa_exists(w, (n - 1) as u32) { 1int } else { 0int } }
}
pub open spec fn fp_has(w: World, h: BytesN<32>) -> bool { pget(w, SmartAccountStorageKey::Fingerprint(h)).is_some() }
pub open spec fn rule_fp(w: World, id: u32) -> BytesN<32> {
    BytesN { s: Ghost(fp_spec(sa_meta(w, id).unwrap().context_type, sa_signers(w, id), sa_policies(w, id))) }
}

pub open spec fn inv_ids(w: World) -> bool {
    // ids at or above NextId have never been handed out
    &&& forall|id: u32| id >= sa_next_id(w) ==> !#[trigger] sa_exists(w, id)
    // a per-type list holds stored rules of that type only ...
    &&& forall|t: ContextRuleType, i: int| 0 <= i < sa_ids(w, t).len() ==>
            sa_exists(w, #[trigger] sa_ids(w, t)[i]) && sa_meta(w, sa_ids(w, t)[i]).unwrap().context_type == t
    // ... in creation order, each once ...
    &&& forall|t: ContextRuleType, i: int, j: int| 0 <= i < j < sa_ids(w, t).len() ==> #[trigger] sa_ids(w, t)[i] < #[trigger] sa_ids(w, t)[j]
    // ... and every stored rule is listed under its type
    &&& forall|id: u32| #[trigger] sa_exists(w, id) ==> sa_ids(w, sa_meta(w, id).unwrap().context_type).contains(id)
    // Count is the number of stored rules, within the limit
    &&& sa_count(w) == count_below(w, sa_next_id(w) as int)
    &&& sa_count(w) <= MAX_CONTEXT_RULES
    &&& (sa_count(w) > 0 ==> iget(w, SmartAccountStorageKey::Count).is_some())
}
pub open spec fn inv_rules(w: World) -> bool {
    forall|id: u32| #[trigger] sa_exists(w, id) ==> limits_ok(sa_signers(w, id), sa_policies(w, id))
        && sa_signers(w, id).no_duplicates() && sa_policies(w, id).no_duplicates()
}
pub open spec fn inv_fp(w: World) -> bool {
    // the fingerprint of every stored rule is recorded, no two stored rules share one ...
    &&& forall|id: u32| #[trigger] sa_exists(w, id) ==> fp_has(w, rule_fp(w, id))
    &&& forall|a: u32, b: u32| #[trigger] sa_exists(w, a) && #[trigger] sa_exists(w, b) && a != b ==> rule_fp(w, a) != rule_fp(w, b)
    // ... and nothing else is recorded
    &&& forall|h: BytesN<32>| #[trigger] fp_has(w, h) ==> exists|id: u32| sa_exists(w, id) && rule_fp(w, id) == h
}
pub open spec fn sa_inv(w: World) -> bool { inv_ids(w) && inv_rules(w) && inv_fp(w) }

// ---- C03 "newest-first" rests on the registry invariant: ids are handed out in increasing order (NextId is monotone,
// lemma.step.next_id_monotone), every per-type list is strictly ascending (inv_ids, kept by every edit), hence the candidate
// list - the live rules of the id list, last first - is in strictly DESCENDING id order: a later-created rule always
// comes before an earlier one. An edit that reorders an id list (e.g. a swap-remove) breaks `keeps_invariant`. ----
pub proof fn lemma_candidates_descending(w: World, ids: Seq<u32>)
    requires forall|i: int, j: int| 0 <= i < j < ids.len() ==> ids[i] < ids[j],
    ensures
        //@@ C03:lemma.candidates.later_created_rule_first
        forall|p: int, q: int| 0 <= p < q < live_rules_rev(w, ids).len() ==> live_rules_rev(w, ids)[p].id > live_rules_rev(w, ids)[q].id,
    decreases ids.len()
{
    if ids.len() > 0 {
        let ids0 = ids.drop_last();
        lemma_candidates_descending(w, ids0);
        lemma_live_rules_members(w, ids0);
        let l0 = live_rules_rev(w, ids0);
        let l = live_rules_rev(w, ids);
        assert forall|p: int, q: int| 0 <= p < q < l.len() implies l[p].id > l[q].id by {
            if rule_live(w, sa_rule(w, ids.last())) {
                if p == 0 {
                    let c = l0[q - 1];
                    assert(l[q] == c);
                    assert(l0.contains(c));
                    let i = choose|i: int| 0 <= i < ids0.len() && c == sa_rule(w, #[trigger] ids0[i]);
                    assert(ids0[i] == ids[i]);
                    assert(c.id == ids[i] && ids[i] < ids[ids.len() - 1]);
                    assert(l[0] == sa_rule(w, ids.last()));
                } else {
                    assert(l[p] == l0[p - 1] && l[q] == l0[q - 1]);
                }
            } else {
                assert(l == l0);
            }
        }
    }
}
pub proof fn lemma_candidates_newest_first_by_creation(w: World, t: ContextRuleType)
    requires inv_ids(w),
    ensures
        //@@ C03:lemma.candidates.newest_first_under_registry_invariant
        forall|p: int, q: int| 0 <= p < q < live_rules_rev(w, sa_ids(w, t)).len() ==>
            live_rules_rev(w, sa_ids(w, t))[p].id > live_rules_rev(w, sa_ids(w, t))[q].id,
{
    let ids = sa_ids(w, t);
    assert forall|i: int, j: int| 0 <= i < j < ids.len() implies ids[i] < ids[j] by {
        assert(sa_ids(w, t)[i] < sa_ids(w, t)[j]);
    }
    lemma_candidates_descending(w, ids);
}

/// the registry views of w2 are those of w except for rule `id`
pub open spec fn rules_same_except(w: World, w2: World, id: u32) -> bool {
    forall|j: u32| #![trigger sa_meta(w2, j)] #![trigger sa_signers(w2, j)] #![trigger sa_policies(w2, j)]
        j != id ==> sa_meta(w2, j) == sa_meta(w, j) && sa_signers(w2, j) == sa_signers(w, j) && sa_policies(w2, j) == sa_policies(w, j)
}
pub open spec fn ids_same_except(w: World, w2: World, ct: ContextRuleType) -> bool {
    forall|t: ContextRuleType| t != ct ==> #[trigger] sa_ids(w2, t) == sa_ids(w, t)
}
pub open spec fn counters_same(w: World, w2: World) -> bool { sa_next_id(w2) == sa_next_id(w) && sa_count(w2) == sa_count(w)
    && iget(w2, SmartAccountStorageKey::Count) == iget(w, SmartAccountStorageKey::Count) }

pub proof fn lemma_count_below_change(w: World, w2: World, n: int, id: u32)
    requires forall|j: u32| j != id ==> #[trigger] sa_exists(w2, j) == sa_exists(w, j), 0 <= n <= u32::MAX + 1,
    ensures count_below(w2, n) == count_below(w, n)
        + (if (id as int) < n { (if sa_exists(w2, id) { 1int } else { 0int }) - (if sa_exists(w, id) { 1int } else { 0int }) } else { 0int }),
    decreases n
{
    if n > 0 { lemma_count_below_change(w, w2, n - 1, id); }
}
pub proof fn lemma_count_below_bound(w: World, n: int)
    requires 0 <= n,
    ensures 0 <= count_below(w, n) <= n,
    decreases n
{
    if n > 0 { lemma_count_below_bound(w, n - 1); }
}

// ---- add_context_rule = insert a new rule under a fresh id ----
pub proof fn lemma_add_rule_abs(w: World, ct: ContextRuleType, name: String, vu: Option<u32>, signers: Seq<Signer>, pol: Seq<(Address, Val)>)
    requires add_rule_guard(w, ct, vu, signers, pol),
    ensures ({
        let w2 = add_rule_post(w, ct, name, vu, signers, pol);
        let id = sa_next_id(w);
        //@@ C03+C20:lemma.add_rule.is_map_insert_at_fresh_id
        &&& sa_next_id(w2) == id + 1
        &&& sa_count(w2) == sa_count(w) + 1
        &&& iget(w2, SmartAccountStorageKey::Count).is_some()
        &&& sa_meta(w2, id) == Some(Meta { name: name, context_type: ct, valid_until: vu })
        &&& sa_signers(w2, id) == signers
        &&& sa_policies(w2, id) == smap_keys(pol)
        &&& rules_same_except(w, w2, id)
        &&& sa_ids(w2, ct) == sa_ids(w, ct).push(id)
        &&& ids_same_except(w, w2, ct)
        &&& forall|h: BytesN<32>| #[trigger] fp_has(w2, h) == (fp_has(w, h) || h@ == fp_spec(ct, signers, smap_keys(pol)))
    }),
{
    broadcast use sdk_store;
    let w2 = add_rule_post(w, ct, name, vu, signers, pol);
    let id = sa_next_id(w);
    assert(sa_ids(w2, ct) =~= sa_ids(w, ct).push(id));
    assert(sa_signers(w2, id) =~= signers);
    assert(sa_policies(w2, id) =~= smap_keys(pol));
}
/// abstract effect "insert rule `id` of type `ct`" on the registry views (fingerprints aside)
pub open spec fn rule_inserted(w: World, w2: World, id: u32, ct: ContextRuleType, signers: Seq<Signer>, policies: Seq<Address>) -> bool {
    &&& id == sa_next_id(w) && sa_next_id(w2) == id + 1
    &&& sa_count(w2) == sa_count(w) + 1 && sa_count(w) < MAX_CONTEXT_RULES
    &&& iget(w2, SmartAccountStorageKey::Count).is_some()
    &&& sa_meta(w2, id).is_some() && sa_meta(w2, id).unwrap().context_type == ct
    &&& sa_signers(w2, id) == signers && sa_policies(w2, id) == policies
    &&& rules_same_except(w, w2, id)
    &&& sa_ids(w2, ct) == sa_ids(w, ct).push(id)
    &&& ids_same_except(w, w2, ct)
}
pub proof fn lemma_insert_inv(w: World, w2: World, id: u32, ct: ContextRuleType, signers: Seq<Signer>, policies: Seq<Address>)
    requires inv_ids(w), inv_rules(w), rule_inserted(w, w2, id, ct, signers, policies),
        limits_ok(signers, policies), signers.no_duplicates(), policies.no_duplicates(),
    ensures inv_ids(w2), inv_rules(w2),
{
    assert(!sa_exists(w, id));
    assert forall|j: u32| j != id implies #[trigger] sa_exists(w2, j) == sa_exists(w, j) by { assert(sa_meta(w2, j) == sa_meta(w, j)); }
    lemma_count_below_change(w, w2, id as int + 1, id);
    assert forall|t: ContextRuleType, i: int| 0 <= i < sa_ids(w2, t).len() implies
        sa_exists(w2, #[trigger] sa_ids(w2, t)[i]) && sa_meta(w2, sa_ids(w2, t)[i]).unwrap().context_type == t by {
        if t == ct && i == sa_ids(w, ct).len() {} else {
            assert(sa_ids(w2, t)[i] == sa_ids(w, t)[i]);
            assert(sa_exists(w, sa_ids(w, t)[i]));
            assert(sa_ids(w, t)[i] != id);
            assert(sa_meta(w2, sa_ids(w, t)[i]) == sa_meta(w, sa_ids(w, t)[i]));
        }
    }
    assert forall|t: ContextRuleType, i: int, j: int| 0 <= i < j < sa_ids(w2, t).len() implies #[trigger] sa_ids(w2, t)[i] < #[trigger] sa_ids(w2, t)[j] by {
        if t == ct && j == sa_ids(w, ct).len() {
            assert(sa_ids(w2, t)[i] == sa_ids(w, t)[i]);
            assert(sa_exists(w, sa_ids(w, t)[i]));
        } else {
            assert(sa_ids(w2, t)[i] == sa_ids(w, t)[i] && sa_ids(w2, t)[j] == sa_ids(w, t)[j]);
        }
    }
    assert forall|j: u32| #[trigger] sa_exists(w2, j) implies sa_ids(w2, sa_meta(w2, j).unwrap().context_type).contains(j) by {
        if j == id { assert(sa_ids(w2, ct)[sa_ids(w, ct).len() as int] == id); }
        else {
            assert(sa_meta(w2, j) == sa_meta(w, j));
            assert(sa_exists(w, j));
            let t = sa_meta(w, j).unwrap().context_type;
            let i = choose|i: int| 0 <= i < sa_ids(w, t).len() && sa_ids(w, t)[i] == j;
            assert(sa_ids(w2, t)[i] == j);
        }
    }
    assert forall|j: u32| #[trigger] sa_exists(w2, j) implies limits_ok(sa_signers(w2, j), sa_policies(w2, j))
        && sa_signers(w2, j).no_duplicates() && sa_policies(w2, j).no_duplicates() by {
        if j != id { assert(sa_meta(w2, j) == sa_meta(w, j)); assert(sa_exists(w, j)); }
    }
}
pub proof fn lemma_add_rule_inv(w: World, ct: ContextRuleType, name: String, vu: Option<u32>, signers: Seq<Signer>, pol: Seq<(Address, Val)>)
    requires inv_ids(w), inv_rules(w), add_rule_guard(w, ct, vu, signers, pol),
    ensures
        //@@ C03+C20:lemma.add_rule.keeps_invariant
        inv_ids(add_rule_post(w, ct, name, vu, signers, pol)) && inv_rules(add_rule_post(w, ct, name, vu, signers, pol)),
        //@@ C03+C20:lemma.add_rule.id_is_fresh_and_next_id_grows
        !sa_exists(w, sa_next_id(w)) && sa_next_id(add_rule_post(w, ct, name, vu, signers, pol)) == sa_next_id(w) + 1,
        //@@ C03+C20:lemma.add_rule.limit_enforced_exactly
        sa_count(w) < MAX_CONTEXT_RULES && sa_count(add_rule_post(w, ct, name, vu, signers, pol)) <= MAX_CONTEXT_RULES,
{
    lemma_add_rule_abs(w, ct, name, vu, signers, pol);
    lemma_insert_inv(w, add_rule_post(w, ct, name, vu, signers, pol), sa_next_id(w), ct, signers, smap_keys(pol));
}

/// abstract effect "replace the definition of stored rule `id`, keeping its type" (fingerprints aside)
pub open spec fn rule_updated(w: World, w2: World, id: u32, signers: Seq<Signer>, policies: Seq<Address>) -> bool {
    &&& sa_exists(w, id) && sa_exists(w2, id)
    &&& sa_meta(w2, id).unwrap().context_type == sa_meta(w, id).unwrap().context_type
    &&& sa_signers(w2, id) == signers && sa_policies(w2, id) == policies
    &&& rules_same_except(w, w2, id)
    &&& forall|t: ContextRuleType| #[trigger] sa_ids(w2, t) == sa_ids(w, t)
    &&& counters_same(w, w2)
}
pub proof fn lemma_update_inv(w: World, w2: World, id: u32, signers: Seq<Signer>, policies: Seq<Address>)
    requires inv_ids(w), inv_rules(w), rule_updated(w, w2, id, signers, policies),
        limits_ok(signers, policies), signers.no_duplicates(), policies.no_duplicates(),
    ensures inv_ids(w2), inv_rules(w2),
{
    assert forall|j: u32| #[trigger] sa_exists(w2, j) == sa_exists(w, j) by { if j != id { assert(sa_meta(w2, j) == sa_meta(w, j)); } }
    lemma_count_below_change(w, w2, sa_next_id(w) as int, id);
    assert forall|t: ContextRuleType, i: int| 0 <= i < sa_ids(w2, t).len() implies
        sa_exists(w2, #[trigger] sa_ids(w2, t)[i]) && sa_meta(w2, sa_ids(w2, t)[i]).unwrap().context_type == t by {
        assert(sa_ids(w2, t)[i] == sa_ids(w, t)[i]);
        assert(sa_exists(w, sa_ids(w, t)[i]));
        if sa_ids(w, t)[i] != id { assert(sa_meta(w2, sa_ids(w, t)[i]) == sa_meta(w, sa_ids(w, t)[i])); }
    }
    assert forall|t: ContextRuleType, i: int, j: int| 0 <= i < j < sa_ids(w2, t).len() implies #[trigger] sa_ids(w2, t)[i] < #[trigger] sa_ids(w2, t)[j] by {
        assert(sa_ids(w2, t)[i] == sa_ids(w, t)[i] && sa_ids(w2, t)[j] == sa_ids(w, t)[j]);
    }
    assert forall|j: u32| #[trigger] sa_exists(w2, j) implies sa_ids(w2, sa_meta(w2, j).unwrap().context_type).contains(j) by {
        assert(sa_exists(w, j));
        if j != id { assert(sa_meta(w2, j) == sa_meta(w, j)); }
        let t = sa_meta(w, j).unwrap().context_type;
        let i = choose|i: int| 0 <= i < sa_ids(w, t).len() && sa_ids(w, t)[i] == j;
        assert(sa_ids(w2, t)[i] == j);
    }
    assert forall|j: u32| #[trigger] sa_exists(w2, j) implies limits_ok(sa_signers(w2, j), sa_policies(w2, j))
        && sa_signers(w2, j).no_duplicates() && sa_policies(w2, j).no_duplicates() by {
        assert(sa_exists(w, j));
        if j != id { assert(sa_meta(w2, j) == sa_meta(w, j)); }
    }
}

/// abstract effect "delete stored rule `id`" (fingerprints aside)
pub open spec fn rule_removed(w: World, w2: World, id: u32) -> bool {
    let ct = sa_meta(w, id).unwrap().context_type;
    &&& sa_exists(w, id) && !sa_exists(w2, id)
    &&& rules_same_except(w, w2, id)
    &&& sa_ids(w2, ct) == sa_ids(w, ct).remove(last_idx(sa_ids(w, ct), id))
    &&& ids_same_except(w, w2, ct)
    &&& sa_next_id(w2) == sa_next_id(w)
    &&& sa_count(w2) == sa_count(w) - 1
    &&& iget(w2, SmartAccountStorageKey::Count).is_some()
}
pub proof fn lemma_seq_remove<T>(s: Seq<T>, p: int)
    requires 0 <= p < s.len(),
    ensures s.remove(p).len() == s.len() - 1,
        forall|k: int| 0 <= k < s.len() - 1 ==> #[trigger] s.remove(p)[k] == s[if k >= p { k + 1 } else { k }],
{}
pub proof fn lemma_remove_inv_lists(w: World, w2: World, id: u32)
    requires inv_ids(w), rule_removed(w, w2, id),
    ensures
        forall|t: ContextRuleType, i: int| 0 <= i < sa_ids(w2, t).len() ==>
            sa_exists(w2, #[trigger] sa_ids(w2, t)[i]) && sa_meta(w2, sa_ids(w2, t)[i]).unwrap().context_type == t,
        forall|t: ContextRuleType, i: int, j: int| 0 <= i < j < sa_ids(w2, t).len() ==> #[trigger] sa_ids(w2, t)[i] < #[trigger] sa_ids(w2, t)[j],
{
    let ct = sa_meta(w, id).unwrap().context_type;
    let ids = sa_ids(w, ct);
    let pos = last_idx(ids, id);
    lemma_last_idx_none(ids, id);
    assert(ids.contains(id));
    lemma_seq_remove(ids, pos);
    assert forall|t: ContextRuleType, i: int| 0 <= i < sa_ids(w2, t).len() implies
        sa_exists(w2, #[trigger] sa_ids(w2, t)[i]) && sa_meta(w2, sa_ids(w2, t)[i]).unwrap().context_type == t by {
        let i0 = if t == ct && i >= pos { i + 1 } else { i };
        if t == ct { assert(sa_ids(w2, t)[i] == ids.remove(pos)[i]); } else { assert(sa_ids(w2, t) == sa_ids(w, t)); }
        let x = sa_ids(w, t)[i0];
        assert(sa_ids(w2, t)[i] == x);
        assert(sa_exists(w, x));
        if t == ct { if i0 < pos { assert(ids[i0] < ids[pos]); } else { assert(ids[pos] < ids[i0]); } }
        assert(x != id);
        assert(sa_meta(w2, x) == sa_meta(w, x));
    }
    assert forall|t: ContextRuleType, i: int, j: int| 0 <= i < j < sa_ids(w2, t).len() implies #[trigger] sa_ids(w2, t)[i] < #[trigger] sa_ids(w2, t)[j] by {
        let i0 = if t == ct && i >= pos { i + 1 } else { i };
        let j0 = if t == ct && j >= pos { j + 1 } else { j };
        if t == ct { assert(sa_ids(w2, t)[i] == ids.remove(pos)[i] && sa_ids(w2, t)[j] == ids.remove(pos)[j]); } else { assert(sa_ids(w2, t) == sa_ids(w, t)); }
        assert(sa_ids(w2, t)[i] == sa_ids(w, t)[i0] && sa_ids(w2, t)[j] == sa_ids(w, t)[j0]);
        assert(sa_ids(w, t)[i0] < sa_ids(w, t)[j0]);
    }
}
pub proof fn lemma_remove_inv_listed(w: World, w2: World, id: u32)
    requires inv_ids(w), rule_removed(w, w2, id),
    ensures forall|j: u32| #[trigger] sa_exists(w2, j) ==> sa_ids(w2, sa_meta(w2, j).unwrap().context_type).contains(j),
{
    let ct = sa_meta(w, id).unwrap().context_type;
    let ids = sa_ids(w, ct);
    let pos = last_idx(ids, id);
    lemma_last_idx_none(ids, id);
    assert(ids.contains(id));
    lemma_seq_remove(ids, pos);
    assert forall|j: u32| #[trigger] sa_exists(w2, j) implies sa_ids(w2, sa_meta(w2, j).unwrap().context_type).contains(j) by {
        assert(j != id);
        assert(sa_meta(w2, j) == sa_meta(w, j));
        assert(sa_exists(w, j));
        let t = sa_meta(w, j).unwrap().context_type;
        assert(sa_ids(w, t).contains(j));
        let i = choose|i: int| 0 <= i < sa_ids(w, t).len() && sa_ids(w, t)[i] == j;
        if t == ct {
            assert(i != pos);
            if i < pos { assert(ids.remove(pos)[i] == j); } else { assert(ids.remove(pos)[i - 1] == j); }
        } else { assert(sa_ids(w2, t) == sa_ids(w, t)); assert(sa_ids(w2, t)[i] == j); }
    }
}
pub proof fn lemma_remove_inv(w: World, w2: World, id: u32)
    requires inv_ids(w), inv_rules(w), rule_removed(w, w2, id),
    ensures inv_ids(w2), inv_rules(w2),
{
    lemma_remove_inv_lists(w, w2, id);
    lemma_remove_inv_listed(w, w2, id);
    assert forall|j: u32| j != id implies #[trigger] sa_exists(w2, j) == sa_exists(w, j) by { assert(sa_meta(w2, j) == sa_meta(w, j)); }
    assert(id < sa_next_id(w));
    lemma_count_below_change(w, w2, sa_next_id(w) as int, id);
    assert forall|j: u32| #[trigger] sa_exists(w2, j) implies limits_ok(sa_signers(w2, j), sa_policies(w2, j))
        && sa_signers(w2, j).no_duplicates() && sa_policies(w2, j).no_duplicates() by {
        assert(j != id);
        assert(sa_meta(w2, j) == sa_meta(w, j)); assert(sa_exists(w, j));
    }
}

// ---- the concrete edits are these abstract operations ----
pub open spec fn fp_swapped(w: World, w2: World, old_fp: Seq<u8>, new_fp: Seq<u8>) -> bool {
    forall|h: BytesN<32>| #[trigger] fp_has(w2, h) == ((h@ == new_fp && new_fp != old_fp) || (fp_has(w, h) && h@ != old_fp))
}
pub open spec fn fp_same(w: World, w2: World) -> bool { forall|h: BytesN<32>| #[trigger] fp_has(w2, h) == fp_has(w, h) }

pub proof fn lemma_bytesn_ext(h: BytesN<32>, x: Seq<u8>)
    ensures (h@ == x) <==> (h == BytesN::<32> { s: Ghost(x) }),
{}
/// the fingerprint entries after "set new, delete old"
pub proof fn lemma_fp_swap(w: World, w2: World, ct: ContextRuleType, s0: Seq<Signer>, p0: Seq<Address>, s1: Seq<Signer>, p1: Seq<Address>)
    requires forall|h: BytesN<32>| #[trigger] fp_has(w2, h) == fp_has(swap_fp_post(w, ct, s0, p0, s1, p1), h),
    ensures fp_swapped(w, w2, fp_spec(ct, s0, p0), fp_spec(ct, s1, p1)),
{
    broadcast use sdk_store;
    assert forall|h: BytesN<32>| #[trigger] fp_has(w2, h) == ((h@ == fp_spec(ct, s1, p1) && fp_spec(ct, s1, p1) != fp_spec(ct, s0, p0)) || (fp_has(w, h) && h@ != fp_spec(ct, s0, p0))) by {
        lemma_bytesn_ext(h, fp_spec(ct, s1, p1));
        lemma_bytesn_ext(h, fp_spec(ct, s0, p0));
        assert(fp_has(w2, h) == fp_has(swap_fp_post(w, ct, s0, p0, s1, p1), h));
    }
}
pub proof fn lemma_upd_meta(w: World, id: u32, name: String, vu: Option<u32>)
    requires inv_ids(w), inv_rules(w), sa_exists(w, id),
    ensures ({
        let w2 = upd_meta_post(w, id, name, vu);
        //@@ C03+C20:lemma.update_meta.is_map_update
        &&& sa_meta(w2, id) == Some(Meta { name: name, context_type: sa_meta(w, id).unwrap().context_type, valid_until: vu })
        &&& rule_updated(w, w2, id, sa_signers(w, id), sa_policies(w, id))
        &&& fp_same(w, w2)
        //@@ C03+C20:lemma.update_meta.keeps_invariant
        &&& inv_ids(w2) && inv_rules(w2)
    }),
{
    broadcast use sdk_store;
    let w2 = upd_meta_post(w, id, name, vu);
    assert(rule_updated(w, w2, id, sa_signers(w, id), sa_policies(w, id)));
    lemma_update_inv(w, w2, id, sa_signers(w, id), sa_policies(w, id));
}
pub proof fn lemma_add_signer(w: World, id: u32, signer: Signer)
    requires inv_ids(w), inv_rules(w), add_signer_guard(w, id, signer),
    ensures ({
        let w2 = add_signer_post(w, id, signer);
        let r = sa_rule(w, id);
        //@@ C03+C20:lemma.add_signer.is_set_insert
        &&& !sa_signers(w, id).contains(signer) && sa_signers(w2, id) == sa_signers(w, id).push(signer)
        &&& sa_meta(w2, id) == sa_meta(w, id)
        &&& rule_updated(w, w2, id, sa_signers(w, id).push(signer), sa_policies(w, id))
        &&& fp_swapped(w, w2, fp_spec(r.context_type, r.signers@, r.policies@), fp_spec(r.context_type, r.signers@.push(signer), r.policies@))
        //@@ C03+C20:lemma.add_signer.keeps_invariant_and_limit
        &&& inv_ids(w2) && inv_rules(w2) && sa_signers(w2, id).len() <= MAX_SIGNERS
    }),
{
    broadcast use sdk_store;
    let w2 = add_signer_post(w, id, signer);
    let s1 = sa_signers(w, id).push(signer);
    assert(sa_signers(w2, id) =~= s1);
    assert(rule_updated(w, w2, id, s1, sa_policies(w, id)));
    lemma_update_inv(w, w2, id, s1, sa_policies(w, id));
    let r = sa_rule(w, id);
    lemma_fp_swap(w, w2, r.context_type, r.signers@, r.policies@, s1, r.policies@);
}
pub proof fn lemma_remove_signer(w: World, id: u32, signer: Signer)
    requires inv_ids(w), inv_rules(w), remove_signer_guard(w, id, signer),
    ensures ({
        let w2 = remove_signer_post(w, id, signer);
        let r = sa_rule(w, id);
        let s1 = sa_signers(w, id).remove(last_idx(sa_signers(w, id), signer));
        //@@ C03+C20:lemma.remove_signer.is_set_remove
        &&& sa_signers(w, id).contains(signer) && sa_signers(w2, id) == s1 && !s1.contains(signer)
        &&& forall|x: Signer| x != signer ==> (s1.contains(x) <==> sa_signers(w, id).contains(x))
        &&& sa_meta(w2, id) == sa_meta(w, id)
        &&& rule_updated(w, w2, id, s1, sa_policies(w, id))
        &&& fp_swapped(w, w2, fp_spec(r.context_type, r.signers@, r.policies@), fp_spec(r.context_type, s1, r.policies@))
        //@@ C03+C20:lemma.remove_signer.keeps_invariant
        &&& inv_ids(w2) && inv_rules(w2)
    }),
{
    broadcast use sdk_store;
    let w2 = remove_signer_post(w, id, signer);
    let s0 = sa_signers(w, id);
    let s1 = s0.remove(last_idx(s0, signer));
    lemma_remove_no_dup(s0, signer);
    assert(sa_signers(w2, id) =~= s1);
    assert(rule_updated(w, w2, id, s1, sa_policies(w, id)));
    lemma_update_inv(w, w2, id, s1, sa_policies(w, id));
    let r = sa_rule(w, id);
    lemma_fp_swap(w, w2, r.context_type, r.signers@, r.policies@, s1, r.policies@);
}
pub proof fn lemma_add_policy(w: World, id: u32, policy: Address, param: Val)
    requires inv_ids(w), inv_rules(w), add_policy_guard(w, id, policy),
    ensures ({
        let w2 = add_policy_post(w, id, policy, param);
        let r = sa_rule(w, id);
        //@@ C03+C20:lemma.add_policy.is_set_insert
        &&& !sa_policies(w, id).contains(policy) && sa_policies(w2, id) == sa_policies(w, id).push(policy)
        &&& sa_meta(w2, id) == sa_meta(w, id)
        &&& rule_updated(w, w2, id, sa_signers(w, id), sa_policies(w, id).push(policy))
        &&& fp_swapped(w, w2, fp_spec(r.context_type, r.signers@, r.policies@), fp_spec(r.context_type, r.signers@, r.policies@.push(policy)))
        //@@ C03+C20:lemma.add_policy.keeps_invariant_and_limit
        &&& inv_ids(w2) && inv_rules(w2) && sa_policies(w2, id).len() <= MAX_POLICIES
    }),
{
    broadcast use sdk_store;
    let w2 = add_policy_post(w, id, policy, param);
    let p1 = sa_policies(w, id).push(policy);
    assert(sa_policies(w2, id) =~= p1);
    assert(rule_updated(w, w2, id, sa_signers(w, id), p1));
    lemma_update_inv(w, w2, id, sa_signers(w, id), p1);
    let r = sa_rule(w, id);
    lemma_fp_swap(w, w2, r.context_type, r.signers@, r.policies@, r.signers@, p1);
}
pub proof fn lemma_remove_policy(w: World, id: u32, policy: Address, ok: bool)
    requires inv_ids(w), inv_rules(w), remove_policy_guard(w, id, policy),
    ensures ({
        let w2 = remove_policy_post(w, id, policy, ok);
        let r = sa_rule(w, id);
        let p1 = sa_policies(w, id).remove(last_idx(sa_policies(w, id), policy));
        //@@ C03+C20:lemma.remove_policy.is_set_remove
        &&& sa_policies(w, id).contains(policy) && sa_policies(w2, id) == p1 && !p1.contains(policy)
        &&& forall|x: Address| x != policy ==> (p1.contains(x) <==> sa_policies(w, id).contains(x))
        &&& sa_meta(w2, id) == sa_meta(w, id)
        &&& rule_updated(w, w2, id, sa_signers(w, id), p1)
        &&& fp_swapped(w, w2, fp_spec(r.context_type, r.signers@, r.policies@), fp_spec(r.context_type, r.signers@, p1))
        //@@ C03+C20:lemma.remove_policy.keeps_invariant
        &&& inv_ids(w2) && inv_rules(w2)
    }),
{
    broadcast use sdk_store;
    let w2 = remove_policy_post(w, id, policy, ok);
    let p0 = sa_policies(w, id);
    let p1 = p0.remove(last_idx(p0, policy));
    lemma_remove_no_dup(p0, policy);
    assert(sa_policies(w2, id) =~= p1);
    assert(rule_updated(w, w2, id, sa_signers(w, id), p1));
    lemma_update_inv(w, w2, id, sa_signers(w, id), p1);
    let r = sa_rule(w, id);
    lemma_fp_swap(w, w2, r.context_type, r.signers@, r.policies@, r.signers@, p1);
}
pub proof fn lemma_remove_rule_abs(w: World, id: u32, fin: Seq<Call>)
    requires remove_rule_guard(w, id), last_idx(sa_ids(w, sa_meta(w, id).unwrap().context_type), id) >= 0,
    ensures rule_removed(w, remove_rule_post(w, id, fin), id),
{
    broadcast use sdk_store;
    let w2 = remove_rule_post(w, id, fin);
    let ct = sa_meta(w, id).unwrap().context_type;
    let ids = sa_ids(w, ct);
    assert(sa_ids(w2, ct) =~= ids.remove(last_idx(ids, id)));
    assert(!sa_exists(w2, id));
    assert(rules_same_except(w, w2, id));
    assert(ids_same_except(w, w2, ct));
    let v = ((sa_count(w) - 1) as u32).sv();
    assert(w2.instance == iset(w, SmartAccountStorageKey::Count, v).instance);
    assert(iget(w2, SmartAccountStorageKey::NextId) == iget(iset(w, SmartAccountStorageKey::Count, v), SmartAccountStorageKey::NextId));
    assert(iget(w2, SmartAccountStorageKey::Count) == iget(iset(w, SmartAccountStorageKey::Count, v), SmartAccountStorageKey::Count));
    assert(sa_next_id(w2) == sa_next_id(w));
    assert(sa_count(w2) == sa_count(w) - 1);
}
pub proof fn lemma_remove_rule(w: World, id: u32, fin: Seq<Call>)
    requires inv_ids(w), inv_rules(w), remove_rule_guard(w, id),
    ensures ({
        let w2 = remove_rule_post(w, id, fin);
        //@@ C03+C20:lemma.remove_rule.is_map_remove
        &&& rule_removed(w, w2, id)
        &&& !sa_ids(w2, sa_meta(w, id).unwrap().context_type).contains(id)
        //@@ C03+C20:lemma.remove_rule.id_not_reused
        &&& sa_next_id(w2) == sa_next_id(w) && id < sa_next_id(w2)
        //@@ C03+C20:lemma.remove_rule.keeps_invariant
        &&& inv_ids(w2) && inv_rules(w2)
    }),
{
    let w2 = remove_rule_post(w, id, fin);
    let ct = sa_meta(w, id).unwrap().context_type;
    let ids = sa_ids(w, ct);
    lemma_last_idx_none(ids, id);
    assert(ids.contains(id));
    lemma_remove_rule_abs(w, id, fin);
    lemma_remove_inv(w, w2, id);
    assert(!sa_ids(w2, ct).contains(id)) by {
        if sa_ids(w2, ct).contains(id) {
            let i = choose|i: int| 0 <= i < sa_ids(w2, ct).len() && sa_ids(w2, ct)[i] == id;
            assert(sa_exists(w2, sa_ids(w2, ct)[i]));
        }
    }
}

// ---- histories: the invariant holds after any sequence of registry edits, NextId never decreases ----
pub enum RegOp {
    AddRule { ct: ContextRuleType, name: String, vu: Option<u32>, signers: Seq<Signer>, pol: Seq<(Address, Val)> },
    UpdateName { id: u32, name: String },
    UpdateValidUntil { id: u32, vu: Option<u32> },
    RemoveRule { id: u32, fin: Seq<Call> },
    AddSigner { id: u32, signer: Signer },
    RemoveSigner { id: u32, signer: Signer },
    AddPolicy { id: u32, policy: Address, param: Val },
    RemovePolicy { id: u32, policy: Address, ok: bool },
}
/// what must have held for the edit to return (contracts `*.guard` of the extracted functions)
pub open spec fn op_guard(w: World, op: RegOp) -> bool {
    match op {
        RegOp::AddRule { ct, name, vu, signers, pol } => add_rule_guard(w, ct, vu, signers, pol),
        RegOp::UpdateName { id, name } => sa_exists(w, id),
        RegOp::UpdateValidUntil { id, vu } => upd_valid_guard(w, id, vu),
        RegOp::RemoveRule { id, fin } => remove_rule_guard(w, id),
        RegOp::AddSigner { id, signer } => add_signer_guard(w, id, signer),
        RegOp::RemoveSigner { id, signer } => remove_signer_guard(w, id, signer),
        RegOp::AddPolicy { id, policy, param } => add_policy_guard(w, id, policy),
        RegOp::RemovePolicy { id, policy, ok } => remove_policy_guard(w, id, policy),
    }
}
/// the successor state (contracts `*.exact`), up to the opaque state of other contracts
pub open spec fn op_post(w: World, op: RegOp) -> World {
    match op {
        RegOp::AddRule { ct, name, vu, signers, pol } => add_rule_post(w, ct, name, vu, signers, pol),
        RegOp::UpdateName { id, name } => upd_name_post(w, id, name),
        RegOp::UpdateValidUntil { id, vu } => upd_valid_post(w, id, vu),
        RegOp::RemoveRule { id, fin } => remove_rule_post(w, id, fin),
        RegOp::AddSigner { id, signer } => add_signer_post(w, id, signer),
        RegOp::RemoveSigner { id, signer } => remove_signer_post(w, id, signer),
        RegOp::AddPolicy { id, policy, param } => add_policy_post(w, id, policy, param),
        RegOp::RemovePolicy { id, policy, ok } => remove_policy_post(w, id, policy, ok),
    }
}
pub open spec fn reg_step(w: World, w2: World, op: RegOp) -> bool { op_guard(w, op) && eq_but_ext(w2, op_post(w, op)) }
/// tr[0] --ops[0]--> tr[1] --ops[1]--> ... (other entry points of the account do not write the registry keys)
pub open spec fn reg_history(tr: Seq<World>, ops: Seq<RegOp>) -> bool {
    tr.len() == ops.len() + 1 && forall|i: int| 0 <= i < ops.len() ==> reg_step(#[trigger] tr[i], tr[i + 1], ops[i])
}
pub proof fn lemma_count_below_frame(w: World, w2: World, n: int)
    requires w2.persistent == w.persistent,
    ensures count_below(w2, n) == count_below(w, n),
    decreases n
{
    if n > 0 { lemma_count_below_frame(w, w2, n - 1); }
}
pub proof fn lemma_inv_frame(w: World, w2: World)
    requires w2.persistent == w.persistent, w2.instance == w.instance, inv_ids(w), inv_rules(w),
    ensures inv_ids(w2), inv_rules(w2),
{
    lemma_count_below_frame(w, w2, sa_next_id(w) as int);
    assert forall|t: ContextRuleType| #[trigger] sa_ids(w2, t) == sa_ids(w, t) by {}
    assert forall|id: u32| #[trigger] sa_exists(w2, id) == sa_exists(w, id) by {}
}
pub proof fn lemma_reg_step(w: World, w2: World, op: RegOp)
    requires inv_ids(w), inv_rules(w), reg_step(w, w2, op),
    ensures
        //@@ C03+C20:lemma.step.keeps_invariant
        inv_ids(w2) && inv_rules(w2),
        //@@ C03+C20:lemma.step.next_id_monotone
        sa_next_id(w) <= sa_next_id(w2),
        //@@ C03+C20:lemma.step.stored_ids_stay_below_next_id
        forall|id: u32| #[trigger] sa_exists(w2, id) ==> id < sa_next_id(w2),
{
    let p = op_post(w, op);
    match op {
        RegOp::AddRule { ct, name, vu, signers, pol } => { lemma_add_rule_inv(w, ct, name, vu, signers, pol); }
        RegOp::UpdateName { id, name } => { lemma_upd_meta(w, id, name, sa_meta(w, id).unwrap().valid_until); }
        RegOp::UpdateValidUntil { id, vu } => { lemma_upd_meta(w, id, sa_meta(w, id).unwrap().name, vu); }
        RegOp::RemoveRule { id, fin } => { lemma_remove_rule(w, id, fin); }
        RegOp::AddSigner { id, signer } => { lemma_add_signer(w, id, signer); }
        RegOp::RemoveSigner { id, signer } => { lemma_remove_signer(w, id, signer); }
        RegOp::AddPolicy { id, policy, param } => { lemma_add_policy(w, id, policy, param); }
        RegOp::RemovePolicy { id, policy, ok } => { lemma_remove_policy(w, id, policy, ok); }
    }
    assert(sa_next_id(w) <= sa_next_id(p));
    lemma_inv_frame(p, w2);
    assert(sa_next_id(w2) == sa_next_id(p));
}
pub proof fn lemma_reg_history(tr: Seq<World>, ops: Seq<RegOp>, i: int)
    requires reg_history(tr, ops), inv_ids(tr[0]), inv_rules(tr[0]), 0 <= i <= ops.len(),
    ensures
        //@@ C03+C20:lemma.history.invariant_after_any_edit_sequence
        inv_ids(tr[i]) && inv_rules(tr[i]),
        //@@ C03+C20:lemma.history.ids_never_reused
        sa_next_id(tr[0]) <= sa_next_id(tr[i]),
    decreases i
{
    if i > 0 {
        lemma_reg_history(tr, ops, i - 1);
        lemma_reg_step(tr[i - 1], tr[i], ops[i - 1]);
    }
}
/// the invariant is satisfiable: a freshly deployed account (empty stores) has it
pub proof fn lemma_inv_empty(w: World)
    requires w.persistent == Map::<SV, SV>::empty(), w.instance == Map::<SV, SV>::empty(),
    ensures
        //@@ C03+C20:lemma.invariant_witness
        sa_inv(w),
{
    assert forall|t: ContextRuleType| #[trigger] sa_ids(w, t) == Seq::<u32>::empty() by {}
    assert(sa_next_id(w) == 0 && sa_count(w) == 0);
    assert(count_below(w, 0) == 0);
}
