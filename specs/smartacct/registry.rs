// ================================================================================================
// C20 (context-rule registry part): fingerprints, exact successor states of every registry edit.
// ================================================================================================

// ---- fingerprint = sha256( xdr(type) ++ xdr(sorted signers) ++ xdr(sorted policies) ) ----
/// the vector the insertion loop of `compute_fingerprint` builds (binary search + insert at the reported position)
pub open spec fn ins_sorted<T>(s: Seq<T>) -> Seq<T>
    decreases s.len()
{
    if s.len() == 0 { Seq::empty() } else {
        let r = ins_sorted(s.drop_last());
        match bs_spec(r, s.last()) { Err(p) => r.insert(p as int, s.last()), Ok(_) => r }
    }
}
pub open spec fn fp_spec(ct: ContextRuleType, signers: Seq<Signer>, policies: Seq<Address>) -> Seq<u8> {
    sha256_spec(xdr_spec(ct.sv()) + xdr_spec(seq_sv(ins_sorted(signers))) + xdr_spec(seq_sv(ins_sorted(policies))))
}
/// `r` is the strictly sorted arrangement of the (pairwise distinct) elements of `s`
pub open spec fn sorted_of<T: ToSV>(r: Seq<T>, s: Seq<T>) -> bool {
    &&& host_sorted(r)
    &&& r.len() == s.len()
    &&& forall|x: T| r.contains(x) <==> s.contains(x)
    &&& s.no_duplicates()
}
pub proof fn lemma_sorted_insert<T: ToSV>(r: Seq<T>, s: Seq<T>, x: T, p: int)
    requires
        sorted_of(r, s), !r.contains(x), 0 <= p <= r.len(),
        forall|i: int| 0 <= i < p ==> host_lt(#[trigger] r[i].sv(), x.sv()),
        forall|i: int| p <= i < r.len() ==> host_lt(x.sv(), #[trigger] r[i].sv()),
    ensures sorted_of(r.insert(p, x), s.push(x)),
{
    let r2 = r.insert(p, x);
    let s2 = s.push(x);
    assert forall|i: int, j: int| 0 <= i < j < r2.len() implies host_lt(#[trigger] r2[i].sv(), #[trigger] r2[j].sv()) by {
        if j < p { assert(r2[i] == r[i] && r2[j] == r[j]); }
        else if j == p { assert(r2[i] == r[i]); }
        else if i < p { assert(r2[i] == r[i] && r2[j] == r[j - 1]); }
        else if i == p { assert(r2[j] == r[j - 1]); }
        else { assert(r2[i] == r[i - 1] && r2[j] == r[j - 1]); }
    }
    assert forall|y: T| r2.contains(y) <==> s2.contains(y) by {
        if r2.contains(y) {
            let k = choose|k: int| 0 <= k < r2.len() && r2[k] == y;
            if k == p { assert(s2[s.len() as int] == y); }
            else {
                let k0 = if k < p { k } else { k - 1 };
                assert(r[k0] == y); assert(r.contains(y)); assert(s.contains(y));
                let q = choose|q: int| 0 <= q < s.len() && s[q] == y; assert(s2[q] == y);
            }
        }
        if s2.contains(y) {
            let q = choose|q: int| 0 <= q < s2.len() && s2[q] == y;
            if q == s.len() { assert(r2[p] == y); }
            else {
                assert(s[q] == y); assert(s.contains(y)); assert(r.contains(y));
                let k = choose|k: int| 0 <= k < r.len() && r[k] == y;
                if k < p { assert(r2[k] == y); } else { assert(r2[k + 1] == y); }
            }
        }
    }
    assert(!s.contains(x));
    assert forall|i: int, j: int| 0 <= i < s2.len() && 0 <= j < s2.len() && i != j implies s2[i] != s2[j] by {
        if i < s.len() && j < s.len() { assert(s[i] != s[j]); }
        else if i < s.len() { assert(s.contains(s[i])); }
        else { assert(s.contains(s[j])); }
    }
}

// ---- exact successor states of the registry edits ----
pub open spec fn fp_key(ct: ContextRuleType, signers: Seq<Signer>, policies: Seq<Address>) -> SmartAccountStorageKey {
    SmartAccountStorageKey::Fingerprint(BytesN { s: Ghost(fp_spec(ct, signers, policies)) })
}
pub open spec fn w_call(w: World, c: Call) -> World { World { calls: w.calls.push(c), ..w } }
/// equal up to the opaque state of other contracts
pub open spec fn eq_but_ext(w2: World, w: World) -> bool { w2 =~~= (World { ext: w2.ext, ..w }) }

pub open spec fn limits_ok(signers: Seq<Signer>, policies: Seq<Address>) -> bool {
    signers.len() <= MAX_SIGNERS && policies.len() <= MAX_POLICIES && !(signers.len() == 0 && policies.len() == 0)
}
pub open spec fn set_fp_guard(w: World, ct: ContextRuleType, signers: Seq<Signer>, policies: Seq<Address>) -> bool {
    signers.no_duplicates() && policies.no_duplicates() && pget(w, fp_key(ct, signers, policies)).is_none()
}
pub open spec fn set_fp_post(w: World, ct: ContextRuleType, signers: Seq<Signer>, policies: Seq<Address>) -> World {
    pset(w, fp_key(ct, signers, policies), true.sv())
}
pub open spec fn del_fp_post(w: World, ct: ContextRuleType, signers: Seq<Signer>, policies: Seq<Address>) -> World {
    pdel(w, fp_key(ct, signers, policies))
}
/// replace the fingerprint of (ct, s0, p0) by that of (ct, s1, p1): set the new one (must be fresh), then delete the old one
pub open spec fn swap_fp_guard(w: World, ct: ContextRuleType, s0: Seq<Signer>, p0: Seq<Address>, s1: Seq<Signer>, p1: Seq<Address>) -> bool {
    set_fp_guard(w, ct, s1, p1) && s0.no_duplicates() && p0.no_duplicates()
}
pub open spec fn swap_fp_post(w: World, ct: ContextRuleType, s0: Seq<Signer>, p0: Seq<Address>, s1: Seq<Signer>, p1: Seq<Address>) -> World {
    del_fp_post(set_fp_post(w, ct, s1, p1), ct, s0, p0)
}

// update name / valid_until
pub open spec fn upd_meta_post(w: World, id: u32, name: String, valid_until: Option<u32>) -> World {
    let ct = sa_meta(w, id).unwrap().context_type;
    w_event(pset(w, SmartAccountStorageKey::Meta(id), Meta { name: name, context_type: ct, valid_until: valid_until }.sv()),
        ContextRuleUpdated { context_rule_id: id, name: name, context_type: ct, valid_until: valid_until }.ev())
}
pub open spec fn upd_name_post(w: World, id: u32, name: String) -> World { upd_meta_post(w, id, name, sa_meta(w, id).unwrap().valid_until) }
pub open spec fn upd_valid_guard(w: World, id: u32, valid_until: Option<u32>) -> bool {
    sa_exists(w, id) && match valid_until { Some(v) => !(v < w.ledger_seq), None => true }
}
pub open spec fn upd_valid_post(w: World, id: u32, valid_until: Option<u32>) -> World { upd_meta_post(w, id, sa_meta(w, id).unwrap().name, valid_until) }

// signers
pub open spec fn add_signer_guard(w: World, id: u32, signer: Signer) -> bool {
    let r = sa_rule(w, id);
    &&& sa_exists(w, id)
    &&& !r.signers@.contains(signer)
    &&& limits_ok(r.signers@.push(signer), r.policies@)
    &&& swap_fp_guard(w, r.context_type, r.signers@, r.policies@, r.signers@.push(signer), r.policies@)
}
pub open spec fn add_signer_post(w: World, id: u32, signer: Signer) -> World {
    let r = sa_rule(w, id);
    let s1 = r.signers@.push(signer);
    w_event(pset(swap_fp_post(w, r.context_type, r.signers@, r.policies@, s1, r.policies@), SmartAccountStorageKey::Signers(id), vec_of(s1).sv()),
        SignerAdded { context_rule_id: id, signer: signer }.ev())
}
/// index of the LAST occurrence of x in s, or -1
pub open spec fn last_idx<T>(s: Seq<T>, x: T) -> int
    decreases s.len()
{
    if s.len() == 0 { -1 } else if s.last() == x { s.len() - 1 } else { last_idx(s.drop_last(), x) }
}
pub proof fn lemma_last_idx<T>(s: Seq<T>, x: T, p: int)
    requires 0 <= p < s.len(), s[p] == x, forall|j: int| p < j < s.len() ==> s[j] != x,
    ensures last_idx(s, x) == p,
    decreases s.len()
{
    if s.last() != x { lemma_last_idx(s.drop_last(), x, p); }
}
pub proof fn lemma_last_idx_none<T>(s: Seq<T>, x: T)
    ensures last_idx(s, x) < 0 <==> !s.contains(x), last_idx(s, x) >= 0 ==> last_idx(s, x) < s.len() && s[last_idx(s, x)] == x,
    decreases s.len()
{
    if s.len() > 0 {
        lemma_last_idx_none(s.drop_last(), x);
        if s.last() == x { assert(s[s.len() - 1] == x); }
        else if s.drop_last().contains(x) { let j = choose|j: int| 0 <= j < s.drop_last().len() && s.drop_last()[j] == x; assert(s[j] == x); }
        else if s.contains(x) { let j = choose|j: int| 0 <= j < s.len() && s[j] == x; assert(s.drop_last()[j] == x); }
    }
}
pub open spec fn remove_signer_guard(w: World, id: u32, signer: Signer) -> bool {
    let r = sa_rule(w, id);
    let s1 = r.signers@.remove(last_idx(r.signers@, signer));
    &&& sa_exists(w, id)
    &&& r.signers@.contains(signer)
    &&& limits_ok(s1, r.policies@)
    &&& swap_fp_guard(w, r.context_type, r.signers@, r.policies@, s1, r.policies@)
}
pub open spec fn remove_signer_post(w: World, id: u32, signer: Signer) -> World {
    let r = sa_rule(w, id);
    let s1 = r.signers@.remove(last_idx(r.signers@, signer));
    w_event(pset(swap_fp_post(w, r.context_type, r.signers@, r.policies@, s1, r.policies@), SmartAccountStorageKey::Signers(id), vec_of(s1).sv()),
        SignerRemoved { context_rule_id: id, signer: signer }.ev())
}

// policies
pub open spec fn install_call(this: Address, p: Address, param: Val, rule: ContextRule) -> Call {
    Call { callee: p, func: fn_install(), args: seq![param.sv(), rule.sv(), this.sv()], ret: SV::Void, ok: true }
}
pub open spec fn uninstall_call(this: Address, p: Address, rule: ContextRule, ok: bool) -> Call {
    Call { callee: p, func: fn_uninstall(), args: seq![rule.sv(), this.sv()], ret: SV::Void, ok: ok }
}
pub open spec fn add_policy_guard(w: World, id: u32, policy: Address) -> bool {
    let r = sa_rule(w, id);
    &&& sa_exists(w, id)
    &&& !r.policies@.contains(policy)
    &&& limits_ok(r.signers@, r.policies@.push(policy))
    &&& swap_fp_guard(w, r.context_type, r.signers@, r.policies@, r.signers@, r.policies@.push(policy))
}
pub open spec fn add_policy_post(w: World, id: u32, policy: Address, param: Val) -> World {
    let r = sa_rule(w, id);
    let p1 = r.policies@.push(policy);
    let w1 = w_call(w, install_call(w.this, policy, param, r));
    w_event(pset(swap_fp_post(w1, r.context_type, r.signers@, r.policies@, r.signers@, p1), SmartAccountStorageKey::Policies(id), vec_of(p1).sv()),
        PolicyAdded { context_rule_id: id, policy: policy, install_param: param }.ev())
}
pub open spec fn remove_policy_guard(w: World, id: u32, policy: Address) -> bool {
    let r = sa_rule(w, id);
    let p1 = r.policies@.remove(last_idx(r.policies@, policy));
    &&& sa_exists(w, id)
    &&& r.policies@.contains(policy)
    &&& limits_ok(r.signers@, p1)
    &&& swap_fp_guard(w, r.context_type, r.signers@, r.policies@, r.signers@, p1)
}
/// `uninstall_ok`: whether the policy's `uninstall` hook returned normally (a failing hook does not block the removal)
pub open spec fn remove_policy_post(w: World, id: u32, policy: Address, uninstall_ok: bool) -> World {
    let r = sa_rule(w, id);
    let p1 = r.policies@.remove(last_idx(r.policies@, policy));
    let w1 = swap_fp_post(w, r.context_type, r.signers@, r.policies@, r.signers@, p1);
    let w2 = w_call(w1, uninstall_call(w.this, policy, r, uninstall_ok));
    w_event(pset(w2, SmartAccountStorageKey::Policies(id), vec_of(p1).sv()), PolicyRemoved { context_rule_id: id, policy: policy }.ev())
}

// add / remove a rule
pub open spec fn install_calls(this: Address, rule: ContextRule, entries: Seq<(Address, Val)>) -> Seq<Call> {
    Seq::new(entries.len(), |i: int| install_call(this, entries[i].0, entries[i].1, rule))
}
pub open spec fn add_rule_guard(w: World, ct: ContextRuleType, valid_until: Option<u32>, signers: Seq<Signer>, pol: Seq<(Address, Val)>) -> bool {
    &&& sa_count(w) < MAX_CONTEXT_RULES
    &&& signers.no_duplicates()
    &&& match valid_until { Some(v) => !(v < w.ledger_seq), None => true }
    &&& limits_ok(signers, smap_keys(pol))
    &&& set_fp_guard(w, ct, signers, smap_keys(pol))
    &&& sa_next_id(w) + 1 <= u32::MAX
}
pub open spec fn add_rule_result(w: World, ct: ContextRuleType, name: String, valid_until: Option<u32>, signers: Seq<Signer>, pol: Seq<(Address, Val)>) -> ContextRule {
    ContextRule { id: sa_next_id(w), context_type: ct, name: name, signers: vec_of(signers), policies: vec_of(smap_keys(pol)), valid_until: valid_until }
}
pub open spec fn add_rule_store(w: World, ct: ContextRuleType, name: String, valid_until: Option<u32>, signers: Seq<Signer>, pol: Seq<(Address, Val)>) -> World {
    let id = sa_next_id(w);
    let w1 = set_fp_post(w, ct, signers, smap_keys(pol));
    let w2 = pset(w1, SmartAccountStorageKey::Meta(id), Meta { name: name, context_type: ct, valid_until: valid_until }.sv());
    let w3 = pset(w2, SmartAccountStorageKey::Signers(id), vec_of(signers).sv());
    let w4 = pset(w3, SmartAccountStorageKey::Policies(id), vec_of(smap_keys(pol)).sv());
    pset(w4, SmartAccountStorageKey::Ids(ct), vec_of(sa_ids(w, ct).push(id)).sv())
}
pub open spec fn add_rule_post(w: World, ct: ContextRuleType, name: String, valid_until: Option<u32>, signers: Seq<Signer>, pol: Seq<(Address, Val)>) -> World {
    let id = sa_next_id(w);
    let rule = add_rule_result(w, ct, name, valid_until, signers, pol);
    let w5 = add_rule_store(w, ct, name, valid_until, signers, pol);
    let w6 = World { calls: w5.calls + install_calls(w.this, rule, pol), ..w5 };
    let w7 = w_event(w6, ContextRuleAdded { context_rule_id: id, name: name, context_type: ct, valid_until: valid_until,
        signers: vec_of(signers), policies: vec_of(smap_keys(pol)) }.ev());
    iset(iset(w7, SmartAccountStorageKey::NextId, ((id + 1) as u32).sv()), SmartAccountStorageKey::Count, ((sa_count(w) + 1) as u32).sv())
}
pub proof fn lemma_install_step(w5: World, w1: World, w2: World, rule: ContextRule, pol: Seq<(Address, Val)>, i: int)
    requires 0 <= i < pol.len(),
        w1 == (World { calls: w5.calls + install_calls(w5.this, rule, pol.take(i)), ext: w1.ext, ..w5 }),
        xcall_post(w1, w2, pol[i].0, fn_install(), seq![pol[i].1.sv(), rule.sv(), w5.this.sv()], SV::Void),
    ensures w2 == (World { calls: w5.calls + install_calls(w5.this, rule, pol.take(i + 1)), ext: w2.ext, ..w5 }),
{
    assert(w2.calls =~= w5.calls + install_calls(w5.this, rule, pol.take(i + 1)));
}

pub open spec fn uninstall_log(fin: Seq<Call>, base: int, this: Address, rule: ContextRule, n: int) -> Seq<Call> {
    Seq::new(n as nat, |i: int| uninstall_call(this, rule.policies@[i], rule, fin[base + i].ok))
}
pub open spec fn remove_rule_guard(w: World, id: u32) -> bool {
    &&& sa_exists(w, id)
    &&& sa_signers(w, id).no_duplicates() && sa_policies(w, id).no_duplicates()
    &&& iget(w, SmartAccountStorageKey::Count).is_some() && sa_count(w) >= 1
}
/// `fin` = the final call log (only the success flags of the `uninstall` hooks are read from it: a failing hook does not block removal)
pub open spec fn remove_rule_post(w: World, id: u32, fin: Seq<Call>) -> World {
    let r = sa_rule(w, id);
    let ids = sa_ids(w, r.context_type);
    let pos = last_idx(ids, id);
    let w1 = World { calls: w.calls + uninstall_log(fin, w.calls.len() as int, w.this, r, r.policies@.len() as int), ..w };
    let w2 = pdel(pdel(pdel(w1, SmartAccountStorageKey::Meta(id)), SmartAccountStorageKey::Signers(id)), SmartAccountStorageKey::Policies(id));
    let w3 = del_fp_post(w2, r.context_type, r.signers@, r.policies@);
    let w4 = if pos >= 0 { pset(w3, SmartAccountStorageKey::Ids(r.context_type), vec_of(ids.remove(pos)).sv()) } else { w3 };
    let w5 = iset(w4, SmartAccountStorageKey::Count, ((sa_count(w) - 1) as u32).sv());
    w_event(w5, ContextRuleRemoved { context_rule_id: id }.ev())
}
pub proof fn lemma_uninstall_step(w0: World, w1: World, w2: World, rule: ContextRule, i: int)
    requires 0 <= i < rule.policies@.len(),
        w1 == (World { calls: w0.calls + uninstall_log(w1.calls, w0.calls.len() as int, w0.this, rule, i), ext: w1.ext, ..w0 }),
        xcall_post(w1, w2, rule.policies@[i], fn_uninstall(), seq![rule.sv(), w0.this.sv()], SV::Void)
            || xcall_failed(w1, w2, rule.policies@[i], fn_uninstall(), seq![rule.sv(), w0.this.sv()]),
    ensures w2 == (World { calls: w0.calls + uninstall_log(w2.calls, w0.calls.len() as int, w0.this, rule, i + 1), ext: w2.ext, ..w0 }),
{
    let base = w0.calls.len() as int;
    assert(w1.calls.len() == base + i);
    assert(w2.calls =~= w0.calls + uninstall_log(w2.calls, base, w0.this, rule, i + 1)) by {
        assert forall|k: int| 0 <= k < base + i + 1 implies w2.calls[k] == (w0.calls + uninstall_log(w2.calls, base, w0.this, rule, i + 1))[k] by {
            if k < base + i { assert(w2.calls[k] == w1.calls[k]); }
        }
    }
}
pub proof fn lemma_push_no_dup<T>(s: Seq<T>, x: T)
    requires s.no_duplicates(), !s.contains(x),
    ensures s.push(x).no_duplicates(),
{
    let s2 = s.push(x);
    assert forall|i: int, j: int| 0 <= i < s2.len() && 0 <= j < s2.len() && i != j implies s2[i] != s2[j] by {
        if i < s.len() && j < s.len() { assert(s[i] != s[j]); }
        else if i < s.len() { assert(s.contains(s[i])); }
        else { assert(s.contains(s[j])); }
    }
}
/// removing the (only) occurrence of x from a duplicate-free sequence is set removal
pub proof fn lemma_remove_no_dup<T>(s: Seq<T>, x: T)
    requires s.no_duplicates(), s.contains(x),
    ensures ({
        let s1 = s.remove(last_idx(s, x));
        &&& s1.no_duplicates() && !s1.contains(x) && s1.len() == s.len() - 1
        &&& forall|y: T| y != x ==> (s1.contains(y) <==> s.contains(y))
    }),
{
    lemma_last_idx_none(s, x);
    let p = last_idx(s, x);
    let s1 = s.remove(p);
    assert forall|k: int| 0 <= k < s1.len() implies #[trigger] s1[k] == s[if k >= p { k + 1 } else { k }] by {}
    assert forall|i: int, j: int| 0 <= i < s1.len() && 0 <= j < s1.len() && i != j implies s1[i] != s1[j] by {
        let i0 = if i >= p { i + 1 } else { i }; let j0 = if j >= p { j + 1 } else { j };
        assert(s1[i] == s[i0] && s1[j] == s[j0]);
    }
    if s1.contains(x) { let k = choose|k: int| 0 <= k < s1.len() && s1[k] == x; let k0 = if k >= p { k + 1 } else { k }; assert(s1[k] == s[k0]); assert(s[k0] == s[p]); }
    assert forall|y: T| y != x implies (s1.contains(y) <==> s.contains(y)) by {
        if s1.contains(y) { let k = choose|k: int| 0 <= k < s1.len() && s1[k] == y; assert(s1[k] == s[if k >= p { k + 1 } else { k }]); }
        if s.contains(y) { let k = choose|k: int| 0 <= k < s.len() && s[k] == y; assert(k != p); if k < p { assert(s1[k] == y); } else { assert(s1[k - 1] == y); } }
    }
}
