// ================================================================================================
// Spec pack for the smart account (C03 authorization, C20 context-rule registry): views of the
// stored registry, the candidate list, signer filtering, the call-log vocabulary.
// ================================================================================================

// ---- stored registry (views) ----
pub open spec fn vec_of<T>(s: Seq<T>) -> Vec<T> { Vec { s: Ghost(s) } }
pub open spec fn seq_sv<T: ToSV>(s: Seq<T>) -> SV { SV::Vec(Seq::new(s.len(), |i: int| s[i].sv())) }

pub open spec fn sa_meta(w: World, id: u32) -> Option<Meta> { dec::<Meta>(pget(w, SmartAccountStorageKey::Meta(id))) }
pub open spec fn sa_signers(w: World, id: u32) -> Seq<Signer> {
    match dec::<Vec<Signer>>(pget(w, SmartAccountStorageKey::Signers(id))) { Some(v) => v@, None => Seq::empty() }
}
pub open spec fn sa_policies(w: World, id: u32) -> Seq<Address> {
    match dec::<Vec<Address>>(pget(w, SmartAccountStorageKey::Policies(id))) { Some(v) => v@, None => Seq::empty() }
}
pub open spec fn sa_ids(w: World, t: ContextRuleType) -> Seq<u32> {
    match dec::<Vec<u32>>(pget(w, SmartAccountStorageKey::Ids(t))) { Some(v) => v@, None => Seq::empty() }
}
pub open spec fn sa_exists(w: World, id: u32) -> bool { sa_meta(w, id).is_some() }
/// the rule `get_context_rule` assembles for an existing id
pub open spec fn sa_rule(w: World, id: u32) -> ContextRule {
    let m = sa_meta(w, id).unwrap();
    ContextRule { id: id, context_type: m.context_type, name: m.name, signers: vec_of(sa_signers(w, id)),
        policies: vec_of(sa_policies(w, id)), valid_until: m.valid_until }
}
pub open spec fn sa_count(w: World) -> u32 {
    match dec::<u32>(iget(w, SmartAccountStorageKey::Count)) { Some(c) => c, None => 0u32 }
}
pub open spec fn sa_next_id(w: World) -> u32 {
    match dec::<u32>(iget(w, SmartAccountStorageKey::NextId)) { Some(c) => c, None => 0u32 }
}

// ---- candidate list (C03: "rules are tried newest-first, type-specific before Default, expired dropped") ----
/// a rule is live unless it carries `valid_until < current ledger`
pub open spec fn rule_live(w: World, r: ContextRule) -> bool {
    match r.valid_until { Some(s) => !(s < w.ledger_seq), None => true }
}
/// the live rules among `ids`, LAST id first (ids are appended on creation, so: newest first)
pub open spec fn live_rules_rev(w: World, ids: Seq<u32>) -> Seq<ContextRule>
    decreases ids.len()
{
    if ids.len() == 0 { Seq::empty() } else {
        let rest = live_rules_rev(w, ids.drop_last());
        if rule_live(w, sa_rule(w, ids.last())) { seq![sa_rule(w, ids.last())] + rest } else { rest }
    }
}
pub open spec fn ids_exist(w: World, ids: Seq<u32>) -> bool { forall|i: int| 0 <= i < ids.len() ==> sa_exists(w, #[trigger] ids[i]) }
pub open spec fn candidates(w: World, t: ContextRuleType) -> Seq<ContextRule> {
    live_rules_rev(w, sa_ids(w, t)) + live_rules_rev(w, sa_ids(w, ContextRuleType::Default))
}
pub open spec fn candidates_exist(w: World, t: ContextRuleType) -> bool {
    ids_exist(w, sa_ids(w, t)) && ids_exist(w, sa_ids(w, ContextRuleType::Default))
}
/// the rule type a requested authorization context is looked up under
pub open spec fn ctx_rule_type(c: Context) -> ContextRuleType {
    match c {
        Context::Contract(cc) => ContextRuleType::CallContract(cc.contract),
        Context::CreateContractHostFn(cc) => match cc.executable { ContractExecutable::Wasm(h) => ContextRuleType::CreateContract(h) },
        Context::CreateContractWithCtorHostFn(cc) => match cc.executable { ContractExecutable::Wasm(h) => ContextRuleType::CreateContract(h) },
    }
}

// ---- signer matching (C03: "signers not named by the rule never count") ----
/// the elements of `s` that occur in `all`, order of `s` kept
pub open spec fn filter_in(s: Seq<Signer>, all: Seq<Signer>) -> Seq<Signer>
    decreases s.len()
{
    if s.len() == 0 { Seq::empty() } else {
        let r = filter_in(s.drop_last(), all);
        if all.contains(s.last()) { r.push(s.last()) } else { r }
    }
}

pub proof fn lemma_take_step<T>(s: Seq<T>, i: int)
    requires 0 <= i < s.len(),
    ensures s.take(i + 1).drop_last() == s.take(i), s.take(i + 1).last() == s[i], s.take(i + 1) == s.take(i).push(s[i]),
{
    assert(s.take(i + 1).drop_last() =~= s.take(i));
    assert(s.take(i + 1) =~= s.take(i).push(s[i]));
}

// ---- call-log vocabulary ----
/// w2 differs from w1 only by calls appended to the log (and the opaque state of other contracts)
pub open spec fn calls_ext(w1: World, w2: World) -> bool {
    &&& w2 == (World { calls: w2.calls, ext: w2.ext, ..w1 })
    &&& w1.calls.len() <= w2.calls.len()
    &&& w2.calls.take(w1.calls.len() as int) =~= w1.calls
}
/// the calls appended between w1 and w2
pub open spec fn new_calls(w1: World, w2: World) -> Seq<Call> { w2.calls.skip(w1.calls.len() as int) }

/// one `can_enforce` call to policy `p` with answer `ret`
pub open spec fn ce_call(this: Address, p: Address, ctx: Context, a: Seq<Signer>, rule: ContextRule, ret: bool) -> Call {
    Call { callee: p, func: fn_can_enforce(), args: seq![ctx.sv(), seq_sv(a), rule.sv(), this.sv()], ret: SV::Bool(ret), ok: true }
}
/// `s` = the `can_enforce` calls to the first `n` policies of `rule`, in order; all but the last answered true,
/// the last answered `last`
pub open spec fn ce_seg(s: Seq<Call>, this: Address, ctx: Context, a: Seq<Signer>, rule: ContextRule, n: int, last: bool) -> bool {
    &&& s.len() == n
    &&& 0 <= n <= rule.policies@.len()
    &&& forall|i: int| 0 <= i < n ==> #[trigger] s[i] == ce_call(this, rule.policies@[i], ctx, a, rule, if i == n - 1 { last } else { true })
}

pub proof fn lemma_calls_ext_refl(w: World)
    ensures calls_ext(w, w), new_calls(w, w) =~= Seq::<Call>::empty(),
{}
pub proof fn lemma_calls_ext_trans(w0: World, w1: World, w2: World)
    requires calls_ext(w0, w1), calls_ext(w1, w2),
    ensures calls_ext(w0, w2), new_calls(w0, w2) =~= new_calls(w0, w1) + new_calls(w1, w2),
{
    assert(w2.calls.take(w0.calls.len() as int) =~= w2.calls.take(w1.calls.len() as int).take(w0.calls.len() as int));
    assert forall|i: int| 0 <= i < new_calls(w0, w1).len() implies new_calls(w0, w2)[i] == new_calls(w0, w1)[i] by {
        assert(w2.calls.take(w1.calls.len() as int)[w0.calls.len() + i] == w1.calls[w0.calls.len() + i]);
    }
}
pub proof fn lemma_xcall_ext(w1: World, w2: World, callee: Address, func: int, args: Seq<SV>, ret: SV)
    requires xcall_post(w1, w2, callee, func, args, ret),
    ensures calls_ext(w1, w2), new_calls(w1, w2) =~= seq![Call { callee: callee, func: func, args: args, ret: ret, ok: true }],
{
    assert(w2.calls.take(w1.calls.len() as int) =~= w1.calls);
}
pub proof fn lemma_vec_sv<T: ToSV>(v: Vec<T>)
    ensures v.sv() == seq_sv(v@),
{
    assert(Seq::new(v@.len(), |i: int| v@[i].sv()) =~= Seq::new(v@.len(), |i: int| v@[i].sv()));
}
/// one more `can_enforce` call extends the segment
pub proof fn lemma_ce_step(w0: World, w1: World, w2: World, ctx: Context, av: Vec<Signer>, rule: ContextRule, i: int, ret: bool)
    requires
        calls_ext(w0, w1), new_calls(w0, w1).len() == i, 0 <= i < rule.policies@.len(),
        ce_seg(new_calls(w0, w1), w0.this, ctx, av@, rule, i, true),
        xcall_post(w1, w2, rule.policies@[i], fn_can_enforce(), seq![ctx.sv(), av.sv(), rule.sv(), w0.this.sv()], SV::Bool(ret)),
    ensures
        calls_ext(w0, w2), new_calls(w0, w2).len() == i + 1,
        ce_seg(new_calls(w0, w2), w0.this, ctx, av@, rule, i + 1, ret),
{
    lemma_xcall_ext(w1, w2, rule.policies@[i], fn_can_enforce(), seq![ctx.sv(), av.sv(), rule.sv(), w0.this.sv()], SV::Bool(ret));
    lemma_calls_ext_trans(w0, w1, w2);
    lemma_vec_sv(av);
    let s = new_calls(w0, w2);
    assert forall|j: int| 0 <= j < i + 1 implies #[trigger] s[j] == ce_call(w0.this, rule.policies@[j], ctx, av@, rule, if j == i { ret } else { true }) by {
        if j < i { assert(s[j] == new_calls(w0, w1)[j]); } else { assert(s[j] == new_calls(w1, w2)[0]); }
    }
}

// ---- rule selection (C03: precedence) ----
/// `seg` is exactly the log left by trying and REJECTING candidates [0..j): a rule without policies is rejected
/// when some of its signers is missing from `all` (no call); a rule with policies when one of its policies
/// answered false (calls to its policies in order, up to and including the first refusal)
pub open spec fn rejected_log(seg: Seq<Call>, this: Address, ctx: Context, all: Seq<Signer>, cands: Seq<ContextRule>, j: int) -> bool
    decreases j
{
    if j <= 0 { seg.len() == 0 } else {
        let rule = cands[j - 1];
        let a = filter_in(rule.signers@, all);
        if rule.policies@.len() == 0 {
            a.len() != rule.signers@.len() && rejected_log(seg, this, ctx, all, cands, j - 1)
        } else {
            exists|m: int| 0 <= m < seg.len() && rejected_log(#[trigger] seg.take(m), this, ctx, all, cands, j - 1)
                && ce_seg(seg.skip(m), this, ctx, a, rule, seg.len() - m, false)
        }
    }
}
/// `seg` is exactly the log left by rejecting candidates [0..k) and then ACCEPTING candidate k: without policies,
/// every signer of the rule is in `all`; with policies, every one of them was asked, in order, and answered true
pub open spec fn accepted_log(seg: Seq<Call>, this: Address, ctx: Context, all: Seq<Signer>, cands: Seq<ContextRule>, k: int) -> bool {
    let rule = cands[k];
    let a = filter_in(rule.signers@, all);
    let np = rule.policies@.len() as int;
    if np == 0 {
        a.len() == rule.signers@.len() && rejected_log(seg, this, ctx, all, cands, k)
    } else {
        np <= seg.len() && rejected_log(seg.take(seg.len() - np), this, ctx, all, cands, k)
            && ce_seg(seg.skip(seg.len() - np), this, ctx, a, rule, np, true)
    }
}
pub open spec fn gvc_choice(w1: World, seg: Seq<Call>, ctx: Context, all: Seq<Signer>, rule: ContextRule, a: Seq<Signer>, k: int) -> bool {
    let cands = candidates(w1, ctx_rule_type(ctx));
    &&& 0 <= k < cands.len()
    &&& rule == cands[k]
    &&& a == filter_in(rule.signers@, all)
    &&& accepted_log(seg, w1.this, ctx, all, cands, k)
}
pub open spec fn gvc_post(w1: World, w2: World, ctx: Context, all: Seq<Signer>, r: (ContextRule, Context, Vec<Signer>)) -> bool {
    &&& calls_ext(w1, w2)
    &&& candidates_exist(w1, ctx_rule_type(ctx))
    &&& r.1 == ctx
    &&& exists|k: int| #[trigger] gvc_choice(w1, new_calls(w1, w2), ctx, all, r.0, r.2@, k)
}
pub proof fn lemma_gvc_step(w0: World, w1: World, w2: World, ctx: Context, all: Seq<Signer>, cands: Seq<ContextRule>, j: int, r: bool)
    requires
        calls_ext(w0, w1), calls_ext(w1, w2), 0 <= j < cands.len(), cands[j].policies@.len() > 0,
        rejected_log(new_calls(w0, w1), w0.this, ctx, all, cands, j),
        ce_seg(new_calls(w1, w2), w0.this, ctx, filter_in(cands[j].signers@, all), cands[j], new_calls(w1, w2).len() as int, r),
        r ==> new_calls(w1, w2).len() == cands[j].policies@.len(),
        !r ==> new_calls(w1, w2).len() >= 1,
    ensures
        calls_ext(w0, w2),
        r ==> accepted_log(new_calls(w0, w2), w0.this, ctx, all, cands, j),
        !r ==> rejected_log(new_calls(w0, w2), w0.this, ctx, all, cands, j + 1),
{
    lemma_calls_ext_trans(w0, w1, w2);
    let seg = new_calls(w0, w2);
    let m = new_calls(w0, w1).len() as int;
    assert(seg.take(m) =~= new_calls(w0, w1));
    assert(seg.skip(m) =~= new_calls(w1, w2));
    if r {
        assert(seg.len() - cands[j].policies@.len() == m);
    }
}
pub proof fn lemma_gvc_intro(w1: World, w2: World, ctx: Context, all: Seq<Signer>, r: (ContextRule, Context, Vec<Signer>), k: int)
    requires calls_ext(w1, w2), candidates_exist(w1, ctx_rule_type(ctx)), r.1 == ctx,
        gvc_choice(w1, new_calls(w1, w2), ctx, all, r.0, r.2@, k),
    ensures gvc_post(w1, w2, ctx, all, r),
{}
