// ================================================================================================
// Spec pack for the smart account (C03 authorization, C20 context-rule registry): views of the
// stored registry, the candidate list, signer filtering, the call-log vocabulary.
// ================================================================================================

// ---- stored registry (views) ----
pub open spec fn vec_of<T>(s: Seq<T>) -> Vec<T> { Vec { s: Ghost(s) } }
pub open spec fn seq_sv<T: ToSV>(s: Seq<T>) -> SV { SV::Vec(Seq::new(s.len(), |i: int| s[i].sv())) }

pub open spec fn sa_meta(w: World, id: u32) -> Option<Meta> { dec::<Meta>(pget(w, SmartAccountStorageKey::Meta(id))) }
pub open spec fn sa_signers(w: World, id: u32) -> Seq<Signer> {
    match dec::<Vec<Signer>>(pget(w, SmartAccountStorageKey::Signers(id))) { Some(v) => v@, None => Seq::empty() }
}
pub open spec fn sa_policies(w: World, id: u32) -> Seq<Address> {
    match dec::<Vec<Address>>(pget(w, SmartAccountStorageKey::Policies(id))) { Some(v) => v@, None => Seq::empty() }
}
pub open spec fn sa_ids(w: World, t: ContextRuleType) -> Seq<u32> {
    match dec::<Vec<u32>>(pget(w, SmartAccountStorageKey::Ids(t))) { Some(v) => v@, None => Seq::empty() }
}
pub open spec fn sa_exists(w: World, id: u32) -> bool { sa_meta(w, id).is_some() }
/// the rule `get_context_rule` assembles for an existing id
pub open spec fn sa_rule(w: World, id: u32) -> ContextRule {
    let m = sa_meta(w, id).unwrap();
    ContextRule { id: id, context_type: m.context_type, name: m.name, signers: vec_of(sa_signers(w, id)),
        policies: vec_of(sa_policies(w, id)), valid_until: m.valid_until }
}
pub open spec fn sa_count(w: World) -> u32 {
    match dec::<u32>(iget(w, SmartAccountStorageKey::Count)) { Some(c) => c, None => 0u32 }
}
pub open spec fn sa_next_id(w: World) -> u32 {
    match dec::<u32>(iget(w, SmartAccountStorageKey::NextId)) { Some(c) => c, None => 0u32 }
}

// ---- candidate list (C03: "rules are tried newest-first, type-specific before Default, expired dropped") ----
/// a rule is live unless it carries `valid_until < current ledger`
pub open spec fn rule_live(w: World, r: ContextRule) -> bool {
    match r.valid_until { Some(s) => !(s < w.ledger_seq), None => true }
}
/// the live rules among `ids`, LAST id first (ids are appended on creation, so: newest first)
pub open spec fn live_rules_rev(w: World, ids: Seq<u32>) -> Seq<ContextRule>
    decreases ids.len()
{
    if ids.len() == 0 { Seq::empty() } else {
        let rest = live_rules_rev(w, ids.drop_last());
        if rule_live(w, sa_rule(w, ids.last())) { seq![sa_rule(w, ids.last())] + rest } else { rest }
    }
}
pub open spec fn ids_exist(w: World, ids: Seq<u32>) -> bool { forall|i: int| 0 <= i < ids.len() ==> sa_exists(w, #[trigger] ids[i]) }
pub open spec fn candidates(w: World, t: ContextRuleType) -> Seq<ContextRule> {
    live_rules_rev(w, sa_ids(w, t)) + live_rules_rev(w, sa_ids(w, ContextRuleType::Default))
}
pub open spec fn candidates_exist(w: World, t: ContextRuleType) -> bool {
    ids_exist(w, sa_ids(w, t)) && ids_exist(w, sa_ids(w, ContextRuleType::Default))
}
/// the rule type a requested authorization context is looked up under
pub open spec fn ctx_rule_type(c: Context) -> ContextRuleType {
    match c {
        Context::Contract(cc) => ContextRuleType::CallContract(cc.contract),
        Context::CreateContractHostFn(cc) => match cc.executable { ContractExecutable::Wasm(h) => ContextRuleType::CreateContract(h) },
        Context::CreateContractWithCtorHostFn(cc) => match cc.executable { ContractExecutable::Wasm(h) => ContextRuleType::CreateContract(h) },
    }
}

// ---- signer matching (C03: "signers not named by the rule never count") ----
/// the elements of `s` that occur in `all`, order of `s` kept
pub open spec fn filter_in(s: Seq<Signer>, all: Seq<Signer>) -> Seq<Signer>
    decreases s.len()
{
    if s.len() == 0 { Seq::empty() } else {
        let r = filter_in(s.drop_last(), all);
        if all.contains(s.last()) { r.push(s.last()) } else { r }
    }
}

pub proof fn lemma_take_step<T>(s: Seq<T>, i: int)
    requires 0 <= i < s.len(),
    ensures s.take(i + 1).drop_last() == s.take(i), s.take(i + 1).last() == s[i], s.take(i + 1) == s.take(i).push(s[i]),
{
    assert(s.take(i + 1).drop_last() =~= s.take(i));
    assert(s.take(i + 1) =~= s.take(i).push(s[i]));
}

// ---- call-log vocabulary ----
/// w2 differs from w1 only by calls appended to the log (and the opaque state of other contracts)
pub open spec fn calls_ext(w1: World, w2: World) -> bool {
    &&& w2 == (World { calls: w2.calls, ext: w2.ext, ..w1 })
    &&& w1.calls.len() <= w2.calls.len()
    &&& w2.calls.take(w1.calls.len() as int) =~= w1.calls
}
/// the calls appended between w1 and w2
pub open spec fn new_calls(w1: World, w2: World) -> Seq<Call> { w2.calls.skip(w1.calls.len() as int) }

/// one `can_enforce` call to policy `p` with answer `ret`
pub open spec fn ce_call(this: Address, p: Address, ctx: Context, a: Seq<Signer>, rule: ContextRule, ret: bool) -> Call {
    Call { callee: p, func: fn_can_enforce(), args: seq![ctx.sv(), seq_sv(a), rule.sv(), this.sv()], ret: SV::Bool(ret), ok: true }
}
/// `s` = the `can_enforce` calls to the first `n` policies of `rule`, in order; all but the last answered true,
/// the last answered `last`
pub open spec fn ce_seg(s: Seq<Call>, this: Address, ctx: Context, a: Seq<Signer>, rule: ContextRule, n: int, last: bool) -> bool {
    &&& s.len() == n
    &&& 0 <= n <= rule.policies@.len()
    &&& forall|i: int| 0 <= i < n ==> #[trigger] s[i] == ce_call(this, rule.policies@[i], ctx, a, rule, if i == n - 1 { last } else { true })
}

pub proof fn lemma_calls_ext_refl(w: World)
    ensures calls_ext(w, w), new_calls(w, w) =~= Seq::<Call>::empty(),
{}
pub proof fn lemma_calls_ext_trans(w0: World, w1: World, w2: World)
    requires calls_ext(w0, w1), calls_ext(w1, w2),
    ensures calls_ext(w0, w2), new_calls(w0, w2) =~= new_calls(w0, w1) + new_calls(w1, w2),
{
    assert(w2.calls.take(w0.calls.len() as int) =~= w2.calls.take(w1.calls.len() as int).take(w0.calls.len() as int));
    assert forall|i: int| 0 <= i < new_calls(w0, w1).len() implies new_calls(w0, w2)[i] == new_calls(w0, w1)[i] by {
        assert(w2.calls.take(w1.calls.len() as int)[w0.calls.len() + i] == w1.calls[w0.calls.len() + i]);
    }
}
pub proof fn lemma_xcall_ext(w1: World, w2: World, callee: Address, func: int, args: Seq<SV>, ret: SV)
    requires xcall_post(w1, w2, callee, func, args, ret),
    ensures calls_ext(w1, w2), new_calls(w1, w2) =~= seq![Call { callee: callee, func: func, args: args, ret: ret, ok: true }],
{
    assert(w2.calls.take(w1.calls.len() as int) =~= w1.calls);
}
pub proof fn lemma_vec_sv<T: ToSV>(v: Vec<T>)
    ensures v.sv() == seq_sv(v@),
{
    assert(Seq::new(v@.len(), |i: int| v@[i].sv()) =~= Seq::new(v@.len(), |i: int| v@[i].sv()));
}
/// one more `can_enforce` call extends the segment
pub proof fn lemma_ce_step(w0: World, w1: World, w2: World, ctx: Context, av: Vec<Signer>, rule: ContextRule, i: int, ret: bool)
    requires
        calls_ext(w0, w1), new_calls(w0, w1).len() == i, 0 <= i < rule.policies@.len(),
        ce_seg(new_calls(w0, w1), w0.this, ctx, av@, rule, i, true),
        xcall_post(w1, w2, rule.policies@[i], fn_can_enforce(), seq![ctx.sv(), av.sv(), rule.sv(), w0.this.sv()], SV::Bool(ret)),
    ensures
        calls_ext(w0, w2), new_calls(w0, w2).len() == i + 1,
        ce_seg(new_calls(w0, w2), w0.this, ctx, av@, rule, i + 1, ret),
{
    lemma_xcall_ext(w1, w2, rule.policies@[i], fn_can_enforce(), seq![ctx.sv(), av.sv(), rule.sv(), w0.this.sv()], SV::Bool(ret));
    lemma_calls_ext_trans(w0, w1, w2);
    lemma_vec_sv(av);
    let s = new_calls(w0, w2);
    assert forall|j: int| 0 <= j < i + 1 implies #[trigger] s[j] == ce_call(w0.this, rule.policies@[j], ctx, av@, rule, if j == i { ret } else { true }) by {
        if j < i { assert(s[j] == new_calls(w0, w1)[j]); } else { assert(s[j] == new_calls(w1, w2)[0]); }
    }
}

// ---- rule selection (C03: precedence) ----
/// `seg` is exactly the log left by trying and REJECTING candidates [0..j): a rule without policies is rejected
/// when some of its signers is missing from `all` (no call); a rule with policies when one of its policies
/// answered false (calls to its policies in order, up to and including the first refusal)
pub open spec fn rejected_log(seg: Seq<Call>, this: Address, ctx: Context, all: Seq<Signer>, cands: Seq<ContextRule>, j: int) -> bool
    decreases j
{
    if j <= 0 { seg.len() == 0 } else {
        let rule = cands[j - 1];
        let a = filter_in(rule.signers@, all);
        if rule.policies@.len() == 0 {
            a.len() != rule.signers@.len() && rejected_log(seg, this, ctx, all, cands, j - 1)
        } else {
            exists|m: int| 0 <= m < seg.len() && rejected_log(#[trigger] seg.take(m), this, ctx, all, cands, j - 1)
                && ce_seg(seg.skip(m), this, ctx, a, rule, seg.len() - m, false)
        }
    }
}
/// `seg` is exactly the log left by rejecting candidates [0..k) and then ACCEPTING candidate k: without policies,
/// every signer of the rule is in `all`; with policies, every one of them was asked, in order, and answered true
pub open spec fn accepted_log(seg: Seq<Call>, this: Address, ctx: Context, all: Seq<Signer>, cands: Seq<ContextRule>, k: int) -> bool {
    let rule = cands[k];
    let a = filter_in(rule.signers@, all);
    let np = rule.policies@.len() as int;
    if np == 0 {
        a.len() == rule.signers@.len() && rejected_log(seg, this, ctx, all, cands, k)
    } else {
        np <= seg.len() && rejected_log(seg.take(seg.len() - np), this, ctx, all, cands, k)
            && ce_seg(seg.skip(seg.len() - np), this, ctx, a, rule, np, true)
    }
}
pub open spec fn gvc_choice(w1: World, seg: Seq<Call>, ctx: Context, all: Seq<Signer>, rule: ContextRule, a: Seq<Signer>, k: int) -> bool {
    let cands = candidates(w1, ctx_rule_type(ctx));
    &&& 0 <= k < cands.len()
    &&& rule == cands[k]
    &&& a == filter_in(rule.signers@, all)
    &&& accepted_log(seg, w1.this, ctx, all, cands, k)
}
pub open spec fn gvc_post(w1: World, w2: World, ctx: Context, all: Seq<Signer>, r: (ContextRule, Context, Vec<Signer>)) -> bool {
    &&& calls_ext(w1, w2)
    &&& candidates_exist(w1, ctx_rule_type(ctx))
    &&& r.1 == ctx
    &&& exists|k: int| #[trigger] gvc_choice(w1, new_calls(w1, w2), ctx, all, r.0, r.2@, k)
}
pub proof fn lemma_gvc_step(w0: World, w1: World, w2: World, ctx: Context, all: Seq<Signer>, cands: Seq<ContextRule>, j: int, r: bool)
    requires
        calls_ext(w0, w1), calls_ext(w1, w2), 0 <= j < cands.len(), cands[j].policies@.len() > 0,
        rejected_log(new_calls(w0, w1), w0.this, ctx, all, cands, j),
        ce_seg(new_calls(w1, w2), w0.this, ctx, filter_in(cands[j].signers@, all), cands[j], new_calls(w1, w2).len() as int, r),
        r ==> new_calls(w1, w2).len() == cands[j].policies@.len(),
        !r ==> new_calls(w1, w2).len() >= 1,
    ensures
        calls_ext(w0, w2),
        r ==> accepted_log(new_calls(w0, w2), w0.this, ctx, all, cands, j),
        !r ==> rejected_log(new_calls(w0, w2), w0.this, ctx, all, cands, j + 1),
{
    lemma_calls_ext_trans(w0, w1, w2);
    let seg = new_calls(w0, w2);
    let m = new_calls(w0, w1).len() as int;
    assert(seg.take(m) =~= new_calls(w0, w1));
    assert(seg.skip(m) =~= new_calls(w1, w2));
    if r {
        assert(seg.len() - cands[j].policies@.len() == m);
    }
}
pub proof fn lemma_gvc_intro(w1: World, w2: World, ctx: Context, all: Seq<Signer>, r: (ContextRule, Context, Vec<Signer>), k: int)
    requires calls_ext(w1, w2), candidates_exist(w1, ctx_rule_type(ctx)), r.1 == ctx,
        gvc_choice(w1, new_calls(w1, w2), ctx, all, r.0, r.2@, k),
    ensures gvc_post(w1, w2, ctx, all, r),
{}

// ---- authenticate (C03: "every supplied signature verifies") ----
/// what authenticating one (signer, signature) entry leaves behind: External(verifier, key) = a `verify` call on the
/// payload that answered TRUE; Delegated(addr) = addr's authorization for the argument vector [payload]
pub open spec fn verify_call(payload: Seq<u8>, verifier: Address, key: Bytes, sig: Bytes) -> Call {
    Call { callee: verifier, func: fn_verify(), args: seq![SV::Bytes(payload), key.sv(), sig.sv()], ret: SV::Bool(true), ok: true }
}
pub open spec fn auth_calls(payload: Seq<u8>, entries: Seq<(Signer, Bytes)>) -> Seq<Call>
    decreases entries.len()
{
    if entries.len() == 0 { Seq::empty() } else {
        let rest = auth_calls(payload, entries.drop_last());
        match entries.last().0 {
            Signer::External(v, k) => rest.push(verify_call(payload, v, k, entries.last().1)),
            Signer::Delegated(a) => rest,
        }
    }
}
pub open spec fn auth_args_after(base: Set<(Address, Seq<SV>)>, payload: Seq<u8>, entries: Seq<(Signer, Bytes)>) -> Set<(Address, Seq<SV>)>
    decreases entries.len()
{
    if entries.len() == 0 { base } else {
        let rest = auth_args_after(base, payload, entries.drop_last());
        match entries.last().0 {
            Signer::External(v, k) => rest,
            Signer::Delegated(a) => rest.insert((a, seq![SV::Bytes(payload)])),
        }
    }
}
pub open spec fn authenticate_post(w1: World, w2: World, payload: Seq<u8>, entries: Seq<(Signer, Bytes)>) -> bool {
    w2 == (World { calls: w1.calls + auth_calls(payload, entries), auth_args: auth_args_after(w1.auth_args, payload, entries), ext: w2.ext, ..w1 })
}
pub proof fn lemma_auth_step(w0: World, w1: World, w2: World, payload: Seq<u8>, entries: Seq<(Signer, Bytes)>, i: int)
    requires
        0 <= i < entries.len(),
        authenticate_post(w0, w1, payload, entries.take(i)),
        match entries[i].0 {
            Signer::External(v, k) => xcall_post(w1, w2, v, fn_verify(), seq![SV::Bytes(payload), k.sv(), entries[i].1.sv()], SV::Bool(true)),
            Signer::Delegated(a) => w2 == w_auth_args(w1, a, seq![SV::Bytes(payload)]),
        },
    ensures authenticate_post(w0, w2, payload, entries.take(i + 1)),
{
    lemma_take_step(entries, i);
    match entries[i].0 {
        Signer::External(v, k) => {
            assert(w2.calls =~= w0.calls + auth_calls(payload, entries.take(i + 1)));
        }
        Signer::Delegated(a) => {}
    }
}

// ---- do_check_auth (C03: the whole check) ----
pub type VC = (ContextRule, Context, Vec<Signer>);
/// the registry as the selection sees it depends only on the persistent store and the ledger sequence
pub proof fn lemma_live_rules_same(w1: World, w2: World, ids: Seq<u32>)
    requires w1.persistent == w2.persistent, w1.ledger_seq == w2.ledger_seq,
    ensures live_rules_rev(w1, ids) == live_rules_rev(w2, ids), ids_exist(w1, ids) == ids_exist(w2, ids),
    decreases ids.len()
{
    if ids.len() > 0 { lemma_live_rules_same(w1, w2, ids.drop_last()); }
    assert(ids_exist(w1, ids) == ids_exist(w2, ids)) by {
        assert forall|id: u32| sa_exists(w1, id) == sa_exists(w2, id) by {}
    }
}
pub proof fn lemma_candidates_same(w1: World, w2: World, t: ContextRuleType)
    requires w1.persistent == w2.persistent, w1.ledger_seq == w2.ledger_seq,
    ensures candidates(w1, t) == candidates(w2, t), candidates_exist(w1, t) == candidates_exist(w2, t),
{
    lemma_live_rules_same(w1, w2, sa_ids(w1, t));
    lemma_live_rules_same(w1, w2, sa_ids(w1, ContextRuleType::Default));
}
/// selection of one context, stated against a fixed registry world `w` and the slice of the log it produced
pub open spec fn gvc_seg(w: World, seg: Seq<Call>, ctx: Context, all: Seq<Signer>, vc: VC) -> bool {
    &&& candidates_exist(w, ctx_rule_type(ctx))
    &&& vc.1 == ctx
    &&& exists|k: int| #[trigger] gvc_choice(w, seg, ctx, all, vc.0, vc.2@, k)
}
/// `seg` = the log of validating contexts ctxs[0..vcs.len()) one after the other, with results vcs
pub open spec fn validated_log(w: World, seg: Seq<Call>, ctxs: Seq<Context>, all: Seq<Signer>, vcs: Seq<VC>) -> bool
    decreases vcs.len()
{
    if vcs.len() == 0 { seg.len() == 0 } else {
        exists|p: int| 0 <= p <= seg.len() && validated_log(w, #[trigger] seg.take(p), ctxs, all, vcs.drop_last())
            && gvc_seg(w, seg.skip(p), ctxs[vcs.len() - 1], all, vcs.last())
    }
}
pub proof fn lemma_validated_step(w0: World, wa: World, w1: World, w2: World, ctxs: Seq<Context>, all: Seq<Signer>, vcs: Seq<VC>, r: VC)
    requires
        wa.persistent == w0.persistent, wa.ledger_seq == w0.ledger_seq, wa.this == w0.this,
        calls_ext(wa, w1), validated_log(w0, new_calls(wa, w1), ctxs, all, vcs), vcs.len() < ctxs.len(),
        gvc_post(w1, w2, ctxs[vcs.len() as int], all, r),
    ensures
        calls_ext(wa, w2), validated_log(w0, new_calls(wa, w2), ctxs, all, vcs.push(r)),
{
    let ctx = ctxs[vcs.len() as int];
    lemma_calls_ext_trans(wa, w1, w2);
    lemma_candidates_same(w1, w0, ctx_rule_type(ctx));
    let seg = new_calls(wa, w2);
    let p = new_calls(wa, w1).len() as int;
    assert(seg.take(p) =~= new_calls(wa, w1));
    assert(seg.skip(p) =~= new_calls(w1, w2));
    let k = choose|k: int| #[trigger] gvc_choice(w1, new_calls(w1, w2), ctx, all, r.0, r.2@, k);
    assert(gvc_choice(w0, seg.skip(p), ctx, all, r.0, r.2@, k));
    assert(vcs.push(r).drop_last() =~= vcs);
    assert(gvc_seg(w0, seg.skip(p), ctxs[vcs.push(r).len() - 1], all, vcs.push(r).last()));
}

pub open spec fn enforce_call(this: Address, p: Address, ctx: Context, a: Seq<Signer>, rule: ContextRule) -> Call {
    Call { callee: p, func: fn_enforce(), args: seq![ctx.sv(), seq_sv(a), rule.sv(), this.sv()], ret: SV::Void, ok: true }
}
/// `enforce` on the first n policies of the validated context's rule, in order
pub open spec fn enforce_rule_calls(this: Address, vc: VC, n: int) -> Seq<Call>
    decreases n
{
    if n <= 0 { Seq::empty() } else { enforce_rule_calls(this, vc, n - 1).push(enforce_call(this, vc.0.policies@[n - 1], vc.1, vc.2@, vc.0)) }
}
/// `enforce` on all policies of the first m validated contexts, context by context
pub open spec fn enforce_calls(this: Address, vcs: Seq<VC>, m: int) -> Seq<Call>
    decreases m
{
    if m <= 0 { Seq::empty() } else { enforce_calls(this, vcs, m - 1) + enforce_rule_calls(this, vcs[m - 1], vcs[m - 1].0.policies@.len() as int) }
}
pub proof fn lemma_enforce_step(w0: World, w1: World, w2: World, vcs: Seq<VC>, i: int, j: int, av: Vec<Signer>)
    requires
        calls_ext(w0, w1), 0 <= i < vcs.len(), 0 <= j < vcs[i].0.policies@.len(), av@ == vcs[i].2@,
        new_calls(w0, w1) == enforce_calls(w0.this, vcs, i) + enforce_rule_calls(w0.this, vcs[i], j),
        xcall_post(w1, w2, vcs[i].0.policies@[j], fn_enforce(), seq![vcs[i].1.sv(), av.sv(), vcs[i].0.sv(), w0.this.sv()], SV::Void),
    ensures
        calls_ext(w0, w2),
        new_calls(w0, w2) == enforce_calls(w0.this, vcs, i) + enforce_rule_calls(w0.this, vcs[i], j + 1),
{
    lemma_xcall_ext(w1, w2, vcs[i].0.policies@[j], fn_enforce(), seq![vcs[i].1.sv(), av.sv(), vcs[i].0.sv(), w0.this.sv()], SV::Void);
    lemma_calls_ext_trans(w0, w1, w2);
    lemma_vec_sv(av);
    assert(new_calls(w0, w2) =~= enforce_calls(w0.this, vcs, i) + enforce_rule_calls(w0.this, vcs[i], j + 1));
}

pub open spec fn dca_with(w0: World, w2: World, payload: Seq<u8>, entries: Seq<(Signer, Bytes)>, ctxs: Seq<Context>, vcs: Seq<VC>) -> bool {
    let la = auth_calls(payload, entries);
    let le = enforce_calls(w0.this, vcs, vcs.len() as int);
    let pa = (w0.calls.len() + la.len()) as int;
    let pe = (w2.calls.len() - le.len()) as int;
    &&& vcs.len() == ctxs.len()
    &&& w2 == (World { calls: w2.calls, ext: w2.ext, auth_args: auth_args_after(w0.auth_args, payload, entries), ..w0 })
    &&& pa <= pe
    // first every (signer, signature) pair is authenticated ...
    &&& w2.calls.subrange(0, pa) =~= w0.calls + la
    // ... then one rule is selected per requested context, in order, the supplied signers being the keys of the signature map ...
    &&& validated_log(w0, w2.calls.subrange(pa, pe), ctxs, smap_keys(entries), vcs)
    // ... then exactly the policies of the selected rules are enforced, context by context, and nothing else is called
    &&& w2.calls.subrange(pe, w2.calls.len() as int) =~= le
}
pub open spec fn dca_post(w0: World, w2: World, payload: Seq<u8>, entries: Seq<(Signer, Bytes)>, ctxs: Seq<Context>) -> bool {
    exists|vcs: Seq<VC>| #[trigger] dca_with(w0, w2, payload, entries, ctxs, vcs)
}
pub proof fn lemma_dca_intro(w0: World, wa: World, wv: World, w2: World, payload: Seq<u8>, entries: Seq<(Signer, Bytes)>, ctxs: Seq<Context>, vcs: Seq<VC>)
    requires
        authenticate_post(w0, wa, payload, entries),
        calls_ext(wa, wv), validated_log(w0, new_calls(wa, wv), ctxs, smap_keys(entries), vcs), vcs.len() == ctxs.len(),
        calls_ext(wv, w2), new_calls(wv, w2) == enforce_calls(w0.this, vcs, vcs.len() as int),
    ensures dca_post(w0, w2, payload, entries, ctxs),
{
    lemma_calls_ext_trans(wa, wv, w2);
    let la = auth_calls(payload, entries);
    let le = enforce_calls(w0.this, vcs, vcs.len() as int);
    let pa = (w0.calls.len() + la.len()) as int;
    let pe = (w2.calls.len() - le.len()) as int;
    assert(wa.calls.len() == pa);
    assert(wv.calls.len() == pe);
    assert(w2.calls.subrange(0, pa as int) =~= w2.calls.take(wa.calls.len() as int));
    assert(w2.calls.subrange(pa as int, pe as int) =~= new_calls(wa, wv)) by {
        assert(w2.calls.take(wv.calls.len() as int) =~= wv.calls);
        assert forall|i: int| 0 <= i < pe - pa implies w2.calls.subrange(pa as int, pe as int)[i] == new_calls(wa, wv)[i] by {
            assert(w2.calls.take(wv.calls.len() as int)[pa + i] == wv.calls[pa + i]);
        }
    }
    assert(w2.calls.subrange(pe as int, w2.calls.len() as int) =~= new_calls(wv, w2));
    assert(dca_with(w0, w2, payload, entries, ctxs, vcs));
}
