// =================================================================================================
// spec pack `upgradeable` — C16 (migration part): the instance flag `Migrating`.
// The derive macro builds   upgrade  = _require_auth; enable_migration; update_current_contract_wasm
//                           migrate  = _require_auth; ensure_can_complete_migration; _migrate; complete_migration
// (packages/macros/src/upgradeable.rs); this unit covers the four library functions and the history of
// the flag under exactly these two compositions.  Helper names carry the prefix `ug_`.
// =================================================================================================

// ---- abstract view ----
pub open spec fn ug_key() -> UpgradeableStorageKey { UpgradeableStorageKey::Migrating }
/// what `can_complete_migration()` reports: an absent flag means "no migration pending"
pub open spec fn is_migrating(w: World) -> bool {
    match dec::<bool>(iget(w, ug_key())) { Some(b) => b, None => false }
}

// ---- exact successor states ----
pub open spec fn enable_post(w: World) -> World { iset(w, ug_key(), true.sv()) }
pub open spec fn complete_post(w: World) -> World { iset(w, ug_key(), false.sv()) }

/// everything but the flag entry is the same
pub open spec fn ug_frame(w: World, w2: World) -> bool {
    &&& w2 == (World { instance: w2.instance, ..w })
    &&& forall|k: SV| k != ug_key().sv() ==> (#[trigger] w2.instance.contains_key(k) == w.instance.contains_key(k) && w2.instance[k] == w.instance[k])
}

pub proof fn lemma_ug_step(w: World)
    ensures
        //@@ C16:lemma.migration_flag_step
        is_migrating(enable_post(w)), !is_migrating(complete_post(w)),
        ug_frame(w, enable_post(w)), ug_frame(w, complete_post(w)),
{
    broadcast use sdk_store;
}

// ---- histories ----
/// steps of a contract deriving `UpgradeableMigratable`:
///  * `Upgrade`            — `upgrade`: enable_migration (the wasm swap does not touch contract storage);
///  * `Migrate { w1 }`     — `migrate`: ensure_can_complete_migration, then the contract's own `_migrate`
///                           leading to `w1`, then complete_migration;
///  * `Other { w2 }`       — any other entry point.
/// The contract's own code (`_migrate`, other entry points) is assumed not to write the `Migrating`
/// entry (`ug_flag_same`); the library has no other writer (frame obligations of this unit).
pub enum UgOp { Upgrade, Migrate { w1: World }, Other { w2: World } }

pub open spec fn ug_flag_same(w: World, w2: World) -> bool { iget(w2, ug_key()) == iget(w, ug_key()) }
pub open spec fn ug_guard(w: World, op: UgOp) -> bool {
    match op {
        UgOp::Upgrade => true,
        UgOp::Migrate { w1 } => is_migrating(w) && ug_flag_same(w, w1),
        UgOp::Other { w2 } => ug_flag_same(w, w2),
    }
}
pub open spec fn ug_post(w: World, op: UgOp) -> World {
    match op {
        UgOp::Upgrade => enable_post(w),
        UgOp::Migrate { w1 } => complete_post(w1),
        UgOp::Other { w2 } => w2,
    }
}
pub open spec fn ug_run(w0: World, steps: Seq<UgOp>) -> World
    decreases steps.len()
{
    if steps.len() == 0 { w0 } else { ug_post(ug_run(w0, steps.drop_last()), steps.last()) }
}
pub open spec fn ug_valid(w0: World, steps: Seq<UgOp>) -> bool
    decreases steps.len()
{
    steps.len() == 0 || (ug_valid(w0, steps.drop_last()) && ug_guard(ug_run(w0, steps.drop_last()), steps.last()))
}
/// "an upgrade happened since the last completed migration": the last Upgrade/Migrate step is an Upgrade
pub open spec fn ug_pending(steps: Seq<UgOp>) -> bool
    decreases steps.len()
{
    if steps.len() == 0 { false }
    else if steps.last() is Upgrade { true }
    else if steps.last() is Migrate { false }
    else { ug_pending(steps.drop_last()) }
}
pub open spec fn n_upgrades(steps: Seq<UgOp>) -> int
    decreases steps.len()
{
    if steps.len() == 0 { 0 } else { n_upgrades(steps.drop_last()) + (if steps.last() is Upgrade { 1int } else { 0 }) }
}
pub open spec fn n_migrations(steps: Seq<UgOp>) -> int
    decreases steps.len()
{
    if steps.len() == 0 { 0 } else { n_migrations(steps.drop_last()) + (if steps.last() is Migrate { 1int } else { 0 }) }
}

pub proof fn lemma_ug_op(w: World, op: UgOp)
    requires ug_guard(w, op),
    ensures
        //@@ C16:lemma.flag_set_only_by_enable_cleared_only_by_complete
        is_migrating(ug_post(w, op)) == (if op is Upgrade { true } else if op is Migrate { false } else { is_migrating(w) }),
{
    lemma_ug_step(w);
    match op {
        UgOp::Migrate { w1 } => { lemma_ug_step(w1); }
        _ => {}
    }
}

/// history lemma (C16): from a freshly deployed contract (no migration pending)
///  * the flag is set iff an upgrade happened since the last completed migration;
///  * migrations never outnumber upgrades ("never without one")
pub proof fn lemma_ug_history(w0: World, steps: Seq<UgOp>)
    requires !is_migrating(w0), ug_valid(w0, steps),
    ensures
        //@@ C16:history.migrating_iff_upgrade_since_last_migration
        is_migrating(ug_run(w0, steps)) == ug_pending(steps),
        //@@ C16:history.migrations_never_outnumber_upgrades
        n_migrations(steps) <= n_upgrades(steps),
        ug_pending(steps) ==> n_migrations(steps) < n_upgrades(steps),
    decreases steps.len()
{
    if steps.len() != 0 {
        lemma_ug_history(w0, steps.drop_last());
        lemma_ug_op(ug_run(w0, steps.drop_last()), steps.last());
    }
}

/// a migration completes only if an upgrade happened since the previous completion, and at most once
/// per upgrade: right after a Migrate step a second Migrate is not a valid step
pub proof fn lemma_ug_migrate_needs_upgrade(w0: World, steps: Seq<UgOp>, i: int)
    requires !is_migrating(w0), ug_valid(w0, steps), 0 <= i < steps.len(), steps[i] is Migrate,
    ensures
        //@@ C16:history.complete_only_after_enable_since_last_completion
        ug_pending(steps.take(i)),
        //@@ C16:history.migration_completes_once_per_upgrade
        !ug_pending(steps.take(i + 1)),
        i + 1 < steps.len() ==> !(steps[i + 1] is Migrate),
    decreases steps.len()
{
    if i == steps.len() - 1 {
        assert(steps.take(i) =~= steps.drop_last());
        assert(steps.take(i + 1) =~= steps);
        lemma_ug_history(w0, steps.drop_last());
    } else {
        assert(steps.drop_last().take(i) =~= steps.take(i));
        assert(steps.drop_last().take(i + 1) =~= steps.take(i + 1));
        lemma_ug_migrate_needs_upgrade(w0, steps.drop_last(), i);
        if i + 1 == steps.len() - 1 {
            // the step right after the migration: its guard would need the flag, which is clear
            assert(steps.take(i + 1) =~= steps.drop_last());
            lemma_ug_history(w0, steps.drop_last());
        }
    }
}

// ---- non-vacuity: the hypotheses of the history lemmas are satisfiable ----
pub proof fn lemma_ug_push(w0: World, steps: Seq<UgOp>, op: UgOp)
    requires ug_valid(w0, steps), ug_guard(ug_run(w0, steps), op),
    ensures ug_valid(w0, steps.push(op)), ug_run(w0, steps.push(op)) == ug_post(ug_run(w0, steps), op),
{
    assert(steps.push(op).drop_last() =~= steps);
}
/// upgrade; migrate — is a valid history from any state without a pending migration, and a second
/// migrate right after it is not
pub proof fn lemma_ug_witness(w0: World)
    requires !is_migrating(w0),
    ensures
        //@@ C16:witness.upgrade_then_migrate_once
        ug_valid(w0, seq![UgOp::Upgrade, UgOp::Migrate { w1: enable_post(w0) }]),
        !ug_valid(w0, seq![UgOp::Upgrade, UgOp::Migrate { w1: enable_post(w0) }, UgOp::Migrate { w1: complete_post(enable_post(w0)) }]),
        !ug_valid(w0, seq![UgOp::Migrate { w1: w0 }]),
{
    let s0 = Seq::<UgOp>::empty();
    let m = UgOp::Migrate { w1: enable_post(w0) };
    lemma_ug_push(w0, s0, UgOp::Upgrade);
    lemma_ug_step(w0);
    let s1 = s0.push(UgOp::Upgrade);
    lemma_ug_push(w0, s1, m);
    let s2 = s1.push(m);
    assert(s2 =~= seq![UgOp::Upgrade, m]);
    lemma_ug_step(enable_post(w0));
    let m2 = UgOp::Migrate { w1: complete_post(enable_post(w0)) };
    let s3 = seq![UgOp::Upgrade, m, m2];
    assert(s3.drop_last() =~= s2);
    assert(!ug_guard(ug_run(w0, s2), m2));
    let t = seq![UgOp::Migrate { w1: w0 }];
    assert(t.drop_last() =~= s0);
    assert(!ug_guard(ug_run(w0, s0), t.last()));
}
