// ---- strict flavour (pass B) of unit `policy_spending` (C14, converse direction "can_enforce agrees with whether enforce
// ---- would succeed"): EVERY contract error (NotAllowed, SpendingLimitExceeded, HistoryCapacityExceeded,
// ---- SmartAccountNotInstalled, ...) is a proof obligation (`sdk_panic_strict requires false`), a diverging closure gets
// ---- `requires false`, arithmetic is native (i128 / u32 overflow = obligation).  `require_auth` is modelled as returning:
// ---- its refusal is the one legitimate way for `enforce` not to return in a state where `can_enforce` says yes.
#[verifier::external_body]
pub fn sdk_panic_strict(code: u32) -> !
    requires false
{ panic!() }
macro_rules! panic_with_error {
    ($e:expr, $err:expr) => { sdk_panic_strict($err as u32) };
}

/// every recorded amount is non-negative (the property's own quantifier)
pub open spec fn sl_nonneg(h: Seq<SpendingEntry>) -> bool {
    forall|i: int| 0 <= i < h.len() ==> (#[trigger] h[i]).amount >= 0
}
/// the part of the representation invariant `inv_sl` the arithmetic needs: recorded amounts are non-negative and the
/// cached total covers their sum (`inv_sl` has equality) — so no partial sum of recorded amounts can leave i128
pub open spec fn sl_sums_ok(d: SpendingLimitData) -> bool {
    sl_nonneg(d.spending_history@) && amt_sum(d.spending_history@) <= d.cached_total_spent
}
/// the domain of the strict contracts is implied by the representation invariant, which holds in every state reachable
/// from `install` (C14:spending.history.invariant of unit policy_spending)
pub proof fn lemma_inv_sl_sums_ok(d: SpendingLimitData, now: u32)
    requires inv_sl(d, now),
    ensures
        //@@ C14:spending.strict.domain_is_invariant
        sl_sums_ok(d),
{
}
pub proof fn lemma_nonneg_skip(h: Seq<SpendingEntry>, k: int)
    requires sl_nonneg(h), 0 <= k <= h.len(),
    ensures sl_nonneg(h.skip(k)),
{
    assert forall|i: int| 0 <= i < h.skip(k).len() implies (#[trigger] h.skip(k)[i]).amount >= 0 by {
        assert(h.skip(k)[i] == h[i + k]);
    }
}
/// with non-negative amounts, what eviction removes lies between 0 and the sum of the whole history
pub proof fn lemma_removed_bounds(h: Seq<SpendingEntry>, c: u32)
    requires sl_nonneg(h),
    ensures
        //@@ C14:spending.strict.removed_bounds
        0 <= sl_removed(h, c) <= amt_sum(h),
    decreases h.len()
{
    if h.len() > 0 {
        assert(h[0].amount >= 0);
        lemma_nonneg_skip(h, 1);
        assert(h.skip(1) =~= h.drop_first());
        lemma_removed_bounds(h.drop_first(), c);
    }
}
