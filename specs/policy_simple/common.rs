// ---- shared by the three policy units (C14): world transformers for authorization and events ----
