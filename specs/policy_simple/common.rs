// ---- shared by the three policy units (C14): world transformers for authorization and events ----
pub open spec fn w_auth(w: World, a: Address) -> World { World { auths: w.auths.insert(a), ..w } }
pub open spec fn w_event(w: World, ev: SV) -> World { World { events: w.events.push(ev), ..w } }
