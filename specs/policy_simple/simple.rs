// =================================================================================================
// spec pack `policy_simple` — packages/accounts/src/policies/simple_threshold.rs (C14)
// =================================================================================================

// ---- abstract view: the configured threshold of (smart account, context rule id) ----
pub open spec fn st_key(a: Address, id: u32) -> SimpleThresholdStorageKey { SimpleThresholdStorageKey::AccountContext(a, id) }
pub open spec fn st_threshold(w: World, a: Address, id: u32) -> Option<u32> { dec::<u32>(pget(w, st_key(a, id))) }
pub open spec fn st_installed(w: World, a: Address, id: u32) -> bool { st_threshold(w, a, id).is_some() }

/// C14 (simple threshold): the policy accepts exactly when it is installed for (account, rule) and the
/// number of authenticated signers reaches the configured threshold
pub open spec fn st_accepts(w: World, a: Address, id: u32, n_signers: nat) -> bool {
    st_installed(w, a, id) && n_signers >= st_threshold(w, a, id).unwrap()
}

/// C14: a threshold is admissible for a rule iff it is neither zero nor above the number of rule signers
pub open spec fn st_valid_threshold(t: u32, rule: ContextRule) -> bool { t != 0 && t <= rule.signers@.len() }

// ---- exact successor states ----
pub open spec fn st_set_post(w: World, t: u32, a: Address, id: u32) -> World { pset(w, st_key(a, id), t.sv()) }
pub open spec fn st_enforce_post(w: World, ctx: Context, signers: Vec<Signer>, id: u32, a: Address) -> World {
    w_event(w_auth(w, a), SimplePolicyEnforced { smart_account: a, context: ctx, context_rule_id: id, authenticated_signers: signers }.ev())
}
pub open spec fn st_uninstall_post(w: World, a: Address, id: u32) -> World { pdel(w_auth(w, a), st_key(a, id)) }

// ---- property lemmas over the successor states ----

/// everything except the persistent store and the authorization set is unchanged by a configuration change
pub open spec fn st_cfg_frame(w: World, w2: World, a: Address) -> bool {
    w2 == (World { persistent: w2.persistent, auths: w.auths.insert(a), ..w })
}

/// install / set_threshold: afterwards the stored threshold is the requested one, it is admissible,
/// every other (account, rule) is untouched, and the account's authorization was required
pub proof fn lemma_st_configure(w: World, t: u32, rule: ContextRule, a: Address)
    requires st_valid_threshold(t, rule),
    ensures
        //@@ C14:simple.configure.effect
        st_threshold(st_set_post(w_auth(w, a), t, a, rule.id), a, rule.id) == Some(t),
        forall|a2: Address, id2: u32| (a2 != a || id2 != rule.id) ==>
            #[trigger] st_threshold(st_set_post(w_auth(w, a), t, a, rule.id), a2, id2) == st_threshold(w, a2, id2),
        st_cfg_frame(w, st_set_post(w_auth(w, a), t, a, rule.id), a),
        //@@ C14:simple.configure.reachable
        st_accepts(st_set_post(w_auth(w, a), t, a, rule.id), a, rule.id, rule.signers@.len()),
        !st_accepts(st_set_post(w_auth(w, a), t, a, rule.id), a, rule.id, 0),
{
    broadcast use sdk_store;
}

/// uninstall: afterwards the policy accepts nothing for (account, rule); other pairs untouched
pub proof fn lemma_st_uninstall(w: World, a: Address, id: u32)
    ensures
        //@@ C14:simple.uninstall.effect
        !st_installed(st_uninstall_post(w, a, id), a, id),
        forall|n: nat| !#[trigger] st_accepts(st_uninstall_post(w, a, id), a, id, n),
        forall|a2: Address, id2: u32| (a2 != a || id2 != id) ==>
            #[trigger] st_threshold(st_uninstall_post(w, a, id), a2, id2) == st_threshold(w, a2, id2),
        st_cfg_frame(w, st_uninstall_post(w, a, id), a),
{
    broadcast use sdk_store;
}

/// enforce changes no storage at all: it only records the authorization and one event, so
/// can_enforce gives the same answer before and after (a successful attempt leaves no *policy* state)
pub proof fn lemma_st_enforce_frame(w: World, ctx: Context, signers: Vec<Signer>, id: u32, a: Address)
    ensures
        //@@ C14:simple.enforce.frame
        st_enforce_post(w, ctx, signers, id, a).same_storage(w),
        st_enforce_post(w, ctx, signers, id, a).auths == w.auths.insert(a),
        st_enforce_post(w, ctx, signers, id, a).events.len() == w.events.len() + 1,
        forall|a2: Address, id2: u32, n: nat| #[trigger] st_accepts(st_enforce_post(w, ctx, signers, id, a), a2, id2, n) == st_accepts(w, a2, id2, n),
{
}
