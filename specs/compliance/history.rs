// history
