// =================================================================================================
// compliance, history layer (C20): after any sequence of accepted add_module_to / remove_module_from calls on a fresh
// contract, every query (get_modules_for_hook, is_module_registered) answers as the abstract map hook -> set of modules
// obtained by folding the edits
// =================================================================================================
pub enum CmpOp { Add { h: ComplianceHook, m: Address }, Remove { h: ComplianceHook, m: Address } }
pub open spec fn cmp_guard(w: World, op: CmpOp) -> bool {
    match op { CmpOp::Add { h, m } => add_mod_guard(w, h, m), CmpOp::Remove { h, m } => remove_mod_guard(w, h, m) }
}
pub open spec fn cmp_post(w: World, op: CmpOp) -> World {
    match op { CmpOp::Add { h, m } => add_mod_post(w, h, m), CmpOp::Remove { h, m } => remove_mod_post(w, h, m) }
}
pub open spec fn cmp_run(w0: World, steps: Seq<CmpOp>) -> World
    decreases steps.len()
{
    if steps.len() == 0 { w0 } else { cmp_post(cmp_run(w0, steps.drop_last()), steps.last()) }
}
pub open spec fn cmp_valid(w0: World, steps: Seq<CmpOp>) -> bool
    decreases steps.len()
{
    steps.len() == 0 || (cmp_valid(w0, steps.drop_last()) && cmp_guard(cmp_run(w0, steps.drop_last()), steps.last()))
}

// ---- the reference model: a map hook -> set of modules (absent hook = empty set) ----
pub open spec fn abs_mods(a: Map<ComplianceHook, Set<Address>>, h: ComplianceHook) -> Set<Address> {
    if a.contains_key(h) { a[h] } else { Set::empty() }
}
pub open spec fn cmp_abs_step(a: Map<ComplianceHook, Set<Address>>, op: CmpOp) -> Map<ComplianceHook, Set<Address>> {
    match op {
        CmpOp::Add { h, m } => a.insert(h, abs_mods(a, h).insert(m)),
        CmpOp::Remove { h, m } => a.insert(h, abs_mods(a, h).remove(m)),
    }
}
/// when the reference model accepts an edit: no duplicate, room below the documented limit, nothing absent is removed
pub open spec fn cmp_abs_ok(a: Map<ComplianceHook, Set<Address>>, op: CmpOp) -> bool {
    match op {
        CmpOp::Add { h, m } => !abs_mods(a, h).contains(m) && abs_mods(a, h).len() < 20,
        CmpOp::Remove { h, m } => abs_mods(a, h).contains(m),
    }
}
pub open spec fn cmp_abs_run(steps: Seq<CmpOp>) -> Map<ComplianceHook, Set<Address>>
    decreases steps.len()
{
    if steps.len() == 0 { Map::empty() } else { cmp_abs_step(cmp_abs_run(steps.drop_last()), steps.last()) }
}
pub open spec fn cmp_abs_valid(steps: Seq<CmpOp>) -> bool
    decreases steps.len()
{
    steps.len() == 0 || (cmp_abs_valid(steps.drop_last()) && cmp_abs_ok(cmp_abs_run(steps.drop_last()), steps.last()))
}
/// every query answers as the reference model: membership, and the list is an enumeration of the set (same size)
pub open spec fn cmp_abs_is(w: World, a: Map<ComplianceHook, Set<Address>>) -> bool {
    &&& forall|h: ComplianceHook, x: Address| #[trigger] is_reg(w, h, x) <==> abs_mods(a, h).contains(x)
    &&& forall|h: ComplianceHook| (#[trigger] hmods(w, h)).len() == abs_mods(a, h).len()
}
/// a freshly deployed contract: no registry entry
pub open spec fn cmp_genesis(w: World) -> bool { forall|h: ComplianceHook| (#[trigger] pget(w, k_hook(h))).is_none() }

/// one edit: invariant kept, the reference model followed, and the code accepts the edit exactly when the reference does
pub proof fn lemma_cmp_step(w: World, op: CmpOp, a: Map<ComplianceHook, Set<Address>>)
    requires inv_cmp(w), cmp_abs_is(w, a),
    ensures
        //@@ C20:compliance.step.accepted_exactly_when_reference_accepts
        cmp_guard(w, op) <==> cmp_abs_ok(a, op),
        //@@ C20:compliance.step.invariant
        cmp_guard(w, op) ==> inv_cmp(cmp_post(w, op)),
        //@@ C20:compliance.step.edit_is_abstract_operation
        cmp_guard(w, op) ==> cmp_abs_is(cmp_post(w, op), cmp_abs_step(a, op)),
{
    let w2 = cmp_post(w, op);
    let a2 = cmp_abs_step(a, op);
    match op {
        CmpOp::Add { h, m } => {
            assert(is_reg(w, h, m) <==> abs_mods(a, h).contains(m));
            assert(hmods(w, h).len() == abs_mods(a, h).len());
            if add_mod_guard(w, h, m) {
                lemma_add_module(w, h, m);
                assert forall|h2: ComplianceHook, x: Address| #[trigger] is_reg(w2, h2, x) <==> abs_mods(a2, h2).contains(x) by {
                    if h2 == h { assert(is_reg(w2, h, x) <==> (is_reg(w, h, x) || x == m)); } else { assert(hmods_opt(w2, h2) == hmods_opt(w, h2)); assert(is_reg(w2, h2, x) == is_reg(w, h2, x)); }
                }
                assert forall|h2: ComplianceHook| (#[trigger] hmods(w2, h2)).len() == abs_mods(a2, h2).len() by {
                    if h2 == h { } else { assert(hmods_opt(w2, h2) == hmods_opt(w, h2)); assert(hmods(w, h2).len() == abs_mods(a, h2).len()); }
                }
            }
        }
        CmpOp::Remove { h, m } => {
            assert(is_reg(w, h, m) <==> abs_mods(a, h).contains(m));
            if remove_mod_guard(w, h, m) {
                lemma_remove_module(w, h, m);
                assert(hmods(w, h).len() == abs_mods(a, h).len());
                assert forall|h2: ComplianceHook, x: Address| #[trigger] is_reg(w2, h2, x) <==> abs_mods(a2, h2).contains(x) by {
                    if h2 == h { assert(is_reg(w2, h, x) <==> (is_reg(w, h, x) && x != m)); } else { assert(hmods_opt(w2, h2) == hmods_opt(w, h2)); assert(is_reg(w2, h2, x) == is_reg(w, h2, x)); }
                }
                assert forall|h2: ComplianceHook| (#[trigger] hmods(w2, h2)).len() == abs_mods(a2, h2).len() by {
                    if h2 == h { } else { assert(hmods_opt(w2, h2) == hmods_opt(w, h2)); assert(hmods(w, h2).len() == abs_mods(a, h2).len()); }
                }
            }
        }
    }
}

pub proof fn lemma_cmp_history(w0: World, steps: Seq<CmpOp>)
    requires cmp_genesis(w0), cmp_valid(w0, steps),
    ensures
        //@@ C20:compliance.history.invariant
        inv_cmp(cmp_run(w0, steps)),
        //@@ C20:compliance.history.queries_answer_as_folded_map
        cmp_abs_is(cmp_run(w0, steps), cmp_abs_run(steps)),
        //@@ C20:compliance.history.accepted_edits_are_accepted_by_the_reference
        cmp_abs_valid(steps),
    decreases steps.len()
{
    if steps.len() == 0 {
        assert forall|h: ComplianceHook| (#[trigger] hmods(w0, h)) =~= Seq::<Address>::empty() by { assert(pget(w0, k_hook(h)).is_none()); }
        assert forall|h: ComplianceHook, x: Address| !(#[trigger] is_reg(w0, h, x)) by { assert(hmods(w0, h) =~= Seq::<Address>::empty()); }
    } else {
        let pre = steps.drop_last();
        lemma_cmp_history(w0, pre);
        lemma_cmp_step(cmp_run(w0, pre), steps.last(), cmp_abs_run(pre));
    }
}

/// an edit the code would refuse has no effect on the history (it does not return, the transaction is rolled back): a
/// duplicate add or the removal of an absent module can therefore never be part of a valid history
pub proof fn lemma_cmp_refusals(w0: World, steps: Seq<CmpOp>, h: ComplianceHook, m: Address)
    requires cmp_genesis(w0), cmp_valid(w0, steps),
    ensures
        //@@ C20:compliance.history.duplicate_add_and_absent_remove_refused
        cmp_abs_mods_has(steps, h, m) ==> !cmp_valid(w0, steps.push(CmpOp::Add { h, m })),
        !cmp_abs_mods_has(steps, h, m) ==> !cmp_valid(w0, steps.push(CmpOp::Remove { h, m })),
        //@@ C20:compliance.history.limit_enforced_exactly
        !cmp_abs_mods_has(steps, h, m) ==> (cmp_valid(w0, steps.push(CmpOp::Add { h, m })) <==> abs_mods(cmp_abs_run(steps), h).len() < 20),
{
    lemma_cmp_history(w0, steps);
    let w = cmp_run(w0, steps);
    let a = cmp_abs_run(steps);
    lemma_cmp_step(w, CmpOp::Add { h, m }, a);
    lemma_cmp_step(w, CmpOp::Remove { h, m }, a);
    assert(steps.push(CmpOp::Add { h, m }).drop_last() =~= steps);
    assert(steps.push(CmpOp::Remove { h, m }).drop_last() =~= steps);
}
pub open spec fn cmp_abs_mods_has(steps: Seq<CmpOp>, h: ComplianceHook, m: Address) -> bool { abs_mods(cmp_abs_run(steps), h).contains(m) }
