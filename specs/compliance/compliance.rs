// =================================================================================================
// spec pack `compliance` — RWA modular compliance: per hook type a list of module contracts (C20), and the hook
// dispatchers that call every registered module of a hook (C04 + C20)
//   HookModules(hook): Vec<Address>      (hook in Transferred | Created | Destroyed | CanTransfer | CanCreate)
// (`vaddr`, `scan_bound`, `first_bucket`, `bkt` come from the borrowed ../token_binder/binder.rs)
// =================================================================================================
pub open spec fn k_hook(h: ComplianceHook) -> ComplianceDataKey { ComplianceDataKey::HookModules(h) }

/// the stored module list of a hook (None: no entry)
pub open spec fn hmods_opt(w: World, h: ComplianceHook) -> Option<Seq<Address>> {
    match dec::<Vec<Address>>(pget(w, k_hook(h))) { Some(v) => Some(v@), None => None }
}
/// the module list of a hook, in storage (= registration) order
pub open spec fn hmods(w: World, h: ComplianceHook) -> Seq<Address> { match hmods_opt(w, h) { Some(s) => s, None => Seq::empty() } }
/// the registry as a set per hook
pub open spec fn is_reg(w: World, h: ComplianceHook, m: Address) -> bool { hmods(w, h).contains(m) }

/// C20 representation invariant: per hook type the list is duplicate-free and within the documented limit
pub open spec fn inv_cmp(w: World) -> bool {
    forall|h: ComplianceHook| (#[trigger] hmods(w, h)).no_duplicates() && hmods(w, h).len() <= MAX_MODULES
}

// ---- exact successor states of the edits ----
pub open spec fn add_mod_guard(w: World, h: ComplianceHook, m: Address) -> bool { !is_reg(w, h, m) && hmods(w, h).len() < MAX_MODULES }
pub open spec fn add_mod_core(w: World, h: ComplianceHook, m: Address) -> World { pset(w, k_hook(h), vaddr(hmods(w, h).push(m)).sv()) }
pub open spec fn add_mod_post(w: World, h: ComplianceHook, m: Address) -> World {
    w_event(add_mod_core(w, h, m), ModuleAdded { hook: h, module: m }.ev())
}
pub open spec fn remove_mod_guard(w: World, h: ComplianceHook, m: Address) -> bool { is_reg(w, h, m) }
pub open spec fn remove_mod_core(w: World, h: ComplianceHook, m: Address) -> World { pset(w, k_hook(h), vaddr(seq_del(hmods(w, h), m)).sv()) }
pub open spec fn remove_mod_post(w: World, h: ComplianceHook, m: Address) -> World {
    w_event(remove_mod_core(w, h, m), ModuleRemoved { hook: h, module: m }.ev())
}

// ---- the dispatchers: what the call log must look like ----
pub open spec fn mod_call(m: Address, func: int, args: Seq<SV>, ret: SV) -> Call { Call { callee: m, func: func, args: args, ret: ret, ok: true } }
/// one call per module of `ms`, in list order, same function and arguments, nothing returned
pub open spec fn void_calls(ms: Seq<Address>, func: int, args: Seq<SV>) -> Seq<Call> {
    Seq::new(ms.len(), |k: int| mod_call(ms[k], func, args, SV::Void))
}
/// exact successor state of a notification hook: only the call log grows (by `void_calls`); the state of other
/// contracts (`ext`) is whatever the modules made of it
pub open spec fn notify_post(w: World, w2: World, ms: Seq<Address>, func: int, args: Seq<SV>) -> bool {
    w2 == (World { calls: w.calls + void_calls(ms, func, args), ext: w2.ext, ..w })
}
/// the call log of a checking hook (can_transfer / can_create) that asked the first `n` modules of `ms` and answered `r`
pub open spec fn ask_log(c0: Seq<Call>, c2: Seq<Call>, ms: Seq<Address>, func: int, args: Seq<SV>, n: int, r: bool) -> bool {
    &&& 0 <= n <= ms.len()
    &&& c2.len() == c0.len() + n
    &&& c2.take(c0.len() as int) =~= c0
    // module k is asked as the k-th call: once, in list order, with the given arguments
    &&& forall|k: int| 0 <= k < n ==> (#[trigger] c2[c0.len() + k]).callee == ms[k] && c2[c0.len() + k].func == func
            && c2[c0.len() + k].args == args && c2[c0.len() + k].ok
    &&& forall|k: int| 0 <= k < n ==> (#[trigger] c2[c0.len() + k]).ret == SV::Bool(true) || c2[c0.len() + k].ret == SV::Bool(false)
    // every module before the last one asked said yes; asking stops early only on a no
    &&& forall|k: int| 0 <= k < n - 1 ==> (#[trigger] c2[c0.len() + k]).ret == SV::Bool(true)
    &&& n < ms.len() ==> n > 0 && c2[c0.len() + n - 1].ret == SV::Bool(false)
    // the answer is the conjunction of the module answers
    &&& r == (forall|k: int| 0 <= k < n ==> (#[trigger] c2[c0.len() + k]).ret == SV::Bool(true))
}
pub open spec fn ask_post(w: World, w2: World, ms: Seq<Address>, func: int, args: Seq<SV>, r: bool) -> bool {
    &&& w2 == (World { calls: w2.calls, ext: w2.ext, ..w })
    &&& ask_log(w.calls, w2.calls, ms, func, args, w2.calls.len() - w.calls.len(), r)
}

pub open spec fn args_transfer(from: Address, to: Address, amount: i128, token: Address) -> Seq<SV> { seq![from.sv(), to.sv(), amount.sv(), token.sv()] }
pub open spec fn args_mint_burn(who: Address, amount: i128, token: Address) -> Seq<SV> { seq![who.sv(), amount.sv(), token.sv()] }

/// the bound-token scan reads the persistent store only
pub proof fn lemma_first_bucket_frame(w: World, w2: World, t: Address, n: int)
    requires w.persistent == w2.persistent,
    ensures first_bucket(w, t, n) == first_bucket(w2, t, n),
    decreases n
{
    if n > 0 {
        lemma_first_bucket_frame(w, w2, t, n - 1);
        assert(bkt(w, (n - 1) as u32) == bkt(w2, (n - 1) as u32));
    }
}
pub proof fn lemma_scan_bound_frame(w: World, w2: World, t: Address)
    requires w.persistent == w2.persistent,
    ensures scan_bound(w, t) == scan_bound(w2, t),
{
    assert(bcount(w) == bcount(w2));
    lemma_first_bucket_frame(w, w2, t, nbuckets(w));
}
pub proof fn lemma_void_calls_step(ms: Seq<Address>, i: int, func: int, args: Seq<SV>)
    requires 0 <= i < ms.len(),
    ensures void_calls(ms.take(i + 1), func, args) =~= void_calls(ms.take(i), func, args).push(mod_call(ms[i], func, args, SV::Void)),
{}
