// =================================================================================================
// compliance, lemma layer (C20): each edit is the abstract set operation on that hook's module set
// =================================================================================================

/// reading the module lists after a write to hook `h`
pub proof fn lemma_hmods_pset(w: World, h: ComplianceHook, s: Seq<Address>)
    ensures
        hmods(pset(w, k_hook(h), vaddr(s).sv()), h) =~= s,
        forall|h2: ComplianceHook| h2 != h ==> #[trigger] hmods_opt(pset(w, k_hook(h), vaddr(s).sv()), h2) == hmods_opt(w, h2),
{
    broadcast use sdk_store;
    let w2 = pset(w, k_hook(h), vaddr(s).sv());
    vaddr(s).lemma_rt();
    assert(dec::<Vec<Address>>(pget(w2, k_hook(h))) == Some(vaddr(s)));
    assert forall|h2: ComplianceHook| h2 != h implies #[trigger] hmods_opt(w2, h2) == hmods_opt(w, h2) by {
        assert(k_hook(h2) != k_hook(h));
        assert(pget(w2, k_hook(h2)) == pget(w, k_hook(h2)));
    }
}

/// add_module_to = set insertion on that hook; duplicates are refused; the limit holds exactly; other hooks untouched
pub proof fn lemma_add_module(w: World, h: ComplianceHook, m: Address)
    requires inv_cmp(w), add_mod_guard(w, h, m),
    ensures
        //@@ C20:compliance.lemma.add.invariant
        inv_cmp(add_mod_post(w, h, m)),
        //@@ C20:compliance.lemma.add.is_set_insert
        forall|x: Address| #[trigger] is_reg(add_mod_post(w, h, m), h, x) <==> (is_reg(w, h, x) || x == m),
        hmods(add_mod_post(w, h, m), h) =~= hmods(w, h).push(m),
        //@@ C20:compliance.lemma.add.other_hooks_untouched
        forall|h2: ComplianceHook| h2 != h ==> #[trigger] hmods_opt(add_mod_post(w, h, m), h2) == hmods_opt(w, h2),
{
    let w2 = add_mod_post(w, h, m);
    lemma_hmods_pset(w, h, hmods(w, h).push(m));
    assert forall|h2: ComplianceHook| #[trigger] hmods_opt(w2, h2) == hmods_opt(add_mod_core(w, h, m), h2) by {}
    lemma_push_facts(hmods(w, h), m);
    assert forall|h2: ComplianceHook| (#[trigger] hmods(w2, h2)).no_duplicates() && hmods(w2, h2).len() <= MAX_MODULES by {
        if h2 == h { assert(hmods(w2, h) =~= hmods(w, h).push(m)); } else { assert(hmods_opt(w2, h2) == hmods_opt(w, h2)); assert(hmods(w2, h2) == hmods(w, h2)); }
    }
}
/// when add_module_to refuses: exactly for a duplicate or at the documented limit
pub proof fn lemma_add_refused(w: World, h: ComplianceHook, m: Address)
    ensures
        //@@ C20:compliance.lemma.add.refused_exactly_for_duplicate_or_full
        !add_mod_guard(w, h, m) <==> (is_reg(w, h, m) || hmods(w, h).len() >= 20),
{}

/// remove_module_from = set removal on that hook; absent modules are refused; a removed module is gone (never returns
/// through a leftover duplicate); other hooks untouched
pub proof fn lemma_remove_module(w: World, h: ComplianceHook, m: Address)
    requires inv_cmp(w), remove_mod_guard(w, h, m),
    ensures
        //@@ C20:compliance.lemma.remove.invariant
        inv_cmp(remove_mod_post(w, h, m)),
        //@@ C20:compliance.lemma.remove.is_set_remove
        forall|x: Address| #[trigger] is_reg(remove_mod_post(w, h, m), h, x) <==> (is_reg(w, h, x) && x != m),
        !is_reg(remove_mod_post(w, h, m), h, m),
        hmods(remove_mod_post(w, h, m), h).len() == hmods(w, h).len() - 1,
        //@@ C20:compliance.lemma.remove.other_hooks_untouched
        forall|h2: ComplianceHook| h2 != h ==> #[trigger] hmods_opt(remove_mod_post(w, h, m), h2) == hmods_opt(w, h2),
{
    let w2 = remove_mod_post(w, h, m);
    let s2 = seq_del(hmods(w, h), m);
    lemma_hmods_pset(w, h, s2);
    assert forall|h2: ComplianceHook| #[trigger] hmods_opt(w2, h2) == hmods_opt(remove_mod_core(w, h, m), h2) by {}
    lemma_del_facts(hmods(w, h), m);
    assert(hmods(w2, h) =~= s2);
    assert forall|h2: ComplianceHook| (#[trigger] hmods(w2, h2)).no_duplicates() && hmods(w2, h2).len() <= MAX_MODULES by {
        if h2 == h { } else { assert(hmods_opt(w2, h2) == hmods_opt(w, h2)); assert(hmods(w2, h2) == hmods(w, h2)); }
    }
}

/// the dispatchers and getters do not edit the registry: a world that differs only in call log / ext / auths has the same lists
pub proof fn lemma_notify_keeps_registry(w: World, w2: World, ms: Seq<Address>, func: int, args: Seq<SV>, h: ComplianceHook)
    requires notify_post(w, w2, ms, func, args),
    ensures
        //@@ C20:compliance.lemma.dispatch_keeps_registry
        hmods_opt(w2, h) == hmods_opt(w, h),
{}

/// the call log of a notification hook: as many calls as registered modules, the k-th to the k-th module; on a
/// duplicate-free list (invariant) every registered module is called exactly once
pub proof fn lemma_notify_each_once(w: World, w2: World, ms: Seq<Address>, func: int, args: Seq<SV>)
    requires notify_post(w, w2, ms, func, args), ms.no_duplicates(),
    ensures
        //@@ C04+C20:compliance.lemma.notify.each_registered_module_exactly_once
        w2.calls.len() == w.calls.len() + ms.len(),
        forall|k: int| 0 <= k < ms.len() ==> #[trigger] w2.calls[w.calls.len() + k] == mod_call(ms[k], func, args, SV::Void),
        forall|j: int, k: int| 0 <= j < ms.len() && 0 <= k < ms.len() && j != k ==> (#[trigger] w2.calls[w.calls.len() + j]).callee != (#[trigger] w2.calls[w.calls.len() + k]).callee,
        forall|m: Address| ms.contains(m) ==> exists|k: int| 0 <= k < ms.len() && (#[trigger] w2.calls[w.calls.len() + k]).callee == m,
{
    assert forall|k: int| 0 <= k < ms.len() implies #[trigger] w2.calls[w.calls.len() + k] == mod_call(ms[k], func, args, SV::Void) by {
        assert(w2.calls[w.calls.len() + k] == void_calls(ms, func, args)[k]);
    }
    assert forall|m: Address| ms.contains(m) implies exists|k: int| 0 <= k < ms.len() && (#[trigger] w2.calls[w.calls.len() + k]).callee == m by {
        let k = choose|k: int| 0 <= k < ms.len() && ms[k] == m;
        assert(w2.calls[w.calls.len() + k].callee == m);
    }
}

/// a checking hook answers true only if every registered module was asked and said yes, and false only if the
/// last module asked said no
pub proof fn lemma_ask_conjunction(w: World, w2: World, ms: Seq<Address>, func: int, args: Seq<SV>, r: bool)
    requires ask_post(w, w2, ms, func, args, r),
    ensures
        //@@ C04+C20:compliance.lemma.ask.true_means_all_modules_said_yes
        r ==> w2.calls.len() == w.calls.len() + ms.len()
            && forall|k: int| 0 <= k < ms.len() ==> (#[trigger] w2.calls[w.calls.len() + k]).callee == ms[k] && w2.calls[w.calls.len() + k].ret == SV::Bool(true),
        //@@ C04+C20:compliance.lemma.ask.false_means_a_module_said_no
        !r ==> w2.calls.len() > w.calls.len() && w2.calls.last().ret == SV::Bool(false)
            && w2.calls.last().callee == ms[w2.calls.len() - w.calls.len() - 1],
        hmods_opt(w2, ComplianceHook::CanTransfer) == hmods_opt(w, ComplianceHook::CanTransfer),
{
    let n = w2.calls.len() - w.calls.len();
    if r {
        if n < ms.len() { assert(w2.calls[w.calls.len() + (n - 1)].ret == SV::Bool(true)); }
    } else {
        let k = choose|k: int| 0 <= k < n && (#[trigger] w2.calls[w.calls.len() + k]).ret != SV::Bool(true);
        if k < n - 1 { assert(w2.calls[w.calls.len() + k].ret == SV::Bool(true)); }
        assert(w2.calls.last() == w2.calls[w.calls.len() + (n - 1)]);
    }
}
