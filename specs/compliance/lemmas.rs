// lemmas
