// expanded fungible-merkle-airdrop example (C17): claim = distributor claim for the leaf (index, receiver, amount), then one
// token transfer of exactly `amount` from the contract to `receiver`
pub open spec fn airdrop_token(w: World) -> Option<Address> { dec::<Address>(iget(w, DataKey::TokenAddress)) }
pub open spec fn claim_leaf(index: u32, receiver: Address, amount: i128) -> Receiver { Receiver { index: index, address: receiver, amount: amount } }
/// the SEP-41 `transfer(this, receiver, amount)` call appended to the call log
pub open spec fn pay_call(w: World, receiver: Address, amount: i128) -> Call {
    Call { callee: airdrop_token(w).unwrap(), func: fn_transfer(), args: seq![w.this.sv(), receiver.sv(), amount.sv()], ret: SV::Void, ok: true }
}
pub open spec fn claim_post(w: World, w2: World, index: u32, receiver: Address, amount: i128) -> World {
    let w1 = set_claimed_post(w, index);
    World { calls: w1.calls.push(pay_call(w, receiver, amount)), ext: w2.ext, ..w1 }
}
