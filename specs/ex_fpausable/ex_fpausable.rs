// expanded fungible-pausable example (C16): the pause gate injected by `#[when_not_paused]` on every token-moving
// entry point, pause / unpause reserved to the stored owner
pub open spec fn owner_key() -> Symbol { Symbol { code: Ghost(str_code("OWNER"@)) } }
/// the owner the constructor stored under the instance key `OWNER`
pub open spec fn ex_owner(w: World) -> Option<Address> { dec::<Address>(iget(w, owner_key())) }
