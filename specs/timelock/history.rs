// =================================================================================================
// history level of C08: every sequence of schedule / execute / set_execute / cancel / set_min_delay
// / ledger-advance steps, over arbitrarily many operations with arbitrary predecessor links.
//
// EXPLICIT ASSUMPTIONS of this level (C08 quantifier: "at ledger sequences >= 2 (0 and 1 are
// reserved as state sentinels)"):
//   H1  genesis: no operation entry is stored and the ledger sequence is >= 2;
//   H2  the ledger sequence never decreases (Tick);
//   H3  every state change of the module happens through one of the five public functions, whose
//       exact successor states are the `*_post` functions proved on the extracted code
//       (contracts.vspec); a failed call leaves no trace (M6); the external call of
//       execute_operation cannot re-enter (M8).
// `lemma_sentinel_collision_*` below show that H1's "ledger >= 2" is necessary, not a convenience.
// =================================================================================================

pub enum TStep { Op(TOp), Tick { seq: u32, ts: u64 } }

pub open spec fn genesis(w: World) -> bool {
    &&& forall|id: BytesN<32>| #[trigger] op_ledger(w, id) == UNSET_LEDGER
    &&& w.ledger_seq >= 2
}
pub open spec fn step_ok(w: World, st: TStep) -> bool {
    match st { TStep::Op(o) => op_guard(w, o), TStep::Tick { seq, ts } => seq >= w.ledger_seq }
}
pub open spec fn step_post(w: World, st: TStep) -> World {
    match st {
        TStep::Op(o) => op_post(w, o),
        TStep::Tick { seq, ts } => World { ledger_seq: seq, timestamp: ts, auths: Set::empty(), auth_args: Set::empty(), ..w },
    }
}
pub open spec fn run(w0: World, steps: Seq<TStep>) -> World
    decreases steps.len()
{
    if steps.len() == 0 { w0 } else { step_post(run(w0, steps.drop_last()), steps.last()) }
}
pub open spec fn valid(w0: World, steps: Seq<TStep>) -> bool
    decreases steps.len()
{
    steps.len() == 0 || (valid(w0, steps.drop_last()) && step_ok(run(w0, steps.drop_last()), steps.last()))
}

// ---- classification of steps with respect to one operation id ----
pub open spec fn is_schedule(st: TStep, id: BytesN<32>) -> bool {
    match st { TStep::Op(TOp::Schedule { op, delay }) => op_id(op) == id, _ => false }
}
pub open spec fn is_exec(st: TStep, id: BytesN<32>) -> bool {
    match st { TStep::Op(TOp::Execute { op, ret, ext }) => op_id(op) == id, TStep::Op(TOp::SetExecute { op }) => op_id(op) == id, _ => false }
}
pub open spec fn is_cancel(st: TStep, id: BytesN<32>) -> bool {
    match st { TStep::Op(TOp::Cancel { id: i }) => i == id, _ => false }
}
/// the operation executed by an execute step
pub open spec fn exec_op(st: TStep) -> Operation {
    match st { TStep::Op(TOp::Execute { op, ret, ext }) => op, TStep::Op(TOp::SetExecute { op }) => op, _ => arbitrary() }
}
pub open spec fn sched_delay(st: TStep) -> u32 {
    match st { TStep::Op(TOp::Schedule { op, delay }) => delay, _ => 0 }
}

// ---- bookkeeping over the history, per operation id ----
/// how often `id` was executed in the whole history
pub open spec fn exec_count(steps: Seq<TStep>, id: BytesN<32>) -> nat
    decreases steps.len()
{
    if steps.len() == 0 { 0 } else { exec_count(steps.drop_last(), id) + (if is_exec(steps.last(), id) { 1nat } else { 0nat }) }
}
pub struct Life {
    /// a Schedule step for this id happened and no Cancel of it since
    pub scheduled: bool,
    /// index of that Schedule step, the ledger at which it ran, its delay, the minimum delay in force then
    pub idx: int,
    pub at: u32,
    pub delay: u32,
    pub min_at: Option<u32>,
    /// an execute step for this id has happened (sticky)
    pub done: bool,
}
pub open spec fn life0() -> Life { Life { scheduled: false, idx: 0, at: 0, delay: 0, min_at: None, done: false } }
pub open spec fn life_step(l: Life, wp: World, n: int, st: TStep, id: BytesN<32>) -> Life {
    if is_schedule(st, id) { Life { scheduled: true, idx: n, at: wp.ledger_seq, delay: sched_delay(st), min_at: cur_min_delay(wp), done: l.done } }
    else if is_exec(st, id) { Life { done: true, ..l } }
    else if is_cancel(st, id) { Life { scheduled: false, ..l } }
    else { l }
}
pub open spec fn life(w0: World, steps: Seq<TStep>, id: BytesN<32>) -> Life
    decreases steps.len()
{
    if steps.len() == 0 { life0() } else {
        life_step(life(w0, steps.drop_last(), id), run(w0, steps.drop_last()), steps.len() - 1, steps.last(), id)
    }
}

/// representation invariant: what storage holds for `id` is exactly what the history says
pub open spec fn linv(w: World, l: Life, cnt: nat, id: BytesN<32>) -> bool {
    &&& w.ledger_seq >= 2
    &&& (op_ledger(w, id) == UNSET_LEDGER <==> !l.scheduled)
    &&& l.done ==> l.scheduled && op_ledger(w, id) == DONE_LEDGER
    &&& cnt == (if l.done { 1nat } else { 0nat })
    &&& l.scheduled && !l.done ==> {
        &&& op_ledger(w, id) == sat_add(l.at, l.delay)
        &&& l.min_at.is_some() && l.delay >= l.min_at.unwrap()
        &&& 2 <= l.at <= w.ledger_seq
    }
}
pub open spec fn linv_at(w0: World, steps: Seq<TStep>, id: BytesN<32>) -> bool {
    linv(run(w0, steps), life(w0, steps, id), exec_count(steps, id), id)
}

/// the view after any step, for every id
pub proof fn lemma_step_view(w: World, st: TStep, id: BytesN<32>)
    ensures
        //@@ C08:lemma.step_view
        op_ledger(step_post(w, st), id) == (
            if is_schedule(st, id) { sat_add(w.ledger_seq, sched_delay(st)) }
            else if is_exec(st, id) { DONE_LEDGER }
            else if is_cancel(st, id) { UNSET_LEDGER }
            else { op_ledger(w, id) }),
        st is Op ==> step_post(w, st).ledger_seq == w.ledger_seq,
        st is Tick ==> step_post(w, st).ledger_seq == st->Tick_seq && cur_min_delay(step_post(w, st)) == cur_min_delay(w),
{
    match st {
        TStep::Op(o) => { lemma_op_view(w, o, id); }
        TStep::Tick { seq, ts } => {
            let w2 = step_post(w, st);
            assert(pget(w2, TimelockStorageKey::OperationLedger(id)) == pget(w, TimelockStorageKey::OperationLedger(id)));
            assert(iget(w2, TimelockStorageKey::MinDelay) == iget(w, TimelockStorageKey::MinDelay));
        }
    }
}

pub proof fn lemma_step_linv(w: World, st: TStep, id: BytesN<32>, l: Life, cnt: nat, n: int)
    requires step_ok(w, st), linv(w, l, cnt, id),
    ensures
        //@@ C08:lemma.step_inv
        linv(step_post(w, st), life_step(l, w, n, st, id), cnt + (if is_exec(st, id) { 1nat } else { 0nat }), id),
{
    lemma_step_view(w, st, id);
}

/// every reachable state satisfies the representation invariant for every id
pub proof fn lemma_history(w0: World, steps: Seq<TStep>)
    requires genesis(w0), valid(w0, steps),
    ensures
        //@@ C08:history.inv
        forall|id: BytesN<32>| #[trigger] linv_at(w0, steps, id),
        run(w0, steps).ledger_seq >= 2,
    decreases steps.len()
{
    if steps.len() == 0 {
        assert forall|id: BytesN<32>| #[trigger] linv_at(w0, steps, id) by {
            assert(op_ledger(w0, id) == UNSET_LEDGER);
        }
    } else {
        let pre = steps.drop_last();
        lemma_history(w0, pre);
        assert forall|id: BytesN<32>| #[trigger] linv_at(w0, steps, id) by {
            assert(linv_at(w0, pre, id));
            lemma_step_linv(run(w0, pre), steps.last(), id, life(w0, pre, id), exec_count(pre, id), steps.len() - 1);
        }
        lemma_step_view(run(w0, pre), steps.last(), arbitrary());
    }
}

// ---- C08: the automaton ----
/// the only moves the reported state of an id can make in one step
pub open spec fn trans_ok(w: World, st: TStep, id: BytesN<32>, s: OperationState, s2: OperationState) -> bool {
    if is_schedule(st, id) {
        // scheduling: Unset -> Waiting; directly Ready only when the ready ledger is not in the future,
        // i.e. delay 0 (needs min delay 0) or the ledger counter is at its maximum (saturation)
        s is Unset && (s2 is Waiting || (s2 is Ready && (sched_delay(st) == 0 || w.ledger_seq == u32::MAX)))
    } else if is_exec(st, id) {
        s is Ready && s2 is Done
    } else if is_cancel(st, id) {
        (s is Waiting || s is Ready) && s2 is Unset
    } else if st is Tick {
        s2 == s || (s is Waiting && s2 is Ready)
    } else {
        s2 == s
    }
}
/// Unset -> Waiting -> Ready -> Done, or back to Unset by cancelling a pending operation
pub open spec fn edge(s: OperationState, s2: OperationState) -> bool {
    ||| s2 == s
    ||| s is Unset && (s2 is Waiting || s2 is Ready)
    ||| s is Waiting && (s2 is Ready || s2 is Unset)
    ||| s is Ready && (s2 is Done || s2 is Unset)
}
pub proof fn lemma_automaton_step(w: World, st: TStep, id: BytesN<32>)
    requires step_ok(w, st), w.ledger_seq >= 2,
    ensures
        //@@ C08:lemma.automaton_step
        trans_ok(w, st, id, op_state(w, id), op_state(step_post(w, st), id)),
        //@@ C08:lemma.automaton_edges
        edge(op_state(w, id), op_state(step_post(w, st), id)),
{
    lemma_step_view(w, st, id);
}
/// along every valid history from genesis, every id moves only along the automaton's edges
pub proof fn lemma_automaton(w0: World, steps: Seq<TStep>, k: int, id: BytesN<32>)
    requires genesis(w0), valid(w0, steps), 0 <= k < steps.len(),
    ensures
        //@@ C08:lemma.automaton
        trans_ok(run(w0, steps.take(k)), steps[k], id, op_state(run(w0, steps.take(k)), id), op_state(run(w0, steps.take(k + 1)), id)),
        edge(op_state(run(w0, steps.take(k)), id), op_state(run(w0, steps.take(k + 1)), id)),
{
    let p = steps.take(k + 1);
    lemma_valid_prefix(w0, steps, k + 1);
    assert(p.drop_last() =~= steps.take(k));
    assert(p.last() == steps[k]);
    lemma_valid_prefix(w0, steps, k);
    lemma_history(w0, steps.take(k));
    lemma_automaton_step(run(w0, steps.take(k)), steps[k], id);
}
pub proof fn lemma_valid_prefix(w0: World, steps: Seq<TStep>, k: int)
    requires valid(w0, steps), 0 <= k <= steps.len(),
    ensures
        //@@ C08:lemma.valid_prefix
        valid(w0, steps.take(k)),
    decreases steps.len()
{
    if k == steps.len() { assert(steps.take(k) =~= steps); }
    else {
        lemma_valid_prefix(w0, steps.drop_last(), k);
        assert(steps.drop_last().take(k) =~= steps.take(k));
    }
}

// ---- C08: Done is absorbing ----
pub proof fn lemma_done_absorbing_step(w: World, st: TStep, id: BytesN<32>)
    requires step_ok(w, st), op_state(w, id) is Done,
    ensures
        //@@ C08:lemma.done_absorbing_step
        op_state(step_post(w, st), id) is Done,
        // a Done operation can be neither re-executed, cancelled nor re-scheduled: such a step cannot succeed
        !is_exec(st, id) && !is_cancel(st, id) && !is_schedule(st, id),
{
    lemma_step_view(w, st, id);
}
pub proof fn lemma_done_forever(w0: World, steps: Seq<TStep>, k: int, id: BytesN<32>)
    requires valid(w0, steps), 0 <= k <= steps.len(), op_state(run(w0, steps.take(k)), id) is Done,
    ensures
        //@@ C08:lemma.done_forever
        op_state(run(w0, steps), id) is Done,
        forall|j: int| k <= j < steps.len() ==> !is_exec(#[trigger] steps[j], id) && !is_cancel(steps[j], id) && !is_schedule(steps[j], id),
    decreases steps.len()
{
    if k == steps.len() { assert(steps.take(k) =~= steps); }
    else {
        let pre = steps.drop_last();
        assert(pre.take(k) =~= steps.take(k));
        lemma_done_forever(w0, pre, k, id);
        lemma_done_absorbing_step(run(w0, pre), steps.last(), id);
        assert forall|j: int| k <= j < steps.len() implies !is_exec(#[trigger] steps[j], id) && !is_cancel(steps[j], id) && !is_schedule(steps[j], id) by {
            if j < steps.len() - 1 { assert(steps[j] == pre[j]); }
        }
    }
}
/// no id is ever executed twice
pub proof fn lemma_at_most_once(w0: World, steps: Seq<TStep>, id: BytesN<32>)
    requires genesis(w0), valid(w0, steps),
    ensures
        //@@ C08:lemma.executed_at_most_once
        exec_count(steps, id) <= 1,
        exec_count(steps, id) == 1 <==> op_state(run(w0, steps), id) is Done,
{
    lemma_history(w0, steps);
    assert(linv_at(w0, steps, id));
}

// ---- C08: what an execution step implies ----
pub proof fn lemma_execute_conditions(w0: World, steps: Seq<TStep>, id: BytesN<32>)
    requires genesis(w0), valid(w0, steps), steps.len() > 0, is_exec(steps.last(), id),
    ensures ({
        let pre = steps.drop_last();
        let wp = run(w0, pre);
        let l = life(w0, pre, id);
        let pred = exec_op(steps.last()).predecessor;
        //@@ C08:lemma.execute_conditions
        // it was scheduled earlier and not cancelled since
        &&& l.scheduled
        // with a delay no smaller than the minimum delay in force at scheduling time
        &&& l.min_at.is_some() && l.delay >= l.min_at.unwrap()
        // the scheduled delay has fully elapsed: now >= ready ledger = schedule ledger + delay (saturating)
        &&& wp.ledger_seq >= sat_add(l.at, l.delay)
        &&& l.at + l.delay <= u32::MAX ==> wp.ledger_seq - l.at >= l.delay
        // its predecessor (if any) has been executed
        &&& (no_pred(pred) || (life(w0, pre, pred).done && exec_count(pre, pred) == 1))
        // it has not been executed before
        &&& !l.done && exec_count(pre, id) == 0
        // execution marks it done
        &&& op_state(run(w0, steps), id) is Done && exec_count(steps, id) == 1
    }),
{
    let pre = steps.drop_last();
    let wp = run(w0, pre);
    let pred = exec_op(steps.last()).predecessor;
    lemma_history(w0, pre);
    lemma_history(w0, steps);
    assert(linv_at(w0, pre, id));
    assert(linv_at(w0, pre, pred));
    assert(linv_at(w0, steps, id));
    assert(set_execute_guard(wp, exec_op(steps.last())));
    lemma_step_view(wp, steps.last(), id);
}

// ---- the bookkeeping record says what the history literally contains (no validity needed) ----
pub proof fn lemma_life_sound(w0: World, steps: Seq<TStep>, id: BytesN<32>)
    ensures ({
        let l = life(w0, steps, id);
        //@@ C08:lemma.life_sound
        &&& l.scheduled ==> {
            &&& 0 <= l.idx < steps.len()
            &&& is_schedule(steps[l.idx], id)
            &&& l.delay == sched_delay(steps[l.idx])
            &&& l.at == run(w0, steps.take(l.idx)).ledger_seq
            &&& l.min_at == cur_min_delay(run(w0, steps.take(l.idx)))
            &&& forall|j: int| l.idx < j < steps.len() ==> !is_cancel(#[trigger] steps[j], id) && !is_schedule(steps[j], id)
        }
        &&& l.done <==> exec_count(steps, id) > 0
        &&& l.done <==> exists|j: int| 0 <= j < steps.len() && is_exec(#[trigger] steps[j], id)
    }),
    decreases steps.len()
{
    if steps.len() > 0 {
        let pre = steps.drop_last();
        let lp = life(w0, pre, id);
        let l = life(w0, steps, id);
        let n = steps.len() - 1;
        lemma_life_sound(w0, pre, id);
        if is_schedule(steps.last(), id) {
            assert(steps.take(n) =~= pre);
        } else if l.scheduled {
            assert(lp.scheduled && l.idx == lp.idx);
            assert(pre.take(l.idx) =~= steps.take(l.idx));
            assert(steps[l.idx] == pre[l.idx]);
            assert forall|j: int| l.idx < j < steps.len() implies !is_cancel(#[trigger] steps[j], id) && !is_schedule(steps[j], id) by {
                if j < n { assert(steps[j] == pre[j]); }
            }
        }
        if l.done {
            if is_exec(steps.last(), id) { assert(is_exec(steps[n], id)); }
            else {
                let j = choose|j: int| 0 <= j < pre.len() && is_exec(#[trigger] pre[j], id);
                assert(is_exec(steps[j], id));
            }
        } else {
            assert forall|j: int| 0 <= j < steps.len() implies !is_exec(#[trigger] steps[j], id) by {
                if j < n { assert(steps[j] == pre[j]); }
            }
        }
    }
}

/// C08 in the property's own words, over the literal history: an execute step at position n implies
/// an earlier Schedule step k for the same id with delay >= the minimum delay in force at k,
/// now >= ledger(k) + delay (saturating), no Cancel / Schedule / Execute of that id in between,
/// and the predecessor (if any) executed earlier.
pub proof fn lemma_c08(w0: World, steps: Seq<TStep>, n: int, id: BytesN<32>)
    requires genesis(w0), valid(w0, steps), 0 <= n < steps.len(), is_exec(steps[n], id),
    ensures
        //@@ C08:lemma.execute_only_after_schedule_delay_predecessor
        exists|k: int| {
            &&& 0 <= k < n && is_schedule(#[trigger] steps[k], id)
            &&& cur_min_delay(run(w0, steps.take(k))).is_some()
            &&& sched_delay(steps[k]) >= cur_min_delay(run(w0, steps.take(k))).unwrap()
            &&& run(w0, steps.take(n)).ledger_seq >= sat_add(run(w0, steps.take(k)).ledger_seq, sched_delay(steps[k]))
            &&& forall|j: int| k < j < n ==> !is_cancel(#[trigger] steps[j], id) && !is_schedule(steps[j], id) && !is_exec(steps[j], id)
        },
        //@@ C08:lemma.predecessor_executed_earlier
        no_pred(exec_op(steps[n]).predecessor) || exists|j: int| 0 <= j < n && is_exec(#[trigger] steps[j], exec_op(steps[n]).predecessor),
        //@@ C08:lemma.never_executed_again
        forall|j: int| 0 <= j < steps.len() && j != n ==> !is_exec(#[trigger] steps[j], id),
{
    let p = steps.take(n + 1);
    let pre = steps.take(n);
    let pred = exec_op(steps[n]).predecessor;
    lemma_valid_prefix(w0, steps, n + 1);
    assert(p.drop_last() =~= pre);
    assert(p.last() == steps[n]);
    lemma_execute_conditions(w0, p, id);
    lemma_life_sound(w0, pre, id);
    lemma_life_sound(w0, pre, pred);
    let l = life(w0, pre, id);
    let k = l.idx;
    assert(pre[k] == steps[k]);
    assert(pre.take(k) =~= steps.take(k));
    assert forall|j: int| k < j < n implies !is_cancel(#[trigger] steps[j], id) && !is_schedule(steps[j], id) && !is_exec(steps[j], id) by {
        assert(steps[j] == pre[j]);
    }
    assert(is_schedule(steps[k], id));
    if !no_pred(pred) {
        let j = choose|j: int| 0 <= j < pre.len() && is_exec(#[trigger] pre[j], pred);
        assert(steps[j] == pre[j]);
        assert(is_exec(steps[j], pred));
    }
    // after step n the id is Done, and Done is absorbing
    assert(op_state(run(w0, p), id) is Done);
    lemma_done_forever(w0, steps, n + 1, id);
    assert forall|j: int| 0 <= j < steps.len() && j != n implies !is_exec(#[trigger] steps[j], id) by {
        if j < n { assert(steps[j] == pre[j]); }
    }
}

// ---- why "ledger >= 2" (H1) is needed: the sentinel encoding collides below it ----
/// at ledger 1 with minimum delay 0, scheduling with delay 0 makes the operation report Done
/// without ever having been executed (stored ready ledger 1 == DONE_LEDGER)
pub proof fn lemma_sentinel_collision_done(w: World, op: Operation)
    requires w.ledger_seq == 1, schedule_guard(w, op, 0),
    ensures
        //@@ C08:note.sentinel_collision_ledger1
        op_state(schedule_post(w, op, 0), op_id(op)) is Done,
{
    lemma_op_view(w, TOp::Schedule { op: op, delay: 0 }, op_id(op));
}
/// at ledger 0, delay 1 does the same; delay 0 leaves the operation Unset although schedule returned
pub proof fn lemma_sentinel_collision_ledger0(w: World, op: Operation)
    requires w.ledger_seq == 0,
    ensures
        //@@ C08:note.sentinel_collision_ledger0
        schedule_guard(w, op, 1) ==> op_state(schedule_post(w, op, 1), op_id(op)) is Done,
        schedule_guard(w, op, 0) ==> op_state(schedule_post(w, op, 0), op_id(op)) is Unset,
{
    lemma_op_view(w, TOp::Schedule { op: op, delay: 1 }, op_id(op));
    lemma_op_view(w, TOp::Schedule { op: op, delay: 0 }, op_id(op));
}

// ---- non-vacuity witnesses ----
pub open spec fn w_empty() -> World {
    World { instance: Map::empty(), persistent: Map::empty(), temporary: Map::empty(), temp_live: Map::empty(), ledger_seq: 2, timestamp: 0,
        max_entry_ttl: 100, min_temp_ttl: 1, network_id: Seq::empty(), this: Address { id: 0 }, auths: Set::empty(), auth_args: Set::empty(),
        self_auths: Seq::empty(), events: Seq::empty(), calls: Seq::empty(), ext: 0 }
}
pub proof fn lemma_genesis_witness()
    ensures
        //@@ C08:lemma.genesis_witness
        genesis(w_empty()),
{
    assert forall|id: BytesN<32>| #[trigger] op_ledger(w_empty(), id) == UNSET_LEDGER by {
        assert(pget(w_empty(), TimelockStorageKey::OperationLedger(id)).is_none());
    }
}
/// the happy path is a valid history: set the minimum delay, schedule with exactly that delay, let
/// exactly `delay` ledgers pass, execute — and one ledger earlier the execute step is NOT possible
pub open spec fn happy(op: Operation, w0: World, d: u32, wait: u32) -> Seq<TStep> {
    seq![
        TStep::Op(TOp::SetMinDelay { d: d }),
        TStep::Op(TOp::Schedule { op: op, delay: d }),
        TStep::Tick { seq: (w0.ledger_seq + wait) as u32, ts: 0 },
        TStep::Op(TOp::Execute { op: op, ret: SV::Void, ext: 0 }),
    ]
}
pub proof fn lemma_happy_path(op: Operation, w0: World, d: u32)
    requires genesis(w0), no_pred(op.predecessor), w0.ledger_seq + d <= u32::MAX, d >= 1,
    ensures
        //@@ C08:lemma.witness_boundary
        valid(w0, happy(op, w0, d, d)),
        op_state(run(w0, happy(op, w0, d, d)), op_id(op)) is Done,
        !valid(w0, happy(op, w0, d, (d - 1) as u32)),
{
    let id = op_id(op);
    lemma_happy_prefix(op, w0, d, d);
    lemma_happy_prefix(op, w0, d, (d - 1) as u32);
    let s = happy(op, w0, d, d);
    assert(s.drop_last() =~= s.take(3));
    let w3 = run(w0, s.take(3));
    assert(set_execute_guard(w3, op));
    lemma_step_view(w3, s[3], id);
    let t = happy(op, w0, d, (d - 1) as u32);
    assert(t.drop_last() =~= t.take(3));
    assert(!set_execute_guard(run(w0, t.take(3)), op));
}
pub proof fn lemma_happy_prefix(op: Operation, w0: World, d: u32, wait: u32)
    requires genesis(w0), w0.ledger_seq + d <= u32::MAX, wait <= d,
    ensures
        //@@ C08:lemma.witness_prefix
        valid(w0, happy(op, w0, d, wait).take(3)),
        op_ledger(run(w0, happy(op, w0, d, wait).take(3)), op_id(op)) == w0.ledger_seq + d,
        run(w0, happy(op, w0, d, wait).take(3)).ledger_seq == w0.ledger_seq + wait,
{
    let id = op_id(op);
    let s = happy(op, w0, d, wait);
    let s1 = s.take(1); let s2 = s.take(2); let s3 = s.take(3);
    assert(s1.drop_last() =~= Seq::<TStep>::empty());
    assert(s2.drop_last() =~= s1);
    assert(s3.drop_last() =~= s2);
    assert(valid(w0, Seq::<TStep>::empty()));
    assert(s1.last() == s[0] && s2.last() == s[1] && s3.last() == s[2]);
    assert(run(w0, s1.drop_last()) == w0);
    let w1 = run(w0, s1);
    assert(w1 == step_post(w0, s[0]));
    lemma_step_view(w0, s[0], id);
    lemma_op_view(w0, TOp::SetMinDelay { d: d }, id);
    assert(valid(w0, s1));
    let w2 = run(w0, s2);
    assert(w2 == step_post(w1, s[1]));
    assert(schedule_guard(w1, op, d));
    lemma_step_view(w1, s[1], id);
    assert(valid(w0, s2));
    let w3 = run(w0, s3);
    assert(w3 == step_post(w2, s[2]));
    lemma_step_view(w2, s[2], id);
    assert(valid(w0, s3));
}
