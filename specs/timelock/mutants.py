#!/usr/bin/env python3
"""mutation self-test of unit `timelock` (C08).  Usage (from the framework root / worktree):
     mkdir -p /var/tmp/m_timelock && cp -r /repo/packages /repo/examples /repo/Cargo.toml /var/tmp/m_timelock/
     VERIF_REPO=/var/tmp/m_timelock python3 specs/timelock/mutants.py ; rm -rf /var/tmp/m_timelock
   Every M* mutant must report the expected failing label(s); M0 (unmodified) and H* (harmless refactorings) none.
   Expected: M1 state.*; M2,M9 set_execute.guard; M3 execute.* (assertion before the call); M4,M6 schedule.guard;
   M5 cancel.guard; M7 hash.*; M10 schedule.exact; M11 cancel.exact."""
import importlib.machinery, importlib.util, sys, os, json
ROOT=os.path.dirname(os.path.dirname(os.path.dirname(os.path.abspath(__file__))))
os.chdir(ROOT); sys.path.insert(0, '.')
SCR=os.environ['VERIF_REPO']
sys.argv=['check']
loader = importlib.machinery.SourceFileLoader('checkmod', './check')
spec = importlib.util.spec_from_loader('checkmod', loader); m = importlib.util.module_from_spec(spec); loader.exec_module(m)
F=SCR+'/packages/governance/src/timelock/storage.rs'
orig=open('/repo/packages/governance/src/timelock/storage.rs').read()
MUT = {
 'M0_unmodified': [],
 'M1_waiting_ge': [("ready if ready > current_ledger =>", "ready if ready >= current_ledger =>")],
 'M2_drop_predecessor_check': [("    if operation.predecessor != no_predecessor && !is_operation_done(e, &operation.predecessor) {\n        panic_with_error!(e, TimelockError::UnexecutedPredecessor);\n    }\n", "")],
 'M3_done_after_call': [("    set_execute_operation(e, operation);\n\n    e.invoke_contract::<Val>(&operation.target, &operation.function, operation.args.clone())\n",
                         "    let res = e.invoke_contract::<Val>(&operation.target, &operation.function, operation.args.clone());\n    set_execute_operation(e, operation);\n    res\n")],
 'M4_reschedule_done': [("    if operation_exists(e, &id) {\n        panic_with_error!(e, TimelockError::OperationAlreadyScheduled);", "    if is_operation_pending(e, &id) {\n        panic_with_error!(e, TimelockError::OperationAlreadyScheduled);")],
 'M5_cancel_done': [("    if !is_operation_pending(e, operation_id) {", "    if !operation_exists(e, operation_id) {")],
 'M6_min_delay_strict_off_by_one': [("    if delay < min_delay {", "    if delay + 1 < min_delay {")],
 'M7_hash_without_salt': [("    data.append(&operation.salt.clone().into());\n", "")],
 'H1_harmless_reorder_and_rename': [("    let min_delay = get_min_delay(e);\n", "    let now_ledger = e.ledger().sequence();\n    let min_delay = get_min_delay(e);\n"), ("    let current_ledger = e.ledger().sequence();\n    let ready_ledger = current_ledger.saturating_add(delay);", "    let ready_ledger = now_ledger.saturating_add(delay);")],
 'M10_store_wrapping_add': [("current_ledger.saturating_add(delay)", "current_ledger.wrapping_add(delay)")],
 'M11_cancel_no_remove': [("    e.storage().persistent().remove(&key);\n", "")],
 'M9_execute_requires_only_not_unset': [("    if !is_operation_ready(e, &id) {", "    if !operation_exists(e, &id) {")],
}
for name, reps in MUT.items():
    s = orig
    for a,b in reps:
        assert a in s, (name, a)
        s = s.replace(a,b)
    open(F,'w').write(s)
    try:
        r = m.check_unit('timelock','A','/var/tmp/vxdev/chk','quick')
        print(name, 'FAILED LABELS:', sorted(r['failed'].keys()), 'undecided:', r['undecided'], 'canaries_ok:', r['canary_failed']==r['expected_canaries'], '%.1fs'%r['wall'])
    except Exception as ex:
        print(name, 'EXC', type(ex).__name__, ex)
open(F,'w').write(orig)
