// =================================================================================================
// spec pack `timelock` — C08 "a timelocked operation runs once, only after its delay and its
// predecessor".  Abstract view of the two storage families, exact successor states of every
// mutating function, and the public operations as a relation on worlds.
// Everything here is ghost; the executable text comes from /repo.
// =================================================================================================

// ---- abstract view ----
/// the stored `OperationLedger(id)` value as `get_operation_ledger` reports it (absent = UNSET_LEDGER)
pub open spec fn op_ledger(w: World, id: BytesN<32>) -> u32 {
    match dec::<u32>(pget(w, TimelockStorageKey::OperationLedger(id))) { Some(v) => v, None => UNSET_LEDGER }
}
/// THE state function of C08: 0 = Unset, 1 = Done, otherwise Waiting while `stored > now`, Ready from `stored <= now` on
pub open spec fn state_of(stored: u32, now: u32) -> OperationState {
    if stored == UNSET_LEDGER { OperationState::Unset }
    else if stored == DONE_LEDGER { OperationState::Done }
    else if stored > now { OperationState::Waiting }
    else { OperationState::Ready }
}
pub open spec fn op_state(w: World, id: BytesN<32>) -> OperationState { state_of(op_ledger(w, id), w.ledger_seq) }
pub open spec fn cur_min_delay(w: World) -> Option<u32> { dec::<u32>(iget(w, TimelockStorageKey::MinDelay)) }

pub open spec fn sat_add(a: u32, b: u32) -> u32 { if a + b > u32::MAX { u32::MAX } else { (a + b) as u32 } }
pub open spec fn zeros32() -> Seq<u8> { Seq::new(32, |i: int| 0u8) }
/// "no predecessor" = the all-zero id
pub open spec fn no_pred(p: BytesN<32>) -> bool { p@ =~= zeros32() }

// ---- operation id (M7): keccak256 over xdr(target) ++ xdr(function) ++ xdr(args) ++ predecessor ++ salt ----
pub open spec fn op_preimage(target: Address, function: Symbol, args: Vec<Val>, predecessor: BytesN<32>, salt: BytesN<32>) -> Seq<u8> {
    Seq::<u8>::empty() + xdr_spec(target.sv()) + xdr_spec(function.sv()) + xdr_spec(args.sv()) + predecessor@ + salt@
}
pub open spec fn op_id5(target: Address, function: Symbol, args: Vec<Val>, predecessor: BytesN<32>, salt: BytesN<32>) -> BytesN<32> {
    BytesN { s: Ghost(keccak256_spec(op_preimage(target, function, args, predecessor, salt))) }
}
pub open spec fn op_id(op: Operation) -> BytesN<32> { op_id5(op.target, op.function, op.args, op.predecessor, op.salt) }

// ---- world transformers ----
pub open spec fn w_call(w: World, callee: Address, func: int, args: Seq<SV>, ret: SV, ext: int) -> World {
    World { calls: w.calls.push(Call { callee: callee, func: func, args: args, ret: ret, ok: true }), ext: ext, ..w }
}
pub open spec fn set_op_ledger(w: World, id: BytesN<32>, v: u32) -> World { pset(w, TimelockStorageKey::OperationLedger(id), v.sv()) }

// ---- exact successor states and guards (what must have held for the call to return) ----
pub open spec fn set_min_delay_post(w: World, d: u32) -> World {
    let old_delay = match cur_min_delay(w) { Some(x) => x, None => 0u32 };
    w_event(iset(w, TimelockStorageKey::MinDelay, d.sv()), MinDelayChanged { old_delay: old_delay, new_delay: d }.ev())
}

pub open spec fn schedule_guard(w: World, op: Operation, delay: u32) -> bool {
    &&& op_state(w, op_id(op)) is Unset
    &&& cur_min_delay(w).is_some()
    &&& delay >= cur_min_delay(w).unwrap()
}
pub open spec fn ev_scheduled(op: Operation, delay: u32) -> SV {
    OperationScheduled { id: op_id(op), target: op.target, function: op.function, args: op.args, predecessor: op.predecessor, salt: op.salt, delay: delay }.ev()
}
pub open spec fn schedule_post(w: World, op: Operation, delay: u32) -> World {
    w_event(set_op_ledger(w, op_id(op), sat_add(w.ledger_seq, delay)), ev_scheduled(op, delay))
}

pub open spec fn set_execute_guard(w: World, op: Operation) -> bool {
    &&& op_state(w, op_id(op)) is Ready
    &&& (no_pred(op.predecessor) || op_state(w, op.predecessor) is Done)
}
pub open spec fn ev_executed(op: Operation) -> SV {
    OperationExecuted { id: op_id(op), target: op.target, function: op.function, args: op.args, predecessor: op.predecessor, salt: op.salt }.ev()
}
pub open spec fn set_execute_post(w: World, op: Operation) -> World {
    w_event(set_op_ledger(w, op_id(op), DONE_LEDGER), ev_executed(op))
}
/// `execute_operation`: the done marker is written first, then the target is called (M8: the call
/// cannot touch this contract's state); `ret`/`ext` are the callee's answer and the new outside world
pub open spec fn execute_post(w: World, op: Operation, ret: SV, ext: int) -> World {
    w_call(set_execute_post(w, op), op.target, op.function.code@, vals_sv(op.args@), ret, ext)
}

pub open spec fn cancel_guard(w: World, id: BytesN<32>) -> bool {
    op_state(w, id) is Waiting || op_state(w, id) is Ready
}
pub open spec fn cancel_post(w: World, id: BytesN<32>) -> World {
    w_event(pdel(w, TimelockStorageKey::OperationLedger(id)), OperationCancelled { id: id }.ev())
}

// ---- the public operations of the module as a relation on worlds ----
pub enum TOp {
    Schedule { op: Operation, delay: u32 },
    /// `execute_operation`: mark done + external call (answer `ret`, outside world afterwards `ext`)
    Execute { op: Operation, ret: SV, ext: int },
    /// `set_execute_operation` used directly (self-administration): mark done, no call
    SetExecute { op: Operation },
    Cancel { id: BytesN<32> },
    SetMinDelay { d: u32 },
}
pub open spec fn op_guard(w: World, o: TOp) -> bool {
    match o {
        TOp::Schedule { op, delay } => schedule_guard(w, op, delay),
        TOp::Execute { op, ret, ext } => set_execute_guard(w, op),
        TOp::SetExecute { op } => set_execute_guard(w, op),
        TOp::Cancel { id } => cancel_guard(w, id),
        TOp::SetMinDelay { d } => true,
    }
}
pub open spec fn op_post(w: World, o: TOp) -> World {
    match o {
        TOp::Schedule { op, delay } => schedule_post(w, op, delay),
        TOp::Execute { op, ret, ext } => execute_post(w, op, ret, ext),
        TOp::SetExecute { op } => set_execute_post(w, op),
        TOp::Cancel { id } => cancel_post(w, id),
        TOp::SetMinDelay { d } => set_min_delay_post(w, d),
    }
}

// ---- step lemmas: how each function moves the view (typed-key read-over-write) ----
pub proof fn lemma_set_op_ledger(w: World, id: BytesN<32>, v: u32, id2: BytesN<32>)
    ensures
        //@@ C08:lemma.set_op_ledger_view
        op_ledger(set_op_ledger(w, id, v), id2) == (if id2 == id { v } else { op_ledger(w, id2) }),
        cur_min_delay(set_op_ledger(w, id, v)) == cur_min_delay(w),
        set_op_ledger(w, id, v).ledger_seq == w.ledger_seq,
{
    broadcast use sdk_store;
}
pub proof fn lemma_cancel_view(w: World, id: BytesN<32>, id2: BytesN<32>)
    ensures
        //@@ C08:lemma.cancel_view
        op_ledger(cancel_post(w, id), id2) == (if id2 == id { UNSET_LEDGER } else { op_ledger(w, id2) }),
        cur_min_delay(cancel_post(w, id)) == cur_min_delay(w),
        cancel_post(w, id).ledger_seq == w.ledger_seq,
{
    broadcast use sdk_store;
    let w1 = pdel(w, TimelockStorageKey::OperationLedger(id));
    assert(pget(cancel_post(w, id), TimelockStorageKey::OperationLedger(id2)) == pget(w1, TimelockStorageKey::OperationLedger(id2)));
}
pub proof fn lemma_set_min_delay_view(w: World, d: u32, id2: BytesN<32>)
    ensures
        //@@ C08:lemma.set_min_delay_view
        op_ledger(set_min_delay_post(w, d), id2) == op_ledger(w, id2),
        cur_min_delay(set_min_delay_post(w, d)) == Some(d),
        set_min_delay_post(w, d).ledger_seq == w.ledger_seq,
{
    broadcast use sdk_store;
    let w1 = iset(w, TimelockStorageKey::MinDelay, d.sv());
    assert(iget(set_min_delay_post(w, d), TimelockStorageKey::MinDelay) == iget(w1, TimelockStorageKey::MinDelay));
    assert(pget(set_min_delay_post(w, d), TimelockStorageKey::OperationLedger(id2)) == pget(w, TimelockStorageKey::OperationLedger(id2)));
}

/// the view after any public operation, for every id
pub proof fn lemma_op_view(w: World, o: TOp, id2: BytesN<32>)
    ensures
        //@@ C08:lemma.op_view
        op_post(w, o).ledger_seq == w.ledger_seq,
        cur_min_delay(op_post(w, o)) == (match o { TOp::SetMinDelay { d } => Some(d), _ => cur_min_delay(w) }),
        op_ledger(op_post(w, o), id2) == (match o {
            TOp::Schedule { op, delay } => if id2 == op_id(op) { sat_add(w.ledger_seq, delay) } else { op_ledger(w, id2) },
            TOp::Execute { op, ret, ext } => if id2 == op_id(op) { DONE_LEDGER } else { op_ledger(w, id2) },
            TOp::SetExecute { op } => if id2 == op_id(op) { DONE_LEDGER } else { op_ledger(w, id2) },
            TOp::Cancel { id } => if id2 == id { UNSET_LEDGER } else { op_ledger(w, id2) },
            TOp::SetMinDelay { d } => op_ledger(w, id2),
        }),
{
    match o {
        TOp::Schedule { op, delay } => {
            let w1 = set_op_ledger(w, op_id(op), sat_add(w.ledger_seq, delay));
            lemma_set_op_ledger(w, op_id(op), sat_add(w.ledger_seq, delay), id2);
            assert(pget(op_post(w, o), TimelockStorageKey::OperationLedger(id2)) == pget(w1, TimelockStorageKey::OperationLedger(id2)));
            assert(iget(op_post(w, o), TimelockStorageKey::MinDelay) == iget(w1, TimelockStorageKey::MinDelay));
        }
        TOp::Execute { op, ret, ext } => {
            let w1 = set_op_ledger(w, op_id(op), DONE_LEDGER);
            lemma_set_op_ledger(w, op_id(op), DONE_LEDGER, id2);
            assert(pget(op_post(w, o), TimelockStorageKey::OperationLedger(id2)) == pget(w1, TimelockStorageKey::OperationLedger(id2)));
            assert(iget(op_post(w, o), TimelockStorageKey::MinDelay) == iget(w1, TimelockStorageKey::MinDelay));
        }
        TOp::SetExecute { op } => {
            let w1 = set_op_ledger(w, op_id(op), DONE_LEDGER);
            lemma_set_op_ledger(w, op_id(op), DONE_LEDGER, id2);
            assert(pget(op_post(w, o), TimelockStorageKey::OperationLedger(id2)) == pget(w1, TimelockStorageKey::OperationLedger(id2)));
            assert(iget(op_post(w, o), TimelockStorageKey::MinDelay) == iget(w1, TimelockStorageKey::MinDelay));
        }
        TOp::Cancel { id } => { lemma_cancel_view(w, id, id2); }
        TOp::SetMinDelay { d } => { lemma_set_min_delay_view(w, d, id2); }
    }
}

/// C08: "execution marks it done": in the world in which the target is called the operation is already Done
pub proof fn lemma_done_before_call(w: World, op: Operation)
    ensures
        //@@ C08:lemma.done_before_call
        op_state(set_execute_post(w, op), op_id(op)) is Done,
{
    lemma_op_view(w, TOp::SetExecute { op: op }, op_id(op));
}

/// C08: "the same id is always derived from the same (target, function, arguments, predecessor, salt)"
pub proof fn lemma_id_function_of_fields(a: Operation, b: Operation)
    requires a.target == b.target, a.function == b.function, a.args == b.args, a.predecessor == b.predecessor, a.salt == b.salt,
    ensures
        //@@ C08:lemma.id_function_of_fields
        op_id(a) == op_id(b),
{}
