// =================================================================================================
// policy_spending, lemma layer 2: histories (C14: "the amounts of all transfers authorized within any
// window of period_ledgers consecutive ledgers never exceed the limit in force when each was
// authorized, whatever the order and timing of attempts")
// =================================================================================================
// A history for one (smart account, context rule) starts in the state `install` leaves and is any finite
// sequence of: successful `enforce` calls (any context, any signer count — the guard decides),
// `set_spending_limit` calls, ledger advances, and "foreign" steps (anything that neither touches this
// entry nor the ledger: the same policy used by other accounts / rules, other contracts).
// Rejected attempts have no successor state (M6) and therefore do not appear.
// Out of scope by the property's own quantifier: negative amounts, ledger 0; uninstall + install starts a
// new history (the policy forgets its window — it needs the account's authorization).

pub enum SlStep {
    Enforce { ctx: Context, n_signers: nat },
    SetLimit { limit: i128 },
    Foreign { w2: World },
    Tick { seq: u32, ts: u64 },
}

pub open spec fn sl_genesis(w: World, a: Address, id: u32) -> bool {
    &&& sl_installed(w, a, id)
    &&& sl_data(w, a, id).unwrap().spending_history@ =~= Seq::<SpendingEntry>::empty()
    &&& sl_data(w, a, id).unwrap().cached_total_spent == 0
    &&& sl_data(w, a, id).unwrap().spending_limit > 0
    &&& sl_data(w, a, id).unwrap().period_ledgers > 0
    &&& w.ledger_seq >= 1
}
pub open spec fn sl_step_ok(w: World, st: SlStep, a: Address, id: u32) -> bool {
    match st {
        SlStep::Enforce { ctx, n_signers } => sl_accepts(w, ctx, n_signers, a, id) && sl_transfer_amount(ctx).unwrap() >= 0,
        SlStep::SetLimit { limit } => limit > 0 && sl_installed(w, a, id),
        SlStep::Foreign { w2 } => sl_data(w2, a, id) == sl_data(w, a, id) && w2.ledger_seq == w.ledger_seq,
        SlStep::Tick { seq, ts } => seq >= w.ledger_seq,
    }
}
pub open spec fn sl_step_post(w: World, st: SlStep, a: Address, id: u32) -> World {
    match st {
        SlStep::Enforce { ctx, n_signers } => sl_enforce_post(w, ctx, id, a),
        SlStep::SetLimit { limit } => sl_set_limit_post(w, limit, a, id),
        SlStep::Foreign { w2 } => w2,
        SlStep::Tick { seq, ts } => World { ledger_seq: seq, timestamp: ts, auths: Set::empty(), auth_args: Set::empty(), ..w },
    }
}
pub open spec fn sl_run(w0: World, steps: Seq<SlStep>, a: Address, id: u32) -> World
    decreases steps.len()
{
    if steps.len() == 0 { w0 } else { sl_step_post(sl_run(w0, steps.drop_last(), a, id), steps.last(), a, id) }
}
pub open spec fn sl_valid(w0: World, steps: Seq<SlStep>, a: Address, id: u32) -> bool
    decreases steps.len()
{
    steps.len() == 0 || (sl_valid(w0, steps.drop_last(), a, id) && sl_step_ok(sl_run(w0, steps.drop_last(), a, id), steps.last(), a, id))
}
/// ghost log of the authorized transfers: (amount, ledger at which it was authorized), oldest first
pub open spec fn sl_log(w0: World, steps: Seq<SlStep>, a: Address, id: u32) -> Seq<SpendingEntry>
    decreases steps.len()
{
    if steps.len() == 0 { Seq::empty() } else {
        let pre = steps.drop_last();
        match steps.last() {
            SlStep::Enforce { ctx, n_signers } => sl_log(w0, pre, a, id).push(
                SpendingEntry { amount: sl_transfer_amount(ctx).unwrap(), ledger_sequence: sl_run(w0, pre, a, id).ledger_seq }),
            _ => sl_log(w0, pre, a, id),
        }
    }
}
/// the limit in force when each logged transfer was authorized
pub open spec fn sl_limits(w0: World, steps: Seq<SlStep>, a: Address, id: u32) -> Seq<i128>
    decreases steps.len()
{
    if steps.len() == 0 { Seq::empty() } else {
        let pre = steps.drop_last();
        match steps.last() {
            SlStep::Enforce { ctx, n_signers } => sl_limits(w0, pre, a, id).push(sl_data(sl_run(w0, pre, a, id), a, id).unwrap().spending_limit),
            _ => sl_limits(w0, pre, a, id),
        }
    }
}

/// C14, per authorized transfer i: the transfers authorized in the `period` ledgers ending at its ledger
/// (itself included) sum to at most the limit in force when it was authorized
pub open spec fn sl_windows_ok(log: Seq<SpendingEntry>, limits: Seq<i128>, period: u32) -> bool {
    &&& limits.len() == log.len()
    &&& forall|i: int| 0 <= i < log.len() ==>
            win_sum(log.take(i + 1), (#[trigger] log[i]).ledger_sequence as int - period as int) <= limits[i]
}
/// link between the stored history and the ghost log: the stored history is the tail of the log, and
/// every logged transfer no longer stored is at least `period` ledgers old
pub open spec fn sl_hist_inv_d(d: SpendingLimitData, now: u32, log: Seq<SpendingEntry>, limits: Seq<i128>, period: u32) -> bool {
    let h = d.spending_history@;
    &&& now >= 1
    &&& d.period_ledgers == period
    &&& inv_sl(d, now)
    &&& h.len() <= log.len()
    &&& log.skip(log.len() - h.len()) =~= h
    &&& forall|i: int| 0 <= i < log.len() - h.len() ==> (#[trigger] log[i]).ledger_sequence as int + period as int <= now as int
    &&& sl_windows_ok(log, limits, period)
    &&& forall|i: int| 0 <= i < log.len() ==> (#[trigger] log[i]).amount >= 0
}
pub open spec fn sl_hist_inv(w: World, log: Seq<SpendingEntry>, limits: Seq<i128>, period: u32, a: Address, id: u32) -> bool {
    sl_installed(w, a, id) && sl_hist_inv_d(sl_data(w, a, id).unwrap(), w.ledger_seq, log, limits, period)
}

pub proof fn lemma_sl_data_after_set(w: World, a: Address, id: u32, d: SpendingLimitData)
    ensures sl_data(pset(w, sl_key(a, id), d.sv()), a, id) == Some(d),
{
    broadcast use sdk_store;
}

/// the tail link after one enforce
pub proof fn lemma_hist_enforce_tail(d: SpendingLimitData, now: u32, amount: i128, log: Seq<SpendingEntry>, limits: Seq<i128>, period: u32)
    requires
        sl_hist_inv_d(d, now, log, limits, period), amount >= 0,
        sl_live(d, now).len() < MAX_HISTORY_ENTRIES,
        sl_spent(d, now) + amount <= d.spending_limit,
    ensures ({
        let x = SpendingEntry { amount: amount, ledger_sequence: now };
        let h2 = sl_enforce_data(d, now, amount).spending_history@;
        let log2 = log.push(x);
        &&& h2.len() <= log2.len()
        &&& log2.skip(log2.len() - h2.len()) =~= h2
        &&& forall|i: int| 0 <= i < log2.len() - h2.len() ==> (#[trigger] log2[i]).ledger_sequence as int + period as int <= now as int
    }),
{
    let h = d.spending_history@;
    let x = SpendingEntry { amount: amount, ledger_sequence: now };
    let c = sl_cutoff(now, period);
    lemma_cleanup_sorted(h, c);
    let n = sl_nexp(h, c) as int;
    let live = sl_live(d, now);
    let h2 = sl_enforce_data(d, now, amount).spending_history@;
    assert(h2 == live.push(x));
    assert(live == h.skip(n));
    let k = log.len() - h.len();
    let log2 = log.push(x);
    assert(log2.len() - h2.len() == k + n);
    assert forall|i: int| 0 <= i < h2.len() implies log2.skip(k + n)[i] == h2[i] by {
        if i < live.len() {
            assert(log2[k + n + i] == log[k + n + i]);
            assert(log.skip(k)[n + i] == log[k + n + i]);
            assert(live[i] == h[n + i]);
        }
    }
    assert forall|i: int| 0 <= i < k + n implies (#[trigger] log2[i]).ledger_sequence as int + period as int <= now as int by {
        assert(log2[i] == log[i]);
        if i >= k {
            assert(log.skip(k)[i - k] == log[i]);
            assert(h[i - k].ledger_sequence <= c && h[i - k].ledger_sequence >= 1);
        }
    }
}

/// the window of the new transfer is what enforce checked; older windows are untouched
pub proof fn lemma_hist_enforce_windows(d: SpendingLimitData, now: u32, amount: i128, log: Seq<SpendingEntry>, limits: Seq<i128>, period: u32)
    requires
        sl_hist_inv_d(d, now, log, limits, period), amount >= 0,
        sl_spent(d, now) + amount <= d.spending_limit,
    ensures
        sl_windows_ok(log.push(SpendingEntry { amount: amount, ledger_sequence: now }), limits.push(d.spending_limit), period),
{
    let h = d.spending_history@;
    let x = SpendingEntry { amount: amount, ledger_sequence: now };
    let ci = now as int - period as int;
    let k = log.len() - h.len();
    let log2 = log.push(x);
    let limits2 = limits.push(d.spending_limit);
    lemma_sl_window(d, now);
    assert forall|i: int| 0 <= i < log2.len() implies
        win_sum(log2.take(i + 1), (#[trigger] log2[i]).ledger_sequence as int - period as int) <= limits2[i] by {
        if i < log.len() {
            assert(log2.take(i + 1) =~= log.take(i + 1));
            assert(log2[i] == log[i] && limits2[i] == limits[i]);
        } else {
            assert(log2.take(i + 1) =~= log.push(x));
            lemma_win_sum_push(log, x, ci);
            let (p, q) = (log.take(k), log.skip(k));
            assert(log =~= p + q);
            lemma_win_sum_concat(p, q, ci);
            assert forall|j: int| 0 <= j < p.len() implies (#[trigger] p[j]).ledger_sequence as int <= ci by {
                assert(p[j] == log[j]);
            }
            lemma_win_all_out(p, ci);
            assert(q =~= h);
            assert(win_sum(log, ci) == sl_spent(d, now));
        }
    }
}

pub proof fn lemma_sl_step_enforce(w: World, ctx: Context, n_signers: nat, log: Seq<SpendingEntry>, limits: Seq<i128>, period: u32, a: Address, id: u32)
    requires
        sl_hist_inv(w, log, limits, period, a, id),
        sl_step_ok(w, SlStep::Enforce { ctx, n_signers }, a, id),
    ensures
        sl_hist_inv(sl_enforce_post(w, ctx, id, a),
            log.push(SpendingEntry { amount: sl_transfer_amount(ctx).unwrap(), ledger_sequence: w.ledger_seq }),
            limits.push(sl_data(w, a, id).unwrap().spending_limit), period, a, id),
{
    let d = sl_data(w, a, id).unwrap();
    let now = w.ledger_seq;
    let amount = sl_transfer_amount(ctx).unwrap();
    let d2 = sl_enforce_data(d, now, amount);
    let w2 = sl_enforce_post(w, ctx, id, a);
    lemma_sl_data_after_set(w_auth(w, a), a, id, d2);
    assert(sl_data(w2, a, id) == Some(d2));
    assert(w2.ledger_seq == now);
    lemma_sl_enforce_step(d, now, amount);
    lemma_hist_enforce_tail(d, now, amount, log, limits, period);
    lemma_hist_enforce_windows(d, now, amount, log, limits, period);
    let x = SpendingEntry { amount: amount, ledger_sequence: now };
    assert forall|i: int| 0 <= i < log.push(x).len() implies (#[trigger] log.push(x)[i]).amount >= 0 by {
        if i < log.len() { assert(log.push(x)[i] == log[i]); }
    }
}

pub proof fn lemma_sl_step(w: World, st: SlStep, log: Seq<SpendingEntry>, limits: Seq<i128>, period: u32, a: Address, id: u32)
    requires
        sl_hist_inv(w, log, limits, period, a, id),
        sl_step_ok(w, st, a, id),
        !(st is Enforce),
    ensures
        sl_hist_inv(sl_step_post(w, st, a, id), log, limits, period, a, id),
{
    let d = sl_data(w, a, id).unwrap();
    let w2 = sl_step_post(w, st, a, id);
    match st {
        SlStep::SetLimit { limit } => {
            let d2 = SpendingLimitData { spending_limit: limit, period_ledgers: d.period_ledgers,
                spending_history: d.spending_history, cached_total_spent: d.cached_total_spent };
            lemma_sl_data_after_set(w_auth(w, a), a, id, d2);
            assert(sl_data(w2, a, id) == Some(d2));
        }
        SlStep::Foreign { w2 } => {}
        SlStep::Tick { seq, ts } => {
            assert(sl_data(w2, a, id) == sl_data(w, a, id));
        }
        _ => {}
    }
}

/// C14, history form
pub proof fn lemma_sl_history(w0: World, steps: Seq<SlStep>, a: Address, id: u32)
    requires sl_genesis(w0, a, id), sl_valid(w0, steps, a, id),
    ensures
        sl_hist_inv(sl_run(w0, steps, a, id), sl_log(w0, steps, a, id), sl_limits(w0, steps, a, id), sl_data(w0, a, id).unwrap().period_ledgers, a, id),
        //@@ C14:spending.history.windows_within_limit
        sl_windows_ok(sl_log(w0, steps, a, id), sl_limits(w0, steps, a, id), sl_data(w0, a, id).unwrap().period_ledgers),
        //@@ C14:spending.history.invariant
        inv_sl(sl_data(sl_run(w0, steps, a, id), a, id).unwrap(), sl_run(w0, steps, a, id).ledger_seq),
    decreases steps.len()
{
    let period = sl_data(w0, a, id).unwrap().period_ledgers;
    if steps.len() == 0 {
        let e = Seq::<SpendingEntry>::empty();
        assert(e.skip(0) =~= e);
    } else {
        let pre = steps.drop_last();
        let wp = sl_run(w0, pre, a, id);
        lemma_sl_history(w0, pre, a, id);
        match steps.last() {
            SlStep::Enforce { ctx, n_signers } => {
                lemma_sl_step_enforce(wp, ctx, n_signers, sl_log(w0, pre, a, id), sl_limits(w0, pre, a, id), period, a, id);
            }
            _ => {
                lemma_sl_step(wp, steps.last(), sl_log(w0, pre, a, id), sl_limits(w0, pre, a, id), period, a, id);
            }
        }
    }
}

/// install produces a genesis state (at ledgers >= 1)
pub proof fn lemma_sl_install_genesis(w: World, p: SpendingLimitAccountParams, a: Address, id: u32)
    requires p.spending_limit > 0, p.period_ledgers != 0, w.ledger_seq >= 1,
    ensures
        //@@ C14:spending.install.genesis
        sl_genesis(sl_install_post(w, p, a, id), a, id),
{
    let d0 = SpendingLimitData { spending_limit: p.spending_limit, period_ledgers: p.period_ledgers,
        spending_history: Vec { s: Ghost(Seq::<SpendingEntry>::empty()) }, cached_total_spent: 0 };
    lemma_sl_data_after_set(w_auth(w, a), a, id, d0);
}

// ---- corollary: every window of `period` consecutive ledgers ----
/// Σ amounts of the entries recorded at a ledger in [lo, hi]
pub open spec fn range_sum(s: Seq<SpendingEntry>, lo: int, hi: int) -> int
    decreases s.len()
{
    if s.len() == 0 { 0 } else {
        (if lo <= s[0].ledger_sequence as int <= hi { s[0].amount as int } else { 0 }) + range_sum(s.drop_first(), lo, hi)
    }
}
pub proof fn lemma_range_sum_concat(a: Seq<SpendingEntry>, b: Seq<SpendingEntry>, lo: int, hi: int)
    ensures range_sum(a + b, lo, hi) == range_sum(a, lo, hi) + range_sum(b, lo, hi),
    decreases a.len()
{
    if a.len() == 0 { assert(a + b =~= b); } else {
        assert((a + b).drop_first() =~= a.drop_first() + b);
        lemma_range_sum_concat(a.drop_first(), b, lo, hi);
    }
}
pub proof fn lemma_range_sum_push(h: Seq<SpendingEntry>, x: SpendingEntry, lo: int, hi: int)
    ensures range_sum(h.push(x), lo, hi) == range_sum(h, lo, hi) + (if lo <= x.ledger_sequence as int <= hi { x.amount as int } else { 0 }),
{
    assert(h.push(x) =~= h + seq![x]);
    lemma_range_sum_concat(h, seq![x], lo, hi);
    assert(seq![x].drop_first() =~= Seq::<SpendingEntry>::empty());
    assert(range_sum(seq![x], lo, hi) == (if lo <= x.ledger_sequence as int <= hi { x.amount as int } else { 0 }) + range_sum(seq![x].drop_first(), lo, hi));
}
/// with non-negative amounts, what lies in [lo, hi] is at most what lies after any c < lo
pub proof fn lemma_range_le_win(s: Seq<SpendingEntry>, lo: int, hi: int, c: int)
    requires c < lo, forall|i: int| 0 <= i < s.len() ==> (#[trigger] s[i]).amount >= 0,
    ensures range_sum(s, lo, hi) <= win_sum(s, c),
    decreases s.len()
{
    if s.len() > 0 {
        assert(s[0].amount >= 0);
        assert forall|i: int| 0 <= i < s.drop_first().len() implies (#[trigger] s.drop_first()[i]).amount >= 0 by {
            assert(s.drop_first()[i] == s[i + 1]);
        }
        lemma_range_le_win(s.drop_first(), lo, hi, c);
    }
}
/// any window [lo, lo+period-1]: the logged transfers inside it sum to at most `bound`, where `bound` is
/// any value no smaller than the limits in force when the transfers inside the window were authorized
pub proof fn lemma_any_window_prefix(log: Seq<SpendingEntry>, limits: Seq<i128>, period: u32, lo: int, bound: int, m: int)
    requires
        sl_windows_ok(log, limits, period), period > 0, bound >= 0, 0 <= m <= log.len(),
        forall|i: int| 0 <= i < log.len() ==> (#[trigger] log[i]).amount >= 0,
        forall|i: int| 0 <= i < log.len() && lo <= (#[trigger] log[i]).ledger_sequence as int <= lo + period as int - 1 ==> limits[i] as int <= bound,
    ensures range_sum(log.take(m), lo, lo + period as int - 1) <= bound,
    decreases m
{
    let hi = lo + period as int - 1;
    if m == 0 {
        assert(log.take(0) =~= Seq::<SpendingEntry>::empty());
    } else {
        let x = log[m - 1];
        assert(log.take(m) =~= log.take(m - 1).push(x));
        lemma_range_sum_push(log.take(m - 1), x, lo, hi);
        if lo <= x.ledger_sequence as int <= hi {
            let c = x.ledger_sequence as int - period as int;
            assert forall|i: int| 0 <= i < log.take(m).len() implies (#[trigger] log.take(m)[i]).amount >= 0 by {
                assert(log.take(m)[i] == log[i]);
            }
            lemma_range_le_win(log.take(m), lo, hi, c);
            assert(win_sum(log.take(m), c) <= limits[m - 1]);
        } else {
            lemma_any_window_prefix(log, limits, period, lo, bound, m - 1);
        }
    }
}
/// C14, window form: in every window of `period` consecutive ledgers the authorized amounts sum to at
/// most the largest limit in force at an authorization inside that window
pub proof fn lemma_sl_history_any_window(w0: World, steps: Seq<SlStep>, a: Address, id: u32, lo: int, bound: int)
    requires
        sl_genesis(w0, a, id), sl_valid(w0, steps, a, id), bound >= 0,
        forall|i: int| 0 <= i < sl_log(w0, steps, a, id).len()
            && lo <= (#[trigger] sl_log(w0, steps, a, id)[i]).ledger_sequence as int <= lo + sl_data(w0, a, id).unwrap().period_ledgers as int - 1
            ==> sl_limits(w0, steps, a, id)[i] as int <= bound,
    ensures
        //@@ C14:spending.history.any_window_within_limit
        range_sum(sl_log(w0, steps, a, id), lo, lo + sl_data(w0, a, id).unwrap().period_ledgers as int - 1) <= bound,
{
    let log = sl_log(w0, steps, a, id);
    lemma_sl_history(w0, steps, a, id);
    assert(log.take(log.len() as int) =~= log);
    lemma_any_window_prefix(log, sl_limits(w0, steps, a, id), sl_data(w0, a, id).unwrap().period_ledgers, lo, bound, log.len() as int);
}

// ---- the policy used for other accounts / rules is a `Foreign` step for this (account, rule) ----
pub proof fn lemma_sl_other_key_is_foreign(w: World, ctx: Context, limit: i128, p: SpendingLimitAccountParams, a: Address, id: u32, a2: Address, id2: u32)
    requires a2 != a || id2 != id,
    ensures
        //@@ C14:spending.other_keys_untouched
        sl_step_ok(w, SlStep::Foreign { w2: sl_enforce_post(w, ctx, id2, a2) }, a, id),
        sl_step_ok(w, SlStep::Foreign { w2: sl_set_limit_post(w, limit, a2, id2) }, a, id),
        sl_step_ok(w, SlStep::Foreign { w2: sl_install_post(w, p, a2, id2) }, a, id),
        sl_step_ok(w, SlStep::Foreign { w2: sl_uninstall_post(w, a2, id2) }, a, id),
{
    broadcast use sdk_store;
}
/// effect of the configuration functions on the view of their own (account, rule)
pub proof fn lemma_sl_configure(w: World, limit: i128, a: Address, id: u32)
    requires sl_installed(w, a, id),
    ensures
        //@@ C14:spending.set_limit.effect
        sl_data(sl_set_limit_post(w, limit, a, id), a, id) == Some(SpendingLimitData { spending_limit: limit, ..sl_data(w, a, id).unwrap() }),
        //@@ C14:spending.uninstall.effect
        !sl_installed(sl_uninstall_post(w, a, id), a, id),
        forall|ctx: Context, n: nat| !#[trigger] sl_accepts(sl_uninstall_post(w, a, id), ctx, n, a, id),
{
    broadcast use sdk_store;
    let d = sl_data(w, a, id).unwrap();
    let d2 = SpendingLimitData { spending_limit: limit, period_ledgers: d.period_ledgers,
        spending_history: d.spending_history, cached_total_spent: d.cached_total_spent };
    lemma_sl_data_after_set(w_auth(w, a), a, id, d2);
}
