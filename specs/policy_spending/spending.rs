// =================================================================================================
// spec pack `policy_spending` — packages/accounts/src/policies/spending_limit.rs (C14)
// =================================================================================================

// ---- abstract view ----
pub open spec fn sl_key(a: Address, id: u32) -> SpendingLimitStorageKey { SpendingLimitStorageKey::AccountContext(a, id) }
pub open spec fn sl_data(w: World, a: Address, id: u32) -> Option<SpendingLimitData> {
    dec::<SpendingLimitData>(pget(w, sl_key(a, id)))
}
pub open spec fn sl_installed(w: World, a: Address, id: u32) -> bool { sl_data(w, a, id).is_some() }

/// Σ amounts of a history
pub open spec fn amt_sum(h: Seq<SpendingEntry>) -> int
    decreases h.len()
{
    if h.len() == 0 { 0 } else { h[0].amount as int + amt_sum(h.drop_first()) }
}
/// `current_ledger.saturating_sub(period_ledgers)`: entries at or before this ledger are outside the window
pub open spec fn sl_cutoff(now: u32, period: u32) -> u32 { if now >= period { (now - period) as u32 } else { 0 } }
/// the eviction rule: drop entries from the front while they are at or before the cutoff
pub open spec fn sl_cleanup(h: Seq<SpendingEntry>, c: u32) -> Seq<SpendingEntry>
    decreases h.len()
{
    if h.len() > 0 && h[0].ledger_sequence <= c { sl_cleanup(h.drop_first(), c) } else { h }
}
/// Σ amounts of the entries the eviction rule drops
pub open spec fn sl_removed(h: Seq<SpendingEntry>, c: u32) -> int
    decreases h.len()
{
    if h.len() > 0 && h[0].ledger_sequence <= c { h[0].amount as int + sl_removed(h.drop_first(), c) } else { 0 }
}
/// the amount of a `transfer(from, to, amount)` contract-call context; None for every other context
/// (non-contract contexts, other functions, fewer than three arguments, third argument not an i128)
pub open spec fn sl_transfer_amount(ctx: Context) -> Option<i128> {
    match ctx {
        Context::Contract(cc) =>
            if cc.fn_name.code@ == str_code("transfer"@) && cc.args@.len() > 2 { <i128 as TryFromVal>::val_decodes(cc.args@[2]@) } else { None },
        _ => None,
    }
}
/// entries that survive eviction at ledger `now`, and what the cached total becomes after eviction
pub open spec fn sl_live(d: SpendingLimitData, now: u32) -> Seq<SpendingEntry> {
    sl_cleanup(d.spending_history@, sl_cutoff(now, d.period_ledgers))
}
pub open spec fn sl_spent(d: SpendingLimitData, now: u32) -> int {
    d.cached_total_spent as int - sl_removed(d.spending_history@, sl_cutoff(now, d.period_ledgers))
}
/// C14 (spending limit): the policy accepts a context exactly when there is at least one authenticated
/// signer, it is installed, the context is a transfer with an i128 amount, the surviving history has
/// room for one more entry, and (cached total − evicted amounts) + amount ≤ limit
pub open spec fn sl_accepts(w: World, ctx: Context, n_signers: nat, a: Address, id: u32) -> bool {
    &&& n_signers > 0
    &&& sl_installed(w, a, id)
    &&& sl_transfer_amount(ctx).is_some()
    &&& sl_live(sl_data(w, a, id).unwrap(), w.ledger_seq).len() < MAX_HISTORY_ENTRIES
    &&& sl_spent(sl_data(w, a, id).unwrap(), w.ledger_seq) + sl_transfer_amount(ctx).unwrap() <= sl_data(w, a, id).unwrap().spending_limit
}

// ---- exact successor states ----
pub open spec fn sl_enforce_data(d: SpendingLimitData, now: u32, amount: i128) -> SpendingLimitData {
    SpendingLimitData {
        spending_limit: d.spending_limit,
        period_ledgers: d.period_ledgers,
        spending_history: Vec { s: Ghost(sl_live(d, now).push(SpendingEntry { amount: amount, ledger_sequence: now })) },
        cached_total_spent: (sl_spent(d, now) + amount) as i128,
    }
}
pub open spec fn sl_enforce_post(w: World, ctx: Context, id: u32, a: Address) -> World {
    let d2 = sl_enforce_data(sl_data(w, a, id).unwrap(), w.ledger_seq, sl_transfer_amount(ctx).unwrap());
    w_event(pset(w_auth(w, a), sl_key(a, id), d2.sv()),
        SpendingLimitPolicyEnforced { smart_account: a, context: ctx, context_rule_id: id,
            amount: sl_transfer_amount(ctx).unwrap(), total_spent_in_period: d2.cached_total_spent }.ev())
}
pub open spec fn sl_set_limit_post(w: World, limit: i128, a: Address, id: u32) -> World {
    let d = sl_data(w, a, id).unwrap();
    pset(w_auth(w, a), sl_key(a, id), SpendingLimitData { spending_limit: limit, period_ledgers: d.period_ledgers,
        spending_history: d.spending_history, cached_total_spent: d.cached_total_spent }.sv())
}
pub open spec fn sl_install_post(w: World, p: SpendingLimitAccountParams, a: Address, id: u32) -> World {
    pset(w_auth(w, a), sl_key(a, id), SpendingLimitData { spending_limit: p.spending_limit, period_ledgers: p.period_ledgers,
        spending_history: Vec { s: Ghost(Seq::<SpendingEntry>::empty()) }, cached_total_spent: 0 }.sv())
}
pub open spec fn sl_uninstall_post(w: World, a: Address, id: u32) -> World { pdel(w_auth(w, a), sl_key(a, id)) }

// ---- facts about the eviction rule used by the loop proofs ----
/// skipping `k` entries that are all at or before the cutoff does not change the outcome of eviction
pub proof fn lemma_scan_step(h: Seq<SpendingEntry>, c: u32, k: int)
    requires 0 <= k < h.len(), h[k].ledger_sequence <= c,
    ensures
        sl_cleanup(h.skip(k), c) == sl_cleanup(h.skip(k + 1), c),
        sl_removed(h.skip(k), c) == h[k].amount as int + sl_removed(h.skip(k + 1), c),
{
    assert(h.skip(k).drop_first() =~= h.skip(k + 1));
    assert(h.skip(k)[0] == h[k]);
}
pub proof fn lemma_scan_stop(h: Seq<SpendingEntry>, c: u32, k: int)
    requires 0 <= k <= h.len(), k < h.len() ==> h[k].ledger_sequence > c,
    ensures
        sl_cleanup(h.skip(k), c) == h.skip(k),
        sl_removed(h.skip(k), c) == 0,
        h.skip(k).len() == h.len() - k,
{
    if k < h.len() { assert(h.skip(k)[0] == h[k]); }
}
