// =================================================================================================
// policy_spending, lemma layer 1: the representation invariant and the rolling window (C14)
// =================================================================================================

/// history ordered by ledger (oldest first)
pub open spec fn sl_sorted(h: Seq<SpendingEntry>) -> bool {
    forall|i: int, j: int| 0 <= i <= j < h.len() ==> (#[trigger] h[i]).ledger_sequence <= (#[trigger] h[j]).ledger_sequence
}
/// every entry was recorded at a ledger in [1, now] and has a non-negative amount (the property's own
/// quantifier: non-negative transfer amounts, ledgers >= 1)
pub open spec fn sl_entries_ok(h: Seq<SpendingEntry>, now: u32) -> bool {
    forall|i: int| 0 <= i < h.len() ==> 1 <= (#[trigger] h[i]).ledger_sequence <= now && h[i].amount >= 0
}
/// representation invariant of the stored policy state
pub open spec fn inv_sl(d: SpendingLimitData, now: u32) -> bool {
    &&& sl_sorted(d.spending_history@)
    &&& sl_entries_ok(d.spending_history@, now)
    &&& d.cached_total_spent as int == amt_sum(d.spending_history@)
    &&& d.spending_history@.len() <= MAX_HISTORY_ENTRIES
    &&& d.period_ledgers > 0
    &&& d.spending_limit > 0
}
/// Σ amounts of the entries recorded after ledger `c` — with c = now − period this is what was spent in
/// the last `period` ledgers (now−period+1 ..= now)
pub open spec fn win_sum(h: Seq<SpendingEntry>, c: int) -> int
    decreases h.len()
{
    if h.len() == 0 { 0 } else { (if h[0].ledger_sequence as int > c { h[0].amount as int } else { 0 }) + win_sum(h.drop_first(), c) }
}
/// number of entries the eviction rule drops
pub open spec fn sl_nexp(h: Seq<SpendingEntry>, c: u32) -> nat
    decreases h.len()
{
    if h.len() > 0 && h[0].ledger_sequence <= c { 1 + sl_nexp(h.drop_first(), c) } else { 0 }
}

pub proof fn lemma_amt_sum_concat(a: Seq<SpendingEntry>, b: Seq<SpendingEntry>)
    ensures amt_sum(a + b) == amt_sum(a) + amt_sum(b),
    decreases a.len()
{
    if a.len() == 0 { assert(a + b =~= b); } else {
        assert((a + b).drop_first() =~= a.drop_first() + b);
        lemma_amt_sum_concat(a.drop_first(), b);
    }
}
pub proof fn lemma_win_sum_concat(a: Seq<SpendingEntry>, b: Seq<SpendingEntry>, c: int)
    ensures win_sum(a + b, c) == win_sum(a, c) + win_sum(b, c),
    decreases a.len()
{
    if a.len() == 0 { assert(a + b =~= b); } else {
        assert((a + b).drop_first() =~= a.drop_first() + b);
        lemma_win_sum_concat(a.drop_first(), b, c);
    }
}
pub proof fn lemma_amt_sum_push(h: Seq<SpendingEntry>, x: SpendingEntry)
    ensures amt_sum(h.push(x)) == amt_sum(h) + x.amount,
{
    assert(h.push(x) =~= h + seq![x]);
    lemma_amt_sum_concat(h, seq![x]);
    assert(seq![x].drop_first() =~= Seq::<SpendingEntry>::empty());
    assert(amt_sum(seq![x]) == x.amount as int + amt_sum(seq![x].drop_first()));
}
pub proof fn lemma_win_sum_push(h: Seq<SpendingEntry>, x: SpendingEntry, c: int)
    ensures win_sum(h.push(x), c) == win_sum(h, c) + (if x.ledger_sequence as int > c { x.amount as int } else { 0 }),
{
    assert(h.push(x) =~= h + seq![x]);
    lemma_win_sum_concat(h, seq![x], c);
    assert(seq![x].drop_first() =~= Seq::<SpendingEntry>::empty());
    assert(win_sum(seq![x], c) == (if x.ledger_sequence as int > c { x.amount as int } else { 0 }) + win_sum(seq![x].drop_first(), c));
}
pub proof fn lemma_win_all_out(a: Seq<SpendingEntry>, c: int)
    requires forall|i: int| 0 <= i < a.len() ==> (#[trigger] a[i]).ledger_sequence as int <= c,
    ensures win_sum(a, c) == 0,
    decreases a.len()
{
    if a.len() > 0 {
        assert(a[0].ledger_sequence as int <= c);
        assert forall|i: int| 0 <= i < a.drop_first().len() implies (#[trigger] a.drop_first()[i]).ledger_sequence as int <= c by {
            assert(a.drop_first()[i] == a[i + 1]);
        }
        lemma_win_all_out(a.drop_first(), c);
    }
}
pub proof fn lemma_win_all_in(a: Seq<SpendingEntry>, c: int)
    requires forall|i: int| 0 <= i < a.len() ==> (#[trigger] a[i]).ledger_sequence as int > c,
    ensures win_sum(a, c) == amt_sum(a),
    decreases a.len()
{
    if a.len() > 0 {
        assert(a[0].ledger_sequence as int > c);
        assert forall|i: int| 0 <= i < a.drop_first().len() implies (#[trigger] a.drop_first()[i]).ledger_sequence as int > c by {
            assert(a.drop_first()[i] == a[i + 1]);
        }
        lemma_win_all_in(a.drop_first(), c);
    }
}
pub proof fn lemma_win_sum_nonneg(a: Seq<SpendingEntry>, c: int)
    requires forall|i: int| 0 <= i < a.len() ==> (#[trigger] a[i]).amount >= 0,
    ensures 0 <= win_sum(a, c) <= amt_sum(a),
    decreases a.len()
{
    if a.len() > 0 {
        assert(a[0].amount >= 0);
        assert forall|i: int| 0 <= i < a.drop_first().len() implies (#[trigger] a.drop_first()[i]).amount >= 0 by {
            assert(a.drop_first()[i] == a[i + 1]);
        }
        lemma_win_sum_nonneg(a.drop_first(), c);
    }
}

/// on a history ordered by ledger the eviction rule removes exactly the entries at or before the
/// cutoff: what survives is the suffix after the first `sl_nexp` entries, all of it after the cutoff
pub proof fn lemma_cleanup_sorted(h: Seq<SpendingEntry>, c: u32)
    requires sl_sorted(h),
    ensures
        sl_nexp(h, c) <= h.len(),
        sl_cleanup(h, c) == h.skip(sl_nexp(h, c) as int),
        sl_removed(h, c) == amt_sum(h.take(sl_nexp(h, c) as int)),
        forall|i: int| 0 <= i < sl_nexp(h, c) ==> (#[trigger] h[i]).ledger_sequence <= c,
        forall|i: int| sl_nexp(h, c) <= i < h.len() ==> (#[trigger] h[i]).ledger_sequence > c,
    decreases h.len()
{
    if h.len() > 0 && h[0].ledger_sequence <= c {
        let t = h.drop_first();
        assert forall|i: int, j: int| 0 <= i <= j < t.len() implies (#[trigger] t[i]).ledger_sequence <= (#[trigger] t[j]).ledger_sequence by {
            assert(t[i] == h[i + 1] && t[j] == h[j + 1]);
        }
        lemma_cleanup_sorted(t, c);
        let n = sl_nexp(t, c) as int;
        assert(t.skip(n) =~= h.skip(n + 1));
        assert(h.take(n + 1).drop_first() =~= t.take(n));
        assert(h.take(n + 1)[0] == h[0]);
        assert forall|i: int| 0 <= i < n + 1 implies (#[trigger] h[i]).ledger_sequence <= c by {
            if i > 0 { assert(t[i - 1] == h[i]); }
        }
        assert forall|i: int| n + 1 <= i < h.len() implies (#[trigger] h[i]).ledger_sequence > c by {
            assert(t[i - 1] == h[i]);
        }
    } else {
        assert(h.skip(0) =~= h);
        assert(h.take(0) =~= Seq::<SpendingEntry>::empty());
        if h.len() > 0 {
            assert forall|i: int| 0 <= i < h.len() implies (#[trigger] h[i]).ledger_sequence > c by {
                assert(h[0].ledger_sequence <= h[i].ledger_sequence);
            }
        }
    }
}

/// C14 (rolling window): under the representation invariant, at any ledger now >= 1, what survives eviction
/// is exactly the entries of the last `period` ledgers, and the cached total minus the evicted amounts
/// is exactly their sum
pub proof fn lemma_sl_window(d: SpendingLimitData, now: u32)
    requires inv_sl(d, now),
    ensures
        //@@ C14:spending.window.cache_is_window_sum
        sl_spent(d, now) == win_sum(d.spending_history@, now as int - d.period_ledgers as int),
        amt_sum(sl_live(d, now)) == win_sum(d.spending_history@, now as int - d.period_ledgers as int),
        0 <= sl_spent(d, now) <= d.cached_total_spent,
        //@@ C14:spending.window.live_entries
        forall|i: int| 0 <= i < sl_live(d, now).len() ==> (#[trigger] sl_live(d, now)[i]).ledger_sequence as int > now as int - d.period_ledgers as int,
        sl_live(d, now) == d.spending_history@.skip(sl_nexp(d.spending_history@, sl_cutoff(now, d.period_ledgers)) as int),
{
    let h = d.spending_history@;
    let c = sl_cutoff(now, d.period_ledgers);
    let ci = now as int - d.period_ledgers as int;
    lemma_cleanup_sorted(h, c);
    let n = sl_nexp(h, c) as int;
    let (a, b) = (h.take(n), h.skip(n));
    assert(h =~= a + b);
    lemma_amt_sum_concat(a, b);
    lemma_win_sum_concat(a, b, ci);
    // entries have ledger >= 1, so "<= saturated cutoff" and "<= now - period" coincide
    assert forall|i: int| 0 <= i < a.len() implies (#[trigger] a[i]).ledger_sequence as int <= ci by {
        assert(a[i] == h[i]);
        assert(h[i].ledger_sequence <= c && h[i].ledger_sequence >= 1);
    }
    assert forall|i: int| 0 <= i < b.len() implies (#[trigger] b[i]).ledger_sequence as int > ci by {
        assert(b[i] == h[i + n]);
    }
    lemma_win_all_out(a, ci);
    lemma_win_all_in(b, ci);
    assert forall|i: int| 0 <= i < h.len() implies (#[trigger] h[i]).amount >= 0 by {}
    lemma_win_sum_nonneg(h, ci);
}

/// C14: one successful enforce keeps the representation invariant, and the amount spent in the window
/// that ends at `now` — including the new transfer — is within the limit in force
pub proof fn lemma_sl_enforce_step(d: SpendingLimitData, now: u32, amount: i128)
    requires
        inv_sl(d, now), now >= 1, amount >= 0,
        sl_live(d, now).len() < MAX_HISTORY_ENTRIES,
        sl_spent(d, now) + amount <= d.spending_limit,
    ensures
        //@@ C14:spending.enforce.keeps_invariant
        inv_sl(sl_enforce_data(d, now, amount), now),
        //@@ C14:spending.enforce.window_within_limit
        win_sum(sl_enforce_data(d, now, amount).spending_history@, now as int - d.period_ledgers as int) <= d.spending_limit,
        win_sum(sl_enforce_data(d, now, amount).spending_history@, now as int - d.period_ledgers as int)
            == win_sum(d.spending_history@, now as int - d.period_ledgers as int) + amount,
{
    let h = d.spending_history@;
    let ci = now as int - d.period_ledgers as int;
    let live = sl_live(d, now);
    let x = SpendingEntry { amount: amount, ledger_sequence: now };
    let d2 = sl_enforce_data(d, now, amount);
    lemma_sl_window(d, now);
    lemma_cleanup_sorted(h, sl_cutoff(now, d.period_ledgers));
    let n = sl_nexp(h, sl_cutoff(now, d.period_ledgers)) as int;
    assert(d2.spending_history@ == live.push(x));
    assert forall|i: int| 0 <= i < live.len() implies #[trigger] live[i] == h[i + n] by {}
    lemma_amt_sum_push(live, x);
    lemma_win_sum_push(live, x, ci);
    lemma_win_all_in(live, ci);
    assert forall|i: int, j: int| 0 <= i <= j < live.push(x).len() implies
        (#[trigger] live.push(x)[i]).ledger_sequence <= (#[trigger] live.push(x)[j]).ledger_sequence by {
        if j < live.len() { assert(live[i] == h[i + n] && live[j] == h[j + n]); }
        else if i < live.len() { assert(live[i] == h[i + n]); }
    }
    assert forall|i: int| 0 <= i < live.push(x).len() implies
        1 <= (#[trigger] live.push(x)[i]).ledger_sequence <= now && live.push(x)[i].amount >= 0 by {
        if i < live.len() { assert(live[i] == h[i + n]); }
    }
}
