// ================================================================================================
// C15 — RWA identity verifier (packages/tokens/src/rwa/identity_verifier/storage.rs): ghost vocabulary.
// The verifier keeps two addresses in instance storage and otherwise only talks to other contracts, so
// its contracts are stated over the ghost log `World.calls` (M8): what was asked, of whom, and what came back.
// ================================================================================================

pub open spec fn cur_irs(w: World) -> Option<Address> { dec::<Address>(iget(w, IdentityVerifierStorageKey::IdentityRegistryStorage)) }
pub open spec fn cur_cti(w: World) -> Option<Address> { dec::<Address>(iget(w, IdentityVerifierStorageKey::ClaimTopicsAndIssuers)) }

/// claim id as computed by identity_claims::generate_claim_id: keccak256(xdr(issuer) ‖ be32(topic))
pub open spec fn claim_id_spec(issuer: Address, topic: u32) -> Seq<u8> {
    keccak256_spec(xdr_spec(issuer.sv()) + be_u32(topic))
}

/// nothing of this contract changed except that calls were appended to the log (and `ext`, the state of the
/// other contracts, may have moved)
pub open spec fn calls_only(w: World, w2: World) -> bool {
    w2 == (World { calls: w2.calls, ext: w2.ext, ..w }) && w.calls.is_prefix_of(w2.calls)
}
pub open spec fn a_call(callee: Address, func: int, args: Seq<SV>, ret: SV) -> Call {
    Call { callee: callee, func: func, args: args, ret: ret, ok: true }
}
pub open spec fn sv_list_contains(list: SV, x: SV) -> bool {
    match list { SV::Vec(s) => s.contains(x), _ => false }
}

/// The evidence the PROPERTY asks for, for topic `t` and issuer `issuer`, found in the call log after position `lo`:
///  a: the identity contract was asked for its claim ids of topic `t` and the answer contains the id of (issuer, t)
///     — "the claim is held by the identity";
///  b: the identity contract was asked for that claim and the claim it returned has topic `t` and issuer `issuer`;
///  c: `issuer` itself was asked `is_claim_valid(identity, t, claim.scheme, claim.signature, claim.data)` and the
///     call returned normally with `()` — i.e. the `try_` call gave Ok(Ok(())).
pub open spec fn claim_witness(calls: Seq<Call>, lo: int, identity: Address, t: u32, issuer: Address, a: int, b: int, c: int) -> bool {
    let claim = Claim::unsv(calls[b].ret);
    &&& 0 <= lo < a < b < c < calls.len()
    &&& calls[a].ok && calls[a].callee == identity && calls[a].func == fn_get_claim_ids_by_topic() && calls[a].args == seq![t.sv()]
    &&& sv_list_contains(calls[a].ret, SV::Bytes(claim_id_spec(issuer, t)))
    &&& calls[b].ok && calls[b].callee == identity && calls[b].func == fn_get_claim() && calls[b].args == seq![SV::Bytes(claim_id_spec(issuer, t))]
    &&& claim.sv() == calls[b].ret && claim.topic == t && claim.issuer == issuer
    &&& calls[c].ok && calls[c].callee == issuer && calls[c].func == fn_is_claim_valid() && calls[c].ret == SV::Void
    &&& calls[c].args == ClaimIssuerClient::is_claim_valid_args(identity, t, claim.scheme, claim.signature, claim.data)
}
/// "there is an issuer in that topic's trusted-issuer list whose claim is held by the identity, has that topic and
/// issuer, and whose is_claim_valid call returned Ok(Ok(()))"
pub open spec fn topic_verified(calls: Seq<Call>, lo: int, identity: Address, t: u32, issuers: Seq<Address>) -> bool {
    exists|j: int, a: int, b: int, c: int| 0 <= j < issuers.len() && #[trigger] claim_witness(calls, lo, identity, t, issuers[j], a, b, c)
}

/// the statement-level postcondition of verify_identity (C15), over the pre-state, the post-state and `account`
pub open spec fn verify_identity_post(w: World, w2: World, account: Address) -> bool {
    let n0 = w.calls.len() as int;
    let identity = Address::unsv(w2.calls[n0].ret);
    let tai = SdkMap::<u32, Vec<Address>>::unsv(w2.calls[n0 + 1].ret);
    &&& cur_irs(w).is_some() && cur_cti(w).is_some()
    &&& w2.calls.len() >= n0 + 2
    // whose identity: the one the identity registry storage holds for `account`
    &&& w2.calls[n0] == a_call(cur_irs(w).unwrap(), fn_stored_identity(), seq![account.sv()], identity.sv())
    // which topics, which issuers: what the claim-topics-and-issuers registry says NOW
    &&& w2.calls[n0 + 1] == a_call(cur_cti(w).unwrap(), fn_get_claim_topics_and_issuers(), Seq::<SV>::empty(), tai.sv())
    // for EVERY required topic there is a trusted issuer with a held, matching claim that the issuer confirmed
    &&& forall|k: int| 0 <= k < tai@.len() ==> #[trigger] topic_verified(w2.calls, n0 + 1, identity, tai@[k].0, tai@[k].1@)
}
/// the same, restricted to the first `n` topics (loop invariant)
pub open spec fn topics_verified_upto(calls: Seq<Call>, lo: int, identity: Address, tai: Seq<(u32, Vec<Address>)>, n: int) -> bool {
    forall|k: int| 0 <= k < n && k < tai.len() ==> #[trigger] topic_verified(calls, lo, identity, tai[k].0, tai[k].1@)
}

// ---- the log only grows: evidence found once stays ----
pub proof fn lemma_witness_prefix(calls: Seq<Call>, calls2: Seq<Call>, lo: int, identity: Address, t: u32, issuer: Address, a: int, b: int, c: int)
    requires claim_witness(calls, lo, identity, t, issuer, a, b, c), calls.is_prefix_of(calls2),
    ensures claim_witness(calls2, lo, identity, t, issuer, a, b, c),
{
    let s = calls2.subrange(0, calls.len() as int);
    assert(calls == s);
    assert(s[a] == calls2[a] && s[b] == calls2[b] && s[c] == calls2[c]);
}
pub proof fn lemma_verified_prefix(calls: Seq<Call>, calls2: Seq<Call>, lo: int, identity: Address, t: u32, issuers: Seq<Address>)
    requires topic_verified(calls, lo, identity, t, issuers), calls.is_prefix_of(calls2),
    ensures topic_verified(calls2, lo, identity, t, issuers),
{
    let (j, a, b, c) = choose|j: int, a: int, b: int, c: int| 0 <= j < issuers.len() && #[trigger] claim_witness(calls, lo, identity, t, issuers[j], a, b, c);
    lemma_witness_prefix(calls, calls2, lo, identity, t, issuers[j], a, b, c);
}
pub proof fn lemma_upto_prefix(calls: Seq<Call>, calls2: Seq<Call>, lo: int, identity: Address, tai: Seq<(u32, Vec<Address>)>, n: int)
    requires topics_verified_upto(calls, lo, identity, tai, n), calls.is_prefix_of(calls2),
    ensures topics_verified_upto(calls2, lo, identity, tai, n),
{
    assert forall|k: int| 0 <= k < n && k < tai.len() implies #[trigger] topic_verified(calls2, lo, identity, tai[k].0, tai[k].1@) by {
        lemma_verified_prefix(calls, calls2, lo, identity, tai[k].0, tai[k].1@);
    }
}

// ---- C15, the property's negative clauses read off the witness: what can NOT count ----
/// a claim for another topic, from another issuer, or one its issuer did not confirm with Ok(Ok(())) is never part of a witness
pub proof fn lemma_witness_excludes(calls: Seq<Call>, lo: int, identity: Address, t: u32, issuer: Address, a: int, b: int, c: int)
    requires claim_witness(calls, lo, identity, t, issuer, a, b, c),
    ensures
        //@@ C15:witness.claim_has_topic_and_issuer
        Claim::unsv(calls[b].ret).topic == t && Claim::unsv(calls[b].ret).issuer == issuer,
        //@@ C15:witness.issuer_confirmed
        calls[c].callee == issuer && calls[c].ok && calls[c].ret == SV::Void,
        //@@ C15:witness.calls_of_this_invocation
        lo < a && lo < b && lo < c,
{}
/// an issuer that is not in the topic's trusted-issuer list cannot make the topic count
pub proof fn lemma_untrusted_issuer_never_counts(calls: Seq<Call>, lo: int, identity: Address, t: u32, issuers: Seq<Address>)
    requires topic_verified(calls, lo, identity, t, issuers),
    ensures
        //@@ C15:verified.issuer_is_listed
        exists|j: int, a: int, b: int, c: int| 0 <= j < issuers.len() && #[trigger] claim_witness(calls, lo, identity, t, issuers[j], a, b, c)
            && issuers.contains(issuers[j]) && calls[c].callee == issuers[j],
        //@@ C15:verified.needs_an_issuer
        issuers.len() > 0,
{
    let (j, a, b, c) = choose|j: int, a: int, b: int, c: int| 0 <= j < issuers.len() && #[trigger] claim_witness(calls, lo, identity, t, issuers[j], a, b, c);
    assert(issuers.contains(issuers[j]));
}

// ---- loop vocabulary for verify_identity ----
/// log position of the second call of verify_identity; the per-topic evidence lies after it
pub open spec fn vi_lo(w: World) -> int { w.calls.len() as int + 1 }
/// the first two calls of verify_identity: whose identity, and which topics / issuers are required NOW
pub open spec fn vi_head(w: World, calls: Seq<Call>, account: Address, identity: Address, tai: SdkMap<u32, Vec<Address>>) -> bool {
    let n0 = w.calls.len() as int;
    &&& cur_irs(w).is_some() && cur_cti(w).is_some()
    &&& calls.len() >= n0 + 2
    &&& calls[n0] == a_call(cur_irs(w).unwrap(), fn_stored_identity(), seq![account.sv()], identity.sv())
    &&& calls[n0 + 1] == a_call(cur_cti(w).unwrap(), fn_get_claim_topics_and_issuers(), Seq::<SV>::empty(), tai.sv())
}
/// what the eagerly mapped enumerate of the inner loop yields: (issuer, its claim id for the topic, "is the last one")
pub open spec fn vi_items(items: Seq<(Address, BytesN<32>, bool)>, issuers: Seq<Address>, t: u32) -> bool {
    &&& items.len() == issuers.len()
    &&& forall|i: int| 0 <= i < items.len() ==> (#[trigger] items[i]).0 == issuers[i] && items[i].1@ == claim_id_spec(issuers[i], t)
            && (items[i].2 <==> i == issuers.len() - 1)
}
pub proof fn lemma_vi_post(w: World, w2: World, account: Address, identity: Address, tai: SdkMap<u32, Vec<Address>>)
    requires vi_head(w, w2.calls, account, identity, tai),
        topics_verified_upto(w2.calls, vi_lo(w), identity, tai@, tai@.len() as int),
    ensures verify_identity_post(w, w2, account),
{
    identity.lemma_rt();
    tai.lemma_rt();
    let n0 = w.calls.len() as int;
    assert(Address::unsv(w2.calls[n0].ret) == identity);
    assert(SdkMap::<u32, Vec<Address>>::unsv(w2.calls[n0 + 1].ret) == tai);
}
/// the id list returned by the identity contract contains `id` (exec `contains` on the decoded list) ⇒ so does its encoding
pub proof fn lemma_ids_contains(ids: Vec<BytesN<32>>, id: BytesN<32>)
    requires ids@.contains(id),
    ensures sv_list_contains(ids.sv(), SV::Bytes(id@)),
{
    let i = choose|i: int| 0 <= i < ids@.len() && ids@[i] == id;
    let s = Seq::new(ids@.len(), |i: int| ids@[i].sv());
    assert(s[i] == SV::Bytes(id@));
}
