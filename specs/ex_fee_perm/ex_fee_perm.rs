// expanded fee-forwarder-permissioned example (C19 forward wiring, C06 role guards)
pub open spec fn xrole(name: Seq<char>) -> Symbol { Symbol { code: Ghost(str_code(name)) } }
pub open spec fn executor_role() -> Symbol { xrole("executor"@) }
pub open spec fn manager_role() -> Symbol { xrole("manager"@) }
