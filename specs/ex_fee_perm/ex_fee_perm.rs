// expanded fee-forwarder-permissioned example (C19 forward wiring, C06 role guards)
pub open spec fn xrole(name: Seq<char>) -> Symbol { Symbol { code: Ghost(str_code(name)) } }
pub open spec fn executor_role() -> Symbol { xrole("executor"@) }
pub open spec fn manager_role() -> Symbol { xrole("manager"@) }
/// the world after the first n executors of the constructor's list were granted the executor role (no auth, by `admin`)
pub open spec fn grant_all(w: World, xs: Seq<Address>, n: int, role: Symbol, caller: Address) -> World
    decreases n
{
    if n <= 0 { w } else { grant_na_post(grant_all(w, xs, n - 1, role, caller), xs[n - 1], role, caller) }
}
/// constructor state before the executors loop: admin stored, manager granted
pub open spec fn ctor_pre(w: World, admin: Address, manager: Address) -> World {
    grant_na_post(iset(w, AccessControlStorageKey::Admin, admin.sv()), manager, manager_role(), admin)
}
