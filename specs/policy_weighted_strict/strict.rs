// ---- strict flavour (pass B) of unit `policy_weighted` (C14, converse direction "can_enforce agrees with whether enforce
// ---- would succeed"): EVERY contract error (NotAllowed, SmartAccountNotInstalled, MathOverflow, ...) is a proof
// ---- obligation (`sdk_panic_strict requires false`), a diverging closure (`unwrap_or_else(|| panic_with_error!(..))`)
// ---- gets `requires false`, arithmetic is native (overflow = obligation).  `require_auth` is modelled as returning: its
// ---- refusal is the one legitimate way for `enforce` not to return in a state where `can_enforce` says yes.
#[verifier::external_body]
pub fn sdk_panic_strict(code: u32) -> !
    requires false
{ panic!() }
macro_rules! panic_with_error {
    ($e:expr, $err:expr) => { sdk_panic_strict($err as u32) };
}

/// weights are non-negative, so the sum over a prefix of the supplied signers never exceeds the sum over all of them:
/// if the whole sum fits u32, no intermediate `checked_add` of calculate_weight can fail
pub proof fn lemma_wt_sum_prefix_le(m: Seq<(Signer, u32)>, signers: Seq<Signer>, i: int)
    requires 0 <= i <= signers.len(),
    ensures
        //@@ C14:weighted.strict.prefix_sum_le_sum
        0 <= wt_sum(m, signers.take(i)) <= wt_sum(m, signers),
    decreases signers.len() - i
{
    lemma_wt_sum_nonneg(m, signers.take(i));
    if i == signers.len() {
        assert(signers.take(i) =~= signers);
    } else {
        lemma_take_step(signers, i);
        lemma_wt_sum_prefix_le(m, signers, i + 1);
    }
}
