// ---- shared lemma library: sum of a projection over a finite map (DESIGN.md §2.3) ----
pub open spec fn psum<K, V>(m: Map<K, V>, f: spec_fn(K, V) -> int) -> int
    decreases m.dom().len()
{
    if m.dom().len() == 0 { 0 } else {
        let k = m.dom().choose();
        f(k, m[k]) + psum(m.remove(k), f)
    }
}

pub proof fn lemma_psum_remove<K, V>(m: Map<K, V>, f: spec_fn(K, V) -> int, k: K)
    requires m.dom().contains(k)
    ensures psum(m, f) == f(k, m[k]) + psum(m.remove(k), f)
    decreases m.dom().len()
{
    let c = m.dom().choose();
    assert(m.dom().len() != 0) by { if m.dom().len() == 0 { assert(m.dom() =~= Set::empty()); } }
    if c == k {
    } else {
        lemma_psum_remove(m.remove(c), f, k);
        lemma_psum_remove(m.remove(k), f, c);
        assert(m.remove(c).remove(k) =~= m.remove(k).remove(c));
    }
}

pub proof fn lemma_psum_insert<K, V>(m: Map<K, V>, f: spec_fn(K, V) -> int, k: K, v: V)
    ensures psum(m.insert(k, v), f) == psum(m, f) + f(k, v) - (if m.dom().contains(k) { f(k, m[k]) } else { 0 })
{
    let m2 = m.insert(k, v);
    lemma_psum_remove(m2, f, k);
    assert(m2.remove(k) =~= m.remove(k));
    if m.dom().contains(k) {
        lemma_psum_remove(m, f, k);
    } else {
        assert(m.remove(k) =~= m);
    }
}

pub proof fn lemma_psum_remove_key<K, V>(m: Map<K, V>, f: spec_fn(K, V) -> int, k: K)
    ensures psum(m.remove(k), f) == psum(m, f) - (if m.dom().contains(k) { f(k, m[k]) } else { 0 })
{
    if m.dom().contains(k) { lemma_psum_remove(m, f, k); } else { assert(m.remove(k) =~= m); }
}

pub proof fn lemma_psum_nonneg<K, V>(m: Map<K, V>, f: spec_fn(K, V) -> int)
    requires forall|j: K| m.dom().contains(j) ==> f(j, m[j]) >= 0
    ensures psum(m, f) >= 0
    decreases m.dom().len()
{
    if m.dom().len() != 0 {
        let c = m.dom().choose();
        lemma_psum_nonneg(m.remove(c), f);
    }
}

pub proof fn lemma_psum_bound<K, V>(m: Map<K, V>, f: spec_fn(K, V) -> int, k: K)
    requires m.dom().contains(k), forall|j: K| m.dom().contains(j) ==> f(j, m[j]) >= 0
    ensures f(k, m[k]) <= psum(m, f), psum(m, f) >= 0
{
    lemma_psum_nonneg(m, f);
    lemma_psum_remove(m, f, k);
    lemma_psum_nonneg(m.remove(k), f);
}

pub proof fn lemma_psum_bound2<K, V>(m: Map<K, V>, f: spec_fn(K, V) -> int, k1: K, k2: K)
    requires m.dom().contains(k1), m.dom().contains(k2), k1 != k2,
        forall|j: K| m.dom().contains(j) ==> f(j, m[j]) >= 0
    ensures f(k1, m[k1]) + f(k2, m[k2]) <= psum(m, f)
{
    lemma_psum_remove(m, f, k1);
    lemma_psum_bound(m.remove(k1), f, k2);
}

pub proof fn lemma_psum_empty<K, V>(f: spec_fn(K, V) -> int)
    ensures psum(Map::<K, V>::empty(), f) == 0
{
    assert(Map::<K, V>::empty().dom().len() == 0);
}
