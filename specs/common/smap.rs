// ---- the association-sequence model of soroban_sdk::Map behaves like a map (proved, not assumed; generic part copied from
//      specs/policy_weighted/lemmas.rs so that units without the weighted-policy types can use it) ----
pub proof fn lemma_smap_idx_char<K, V>(s: Seq<(K, V)>, k: K)
    ensures
        -1 <= smap_idx(s, k) < s.len(),
        smap_idx(s, k) >= 0 ==> s[smap_idx(s, k)].0 == k,
        forall|j: int| 0 <= j < s.len() && (smap_idx(s, k) < 0 || j < smap_idx(s, k)) ==> (#[trigger] s[j]).0 != k,
    decreases s.len()
{
    if s.len() > 0 && s[0].0 != k {
        let t = s.drop_first();
        lemma_smap_idx_char(t, k);
        assert forall|j: int| 0 <= j < s.len() && (smap_idx(s, k) < 0 || j < smap_idx(s, k)) implies (#[trigger] s[j]).0 != k by {
            if j > 0 { assert(t[j - 1] == s[j]); }
        }
    }
}
/// the first index holding key k is determined by its characterisation
pub proof fn lemma_smap_idx_unique<K, V>(s: Seq<(K, V)>, k: K, r: int)
    requires
        -1 <= r < s.len(),
        r >= 0 ==> s[r].0 == k,
        forall|j: int| 0 <= j < s.len() && (r < 0 || j < r) ==> (#[trigger] s[j]).0 != k,
    ensures smap_idx(s, k) == r,
{
    lemma_smap_idx_char(s, k);
    let i = smap_idx(s, k);
    if i >= 0 && (r < 0 || i < r) { assert(s[i].0 != k); }
    if r >= 0 && (i < 0 || r < i) { assert(s[r].0 != k); }
}
pub proof fn lemma_smap_idx_wf<K, V>(s: Seq<(K, V)>, i: int)
    requires smap_wf(s), 0 <= i < s.len(),
    ensures smap_idx(s, s[i].0) == i, smap_get(s, s[i].0) == Some(s[i].1),
{
    assert forall|j: int| 0 <= j < i implies (#[trigger] s[j]).0 != s[i].0 by {
        assert(s[j].0 != s[i].0);
    }
    lemma_smap_idx_unique(s, s[i].0, i);
}
/// read-over-write for `Map::set`, and well-formedness is preserved
pub proof fn lemma_smap_get_set<K, V>(s: Seq<(K, V)>, k: K, v: V, k2: K)
    requires smap_wf(s),
    ensures

        smap_get(smap_set(s, k, v), k2) == (if k2 == k { Some(v) } else { smap_get(s, k2) }),
        smap_wf(smap_set(s, k, v)),
{
    lemma_smap_idx_char(s, k);
    lemma_smap_idx_char(s, k2);
    lemma_smap_pos(s, k);
    let i = smap_idx(s, k);
    let s2 = smap_set(s, k, v);
    if i >= 0 {
        // update in place
        assert forall|a: int, b: int| 0 <= a < s2.len() && 0 <= b < s2.len() && a != b implies (#[trigger] s2[a]).0 != (#[trigger] s2[b]).0 by {
            assert(s2[a].0 == s[a].0 && s2[b].0 == s[b].0);
        }
        let r = smap_idx(s, k2);
        assert forall|j: int| 0 <= j < s2.len() && (r < 0 || j < r) implies (#[trigger] s2[j]).0 != k2 by {
            assert(s2[j].0 == s[j].0);
        }
        if r >= 0 { assert(s2[r].0 == s[r].0); }
        lemma_smap_idx_unique(s2, k2, r);
        if k2 == k { assert(r == i); } else if r >= 0 { assert(r != i); assert(s2[r] == s[r]); }
    } else {
        // insert at the host's position p
        let p = smap_pos(s, k);
        assert forall|j: int| 0 <= j < s2.len() implies
            #[trigger] s2[j] == (if j < p { s[j] } else if j == p { (k, v) } else { s[j - 1] }) by {}
        assert forall|a: int, b: int| 0 <= a < s2.len() && 0 <= b < s2.len() && a != b implies (#[trigger] s2[a]).0 != (#[trigger] s2[b]).0 by {
            let oa = if a < p { a } else { a - 1 };
            let ob = if b < p { b } else { b - 1 };
            if a != p && b != p { assert(s[oa].0 != s[ob].0); }
            else if a == p { assert(s[ob].0 != k); }
            else { assert(s[oa].0 != k); }
        }
        if k2 == k {
            assert forall|j: int| 0 <= j < p implies (#[trigger] s2[j]).0 != k2 by { assert(s[j].0 != k); }
            lemma_smap_idx_unique(s2, k2, p);
        } else {
            let r = smap_idx(s, k2);
            let r2 = if r < 0 { -1 } else if r < p { r } else { r + 1 };
            assert forall|j: int| 0 <= j < s2.len() && (r2 < 0 || j < r2) implies (#[trigger] s2[j]).0 != k2 by {
                if j < p { assert(s[j].0 != k2); } else if j > p { assert(s[j - 1].0 != k2); }
            }
            lemma_smap_idx_unique(s2, k2, r2);
        }
    }
}
