// =================================================================================================
// sequences used as duplicate-free lists (generic facts, proved): first index, push / remove-first / filter
// =================================================================================================
#[verifier::opaque]
pub open spec fn first_idx<T>(s: Seq<T>, x: T) -> int { choose|i: int| 0 <= i < s.len() && s[i] == x && forall|j: int| 0 <= j < i ==> s[j] != x }
pub proof fn lemma_first_idx<T>(s: Seq<T>, x: T, p: int)
    requires 0 <= p < s.len(), s[p] == x, forall|j: int| 0 <= j < p ==> s[j] != x,
    ensures first_idx(s, x) == p,
{
    reveal(first_idx);
    let q = first_idx(s, x);
    assert(0 <= q < s.len() && s[q] == x && forall|j: int| 0 <= j < q ==> s[j] != x);
    if q < p { assert(s[q] != x); }
    if p < q { assert(s[p] != x); }
}
pub proof fn lemma_first_exists<T>(s: Seq<T>, x: T, w: int)
    requires 0 <= w < s.len(), s[w] == x,
    ensures 0 <= first_idx(s, x) < s.len(), s[first_idx(s, x)] == x, forall|j: int| 0 <= j < first_idx(s, x) ==> s[j] != x,
    decreases w
{
    reveal(first_idx);
    if exists|j: int| 0 <= j < w && s[j] == x {
        let j = choose|j: int| 0 <= j < w && s[j] == x;
        lemma_first_exists(s, x, j);
    } else {
        assert(0 <= w < s.len() && s[w] == x && forall|j: int| 0 <= j < w ==> s[j] != x);
    }
}
pub proof fn lemma_first_idx_contains<T>(s: Seq<T>, x: T)
    requires s.contains(x),
    ensures 0 <= first_idx(s, x) < s.len(), s[first_idx(s, x)] == x, forall|j: int| 0 <= j < first_idx(s, x) ==> s[j] != x,
{
    let w = choose|i: int| 0 <= i < s.len() && s[i] == x;
    lemma_first_exists(s, x, w);
}
/// `s` without the first occurrence of `x` (unchanged when `x` does not occur)
pub open spec fn seq_del<T>(s: Seq<T>, x: T) -> Seq<T> { if s.contains(x) { s.remove(first_idx(s, x)) } else { s } }

pub proof fn lemma_push_facts<T>(s: Seq<T>, x: T)
    requires s.no_duplicates(), !s.contains(x),
    ensures s.push(x).no_duplicates(), forall|y: T| #[trigger] s.push(x).contains(y) <==> (s.contains(y) || y == x),
{
    lemma_push_contains(s, x);
    assert forall|i: int, j: int| 0 <= i < s.push(x).len() && 0 <= j < s.push(x).len() && i != j implies s.push(x)[i] != s.push(x)[j] by {
        if i < s.len() && j < s.len() {} else if i < s.len() { assert(s[i] != x); } else if j < s.len() { assert(s[j] != x); }
    }
}
pub proof fn lemma_push_contains<T>(s: Seq<T>, x: T)
    ensures forall|y: T| #[trigger] s.push(x).contains(y) <==> (s.contains(y) || y == x),
{
    assert forall|y: T| #[trigger] s.push(x).contains(y) <==> (s.contains(y) || y == x) by {
        if s.contains(y) { let i = choose|i: int| 0 <= i < s.len() && s[i] == y; assert(s.push(x)[i] == y); }
        if y == x { assert(s.push(x)[s.len() as int] == x); }
        if s.push(x).contains(y) {
            let i = choose|i: int| 0 <= i < s.push(x).len() && s.push(x)[i] == y;
            if i < s.len() { assert(s[i] == y); }
        }
    }
}
pub proof fn lemma_del_facts<T>(s: Seq<T>, x: T)
    requires s.no_duplicates(),
    ensures seq_del(s, x).no_duplicates(),
        forall|y: T| #[trigger] seq_del(s, x).contains(y) <==> (s.contains(y) && y != x),
        seq_del(s, x).len() == (if s.contains(x) { s.len() - 1 } else { s.len() as int }),
{
    if s.contains(x) {
        lemma_first_idx_contains(s, x);
        let p = first_idx(s, x);
        let t = s.remove(p);
        assert forall|y: T| #[trigger] t.contains(y) <==> (s.contains(y) && y != x) by {
            if t.contains(y) {
                let i = choose|i: int| 0 <= i < t.len() && t[i] == y;
                if i < p { assert(s[i] == y); } else { assert(s[i + 1] == y); }
            }
            if s.contains(y) && y != x {
                let i = choose|i: int| 0 <= i < s.len() && s[i] == y;
                if i < p { assert(t[i] == y); } else { assert(t[i - 1] == y); }
            }
        }
        assert forall|i: int, j: int| 0 <= i < t.len() && 0 <= j < t.len() && i != j implies t[i] != t[j] by {
            let i2 = if i < p { i } else { i + 1 };
            let j2 = if j < p { j } else { j + 1 };
            assert(t[i] == s[i2] && t[j] == s[j2]);
        }
    }
}
pub proof fn lemma_take_step<T>(s: Seq<T>, n: int)
    requires 0 <= n < s.len(),
    ensures s.take(n + 1) =~= s.take(n).push(s[n]),
        forall|y: T| #[trigger] s.take(n + 1).contains(y) <==> (s.take(n).contains(y) || y == s[n]),
{
    assert(s.take(n + 1) =~= s.take(n).push(s[n]));
    lemma_push_contains(s.take(n), s[n]);
}
pub proof fn lemma_take_nodup<T>(s: Seq<T>, n: int)
    requires s.no_duplicates(), 0 <= n <= s.len(),
    ensures s.take(n).no_duplicates(), n < s.len() ==> !s.take(n).contains(s[n]),
{
    if n < s.len() && s.take(n).contains(s[n]) {
        let i = choose|i: int| 0 <= i < s.take(n).len() && s.take(n)[i] == s[n];
        assert(s[i] == s[n]);
    }
}
pub proof fn lemma_take_all<T>(s: Seq<T>)
    ensures s.take(s.len() as int) =~= s,
{}
/// the model's checked `/` and `%` (T6) on non-negative operands are Euclidean division and remainder
pub proof fn lemma_ck_div_rem(a: int, b: int)
    requires a >= 0, b > 0,
    ensures rust_div(a, b) == a / b, rust_rem(a, b) == a % b,
{
    vstd::arithmetic::div_mod::lemma_fundamental_div_mod(a, b);
    vstd::arithmetic::mul::lemma_mul_is_commutative(a / b, b);
}
