// =================================================================================================
// doc_manager, lemma layer (C20): set_document = map insert / overwrite, remove_document = map remove (swap-and-pop
// keeps Index <-> position a bijection), history lemma against a reference Map
// =================================================================================================
/// worlds with the same persistent store have the same document views
pub proof fn lemma_dm_frame(w: World, w2: World)
    requires w2.persistent == w.persistent,
    ensures
        dcount(w2) == dcount(w),
        forall|n: BytesN<32>| #[trigger] didx(w2, n) == didx(w, n),
        forall|b: u32| #[trigger] dbucket(w2, b) == dbucket(w, b),
        forall|i: int| #[trigger] doc_at(w2, i) == doc_at(w, i),
        forall|n: BytesN<32>| #[trigger] doc_of(w2, n) == doc_of(w, n),
        inv_dm(w2) == inv_dm(w),
{
    assert(pget(w2, k_dcount()) == pget(w, k_dcount()));
    assert forall|n: BytesN<32>| #[trigger] didx(w2, n) == didx(w, n) by { assert(pget(w2, k_didx(n)) == pget(w, k_didx(n))); }
    assert forall|b: u32| #[trigger] dbucket(w2, b) == dbucket(w, b) by { assert(pget(w2, k_dbkt(b)) == pget(w, k_dbkt(b))); }
    assert forall|i: int| #[trigger] doc_at(w2, i) == doc_at(w, i) by { assert(dbucket(w2, (i / 50) as u32) == dbucket(w, (i / 50) as u32)); }
    assert forall|n: BytesN<32>| #[trigger] doc_of(w2, n) == doc_of(w, n) by { assert(didx(w2, n) == didx(w, n)); }
    if inv_dm(w) { lemma_dm_frame_inv(w, w2); }
    if inv_dm(w2) { lemma_dm_frame_inv(w2, w); }
}
pub proof fn lemma_dm_frame_inv(w: World, w2: World)
    requires inv_dm(w), dcount(w2) == dcount(w),
        forall|n: BytesN<32>| #[trigger] didx(w2, n) == didx(w, n),
        forall|b: u32| #[trigger] dbucket(w2, b) == dbucket(w, b),
        forall|i: int| #[trigger] doc_at(w2, i) == doc_at(w, i),
    ensures inv_dm(w2),
{
    assert forall|b: u32| (#[trigger] dbucket(w2, b)).len() == want_len50(dcount(w2) as int, b as int) by { assert(dbucket(w2, b) == dbucket(w, b)); }
    assert forall|n: BytesN<32>| (#[trigger] didx(w2, n)).is_some() implies didx(w2, n).unwrap() < dcount(w2) && doc_at(w2, didx(w2, n).unwrap() as int).0 == n by {
        assert(didx(w2, n) == didx(w, n));
        assert(doc_at(w2, didx(w, n).unwrap() as int) == doc_at(w, didx(w, n).unwrap() as int));
    }
    assert forall|i: int| 0 <= i < dcount(w2) implies didx(w2, (#[trigger] doc_at(w2, i)).0) == Some(i as u32) by {
        assert(doc_at(w2, i) == doc_at(w, i));
        assert(didx(w2, doc_at(w, i).0) == didx(w, doc_at(w, i).0));
    }
}

pub proof fn lemma_set_doc_pw(w: World, n: BytesN<32>, uri: String, hash: BytesN<32>)
    requires didx(w, n).is_none() ==> dcount(w) < MAX_DOCUMENTS,
    ensures
        ({
            let w2 = set_doc_core(w, n, uri, hash); let d = new_doc(w, uri, hash); let c = dcount(w);
            match didx(w, n) {
                Some(i) => dcount(w2) == c && (forall|n2: BytesN<32>| #[trigger] didx(w2, n2) == didx(w, n2))
                    && (forall|b: u32| #[trigger] dbucket_opt(w2, b) == (if b == i / 50 { Some(dbucket(w, b).update((i % 50) as int, (n, d))) } else { dbucket_opt(w, b) })),
                None => dcount(w2) == c + 1 && (forall|n2: BytesN<32>| #[trigger] didx(w2, n2) == (if n2 == n { Some(c) } else { didx(w, n2) }))
                    && (forall|b: u32| #[trigger] dbucket_opt(w2, b) == (if b == c / 50 { Some(dbucket(w, b).push((n, d))) } else { dbucket_opt(w, b) })),
            }
        }),
{
    broadcast use sdk_store;
}
pub proof fn lemma_set_doc_core(w: World, n: BytesN<32>, uri: String, hash: BytesN<32>)
    requires inv_dm(w), set_doc_guard(w, n, uri),
    ensures
        inv_dm(set_doc_core(w, n, uri, hash)),
        forall|n2: BytesN<32>| #[trigger] doc_of(set_doc_core(w, n, uri, hash), n2) == (if n2 == n { Some(new_doc(w, uri, hash)) } else { doc_of(w, n2) }),
        dcount(set_doc_core(w, n, uri, hash)) == dcount(w) + (if didx(w, n).is_some() { 0int } else { 1int }),
{
    let w2 = set_doc_core(w, n, uri, hash); let d = new_doc(w, uri, hash); let c = dcount(w) as int;
    lemma_set_doc_pw(w, n, uri, hash);
    match didx(w, n) {
        Some(i) => {
            assert(i < c && doc_at(w, i as int).0 == n);
            assert forall|b: u32| #[trigger] dbucket(w2, b) == (if b == i / 50 { dbucket(w, b).update((i % 50) as int, (n, d)) } else { dbucket(w, b) }) by {
                assert(dbucket_opt(w2, b) == (if b == i / 50 { Some(dbucket(w, b).update((i % 50) as int, (n, d))) } else { dbucket_opt(w, b) }));
            }
            assert forall|j: int| 0 <= j < c implies #[trigger] doc_at(w2, j) == (if j == i { (n, d) } else { doc_at(w, j) }) by {
                let b = (j / 50) as u32;
                assert(dbucket(w, b).len() == want_len50(c, b as int));
                assert(dbucket(w2, b) == (if b == i / 50 { dbucket(w, b).update((i % 50) as int, (n, d)) } else { dbucket(w, b) }));
                if b == i / 50 && j % 50 == i % 50 { assert(j == i); }
            }
            assert forall|b: u32| (#[trigger] dbucket(w2, b)).len() == want_len50(c, b as int) by { assert(dbucket(w, b).len() == want_len50(c, b as int)); }
            assert forall|n2: BytesN<32>| (#[trigger] didx(w2, n2)).is_some() implies didx(w2, n2).unwrap() < dcount(w2) && doc_at(w2, didx(w2, n2).unwrap() as int).0 == n2 by {
                assert(didx(w2, n2) == didx(w, n2));
                let k = didx(w, n2).unwrap() as int;
                assert(doc_at(w2, k) == (if k == i { (n, d) } else { doc_at(w, k) }));
            }
            assert forall|j: int| 0 <= j < dcount(w2) implies didx(w2, (#[trigger] doc_at(w2, j)).0) == Some(j as u32) by {
                assert(doc_at(w2, j) == (if j == i { (n, d) } else { doc_at(w, j) }));
                assert(didx(w, doc_at(w, j).0) == Some(j as u32));
                assert(didx(w2, doc_at(w2, j).0) == didx(w, doc_at(w2, j).0));
            }
            assert forall|n2: BytesN<32>| #[trigger] doc_of(w2, n2) == (if n2 == n { Some(d) } else { doc_of(w, n2) }) by {
                assert(didx(w2, n2) == didx(w, n2));
                if didx(w, n2).is_some() {
                    let k = didx(w, n2).unwrap() as int;
                    assert(doc_at(w2, k) == (if k == i { (n, d) } else { doc_at(w, k) }));
                    assert(doc_at(w, k).0 == n2);
                }
            }
        }
        None => {
            assert forall|b: u32| #[trigger] dbucket(w2, b) == (if b == c / 50 { dbucket(w, b).push((n, d)) } else { dbucket(w, b) }) by {
                assert(dbucket_opt(w2, b) == (if b == dcount(w) / 50 { Some(dbucket(w, b).push((n, d))) } else { dbucket_opt(w, b) }));
            }
            assert forall|b: u32| (#[trigger] dbucket(w2, b)).len() == want_len50(c + 1, b as int) by { assert(dbucket(w, b).len() == want_len50(c, b as int)); }
            assert forall|j: int| 0 <= j <= c implies #[trigger] doc_at(w2, j) == (if j == c { (n, d) } else { doc_at(w, j) }) by {
                let b = (j / 50) as u32;
                assert(dbucket(w, b).len() == want_len50(c, b as int));
                assert(dbucket(w2, b) == (if b == c / 50 { dbucket(w, b).push((n, d)) } else { dbucket(w, b) }));
            }
            assert forall|n2: BytesN<32>| (#[trigger] didx(w2, n2)).is_some() implies didx(w2, n2).unwrap() < dcount(w2) && doc_at(w2, didx(w2, n2).unwrap() as int).0 == n2 by {
                assert(didx(w2, n2) == (if n2 == n { Some(c as u32) } else { didx(w, n2) }));
                if n2 == n { assert(doc_at(w2, c) == (n, d)); } else {
                    let k = didx(w, n2).unwrap() as int;
                    assert(doc_at(w2, k) == doc_at(w, k));
                }
            }
            assert forall|j: int| 0 <= j < dcount(w2) implies didx(w2, (#[trigger] doc_at(w2, j)).0) == Some(j as u32) by {
                assert(doc_at(w2, j) == (if j == c { (n, d) } else { doc_at(w, j) }));
                if j < c {
                    let m = doc_at(w, j).0;
                    assert(didx(w, m) == Some(j as u32));
                    assert(didx(w2, m) == (if m == n { Some(c as u32) } else { didx(w, m) }));
                } else { assert(didx(w2, n) == (if n == n { Some(c as u32) } else { didx(w, n) })); }
            }
            assert forall|n2: BytesN<32>| #[trigger] doc_of(w2, n2) == (if n2 == n { Some(d) } else { doc_of(w, n2) }) by {
                assert(didx(w2, n2) == (if n2 == n { Some(c as u32) } else { didx(w, n2) }));
                if n2 == n { assert(doc_at(w2, c) == (n, d)); } else if didx(w, n2).is_some() {
                    let k = didx(w, n2).unwrap() as int;
                    assert(doc_at(w2, k) == doc_at(w, k));
                }
            }
        }
    }
}
pub proof fn lemma_set_doc(w: World, n: BytesN<32>, uri: String, hash: BytesN<32>)
    requires inv_dm(w), set_doc_guard(w, n, uri),
    ensures
        //@@ C20:docs.lemma.set_is_map_insert
        inv_dm(set_doc_post(w, n, uri, hash)),
        forall|n2: BytesN<32>| #[trigger] doc_of(set_doc_post(w, n, uri, hash), n2) == (if n2 == n { Some(new_doc(w, uri, hash)) } else { doc_of(w, n2) }),
        dcount(set_doc_post(w, n, uri, hash)) == dcount(w) + (if doc_of(w, n).is_some() { 0int } else { 1int }),
        dcount(set_doc_post(w, n, uri, hash)) <= MAX_DOCUMENTS,
{
    lemma_set_doc_core(w, n, uri, hash);
    lemma_dm_frame(set_doc_core(w, n, uri, hash), set_doc_post(w, n, uri, hash));
}

pub proof fn lemma_rm_doc_pw(w: World, n: BytesN<32>)
    requires didx(w, n).is_some(), dcount(w) > 0,
    ensures
        ({
            let di = didx(w, n).unwrap(); let last = (dcount(w) - 1) as u32; let le = doc_at(w, last as int);
            let w1 = rm_doc_w1(w, n); let w4 = rm_doc_core(w, n);
            &&& dcount(w4) == last
            &&& forall|n2: BytesN<32>| #[trigger] didx(w4, n2) == (if n2 == n { None } else if di != last && n2 == le.0 { Some(di) } else { didx(w, n2) })
            &&& forall|b: u32| #[trigger] dbucket_opt(w1, b) == (if di != last && b == di / 50 { Some(dbucket(w, b).update((di % 50) as int, le)) } else { dbucket_opt(w, b) })
            &&& forall|b: u32| #[trigger] dbucket_opt(w4, b) == (if b == last / 50 { Some(drop_last_or_same(dbucket(w1, b))) } else { dbucket_opt(w1, b) })
        }),
{
    broadcast use sdk_store;
}
pub proof fn lemma_rm_doc_core(w: World, n: BytesN<32>)
    requires inv_dm(w), rm_doc_guard(w, n),
    ensures
        inv_dm(rm_doc_core(w, n)),
        doc_of(w, n).is_some(),
        forall|n2: BytesN<32>| #[trigger] doc_of(rm_doc_core(w, n), n2) == (if n2 == n { None } else { doc_of(w, n2) }),
        dcount(rm_doc_core(w, n)) == dcount(w) - 1,
        //@@ C20:docs.lemma.remove_moves_last_into_hole
        forall|j: int| 0 <= j < dcount(w) - 1 ==> #[trigger] doc_at(rm_doc_core(w, n), j) == (if j == didx(w, n).unwrap() { doc_at(w, dcount(w) - 1) } else { doc_at(w, j) }),
{
    let di = didx(w, n).unwrap(); let c = dcount(w) as int; let last = (c - 1) as u32; let le = doc_at(w, last as int);
    let w1 = rm_doc_w1(w, n); let w4 = rm_doc_core(w, n);
    lemma_rm_doc_pw(w, n);
    assert(di < c && doc_at(w, di as int).0 == n);
    assert(didx(w, le.0) == Some(last));
    assert forall|b: u32| #[trigger] dbucket(w1, b) == (if di != last && b == di / 50 { dbucket(w, b).update((di % 50) as int, le) } else { dbucket(w, b) }) by {
        assert(dbucket_opt(w1, b) == (if di != last && b == di / 50 { Some(dbucket(w, b).update((di % 50) as int, le)) } else { dbucket_opt(w, b) }));
    }
    assert forall|b: u32| #[trigger] dbucket(w4, b) == (if b == last / 50 { drop_last_or_same(dbucket(w1, b)) } else { dbucket(w1, b) }) by {
        assert(dbucket_opt(w4, b) == (if b == last / 50 { Some(drop_last_or_same(dbucket(w1, b))) } else { dbucket_opt(w1, b) }));
    }
    assert forall|b: u32| (#[trigger] dbucket(w4, b)).len() == want_len50(last as int, b as int) by {
        assert(dbucket(w, b).len() == want_len50(c, b as int));
        assert(dbucket(w4, b) == (if b == last / 50 { drop_last_or_same(dbucket(w1, b)) } else { dbucket(w1, b) }));
        assert(dbucket(w1, b) == (if di != last && b == di / 50 { dbucket(w, b).update((di % 50) as int, le) } else { dbucket(w, b) }));
    }
    assert forall|j: int| 0 <= j < last implies #[trigger] doc_at(w4, j) == (if j == di { le } else { doc_at(w, j) }) by {
        let b = (j / 50) as u32;
        assert(dbucket(w, b).len() == want_len50(c, b as int));
        assert(dbucket(w4, b) == (if b == last / 50 { drop_last_or_same(dbucket(w1, b)) } else { dbucket(w1, b) }));
        assert(dbucket(w1, b) == (if di != last && b == di / 50 { dbucket(w, b).update((di % 50) as int, le) } else { dbucket(w, b) }));
        if b == di / 50 && j % 50 == di % 50 { assert(j == di); }
    }
    assert forall|n2: BytesN<32>| (#[trigger] didx(w4, n2)).is_some() implies didx(w4, n2).unwrap() < dcount(w4) && doc_at(w4, didx(w4, n2).unwrap() as int).0 == n2 by {
        assert(didx(w4, n2) == (if n2 == n { None } else if di != last && n2 == le.0 { Some(di) } else { didx(w, n2) }));
        if di != last && n2 == le.0 { assert(doc_at(w4, di as int) == le); } else {
            let k = didx(w, n2).unwrap();
            assert(k < c && doc_at(w, k as int).0 == n2);
            assert(k != di);
            if k == last { assert(n2 == le.0); }
            assert(doc_at(w4, k as int) == doc_at(w, k as int));
        }
    }
    assert forall|j: int| 0 <= j < dcount(w4) implies didx(w4, (#[trigger] doc_at(w4, j)).0) == Some(j as u32) by {
        assert(doc_at(w4, j) == (if j == di { le } else { doc_at(w, j) }));
        let m = doc_at(w4, j).0;
        assert(didx(w4, m) == (if m == n { None } else if di != last && m == le.0 { Some(di) } else { didx(w, m) }));
        if j == di { assert(le.0 != n); } else {
            assert(didx(w, doc_at(w, j).0) == Some(j as u32));
        }
    }
    assert forall|n2: BytesN<32>| #[trigger] doc_of(w4, n2) == (if n2 == n { None } else { doc_of(w, n2) }) by {
        assert(didx(w4, n2) == (if n2 == n { None } else if di != last && n2 == le.0 { Some(di) } else { didx(w, n2) }));
        if n2 != n {
            if di != last && n2 == le.0 { assert(doc_at(w4, di as int) == le); } else if didx(w, n2).is_some() {
                let k = didx(w, n2).unwrap();
                assert(k < c && doc_at(w, k as int).0 == n2);
                if k == last { assert(n2 == le.0); }
                assert(doc_at(w4, k as int) == doc_at(w, k as int));
            }
        }
    }
}
pub proof fn lemma_rm_doc(w: World, n: BytesN<32>)
    requires inv_dm(w), rm_doc_guard(w, n),
    ensures
        //@@ C20:docs.lemma.remove_is_map_remove
        inv_dm(rm_doc_post(w, n)),
        doc_of(w, n).is_some(),
        forall|n2: BytesN<32>| #[trigger] doc_of(rm_doc_post(w, n), n2) == (if n2 == n { None } else { doc_of(w, n2) }),
        dcount(rm_doc_post(w, n)) == dcount(w) - 1,
{
    lemma_rm_doc_core(w, n);
    lemma_dm_frame(rm_doc_core(w, n), rm_doc_post(w, n));
}
/// index-based access enumerates every document exactly once
pub proof fn lemma_dm_enumeration(w: World)
    requires inv_dm(w),
    ensures
        //@@ C20:docs.lemma.enumeration_exactly_once
        forall|i: int, j: int| 0 <= i < j < dcount(w) ==> (#[trigger] doc_at(w, i)).0 != (#[trigger] doc_at(w, j)).0,
        forall|n: BytesN<32>| (#[trigger] doc_of(w, n)).is_some() <==> exists|i: int| 0 <= i < dcount(w) && (#[trigger] doc_at(w, i)).0 == n,
        forall|i: int| 0 <= i < dcount(w) ==> doc_of(w, (#[trigger] doc_at(w, i)).0) == Some(doc_at(w, i).1),
{
    assert forall|i: int, j: int| 0 <= i < j < dcount(w) implies (#[trigger] doc_at(w, i)).0 != (#[trigger] doc_at(w, j)).0 by {
        assert(didx(w, doc_at(w, i).0) == Some(i as u32));
        assert(didx(w, doc_at(w, j).0) == Some(j as u32));
    }
    assert forall|n: BytesN<32>| (#[trigger] doc_of(w, n)).is_some() <==> exists|i: int| 0 <= i < dcount(w) && (#[trigger] doc_at(w, i)).0 == n by {
        if doc_of(w, n).is_some() { let k = didx(w, n).unwrap() as int; assert(doc_at(w, k).0 == n); }
        if exists|i: int| 0 <= i < dcount(w) && (#[trigger] doc_at(w, i)).0 == n {
            let i = choose|i: int| 0 <= i < dcount(w) && (#[trigger] doc_at(w, i)).0 == n;
            assert(didx(w, doc_at(w, i).0) == Some(i as u32));
        }
    }
    assert forall|i: int| 0 <= i < dcount(w) implies doc_of(w, (#[trigger] doc_at(w, i)).0) == Some(doc_at(w, i).1) by {
        assert(didx(w, doc_at(w, i).0) == Some(i as u32));
    }
}

// ---- history ----
pub enum DmOp {
    /// set_document called at ledger time `ts`
    Set { n: BytesN<32>, uri: String, hash: BytesN<32>, ts: u64 },
    Remove { n: BytesN<32> },
}
pub open spec fn at_time(w: World, ts: u64) -> World { World { timestamp: ts, ..w } }
pub open spec fn dm_guard(w: World, op: DmOp) -> bool {
    match op { DmOp::Set { n, uri, hash, ts } => set_doc_guard(at_time(w, ts), n, uri), DmOp::Remove { n } => rm_doc_guard(w, n) }
}
pub open spec fn dm_post(w: World, op: DmOp) -> World {
    match op { DmOp::Set { n, uri, hash, ts } => set_doc_post(at_time(w, ts), n, uri, hash), DmOp::Remove { n } => rm_doc_post(w, n) }
}
pub open spec fn dm_run(w0: World, steps: Seq<DmOp>) -> World
    decreases steps.len()
{
    if steps.len() == 0 { w0 } else { dm_post(dm_run(w0, steps.drop_last()), steps.last()) }
}
pub open spec fn dm_valid(w0: World, steps: Seq<DmOp>) -> bool
    decreases steps.len()
{
    steps.len() == 0 || (dm_valid(w0, steps.drop_last()) && dm_guard(dm_run(w0, steps.drop_last()), steps.last()))
}
/// the reference map
pub open spec fn dm_map(steps: Seq<DmOp>) -> Map<BytesN<32>, Document>
    decreases steps.len()
{
    if steps.len() == 0 { Map::empty() } else {
        match steps.last() {
            DmOp::Set { n, uri, hash, ts } => dm_map(steps.drop_last()).insert(n, Document { uri: uri, document_hash: hash, timestamp: ts }),
            DmOp::Remove { n } => dm_map(steps.drop_last()).remove(n),
        }
    }
}
/// the reference accepts: nothing absent is removed
pub open spec fn dm_abs_valid(steps: Seq<DmOp>) -> bool
    decreases steps.len()
{
    steps.len() == 0 || (dm_abs_valid(steps.drop_last()) && match steps.last() {
        DmOp::Set { n, uri, hash, ts } => true,
        DmOp::Remove { n } => dm_map(steps.drop_last()).contains_key(n),
    })
}
pub open spec fn dm_genesis(w: World) -> bool {
    &&& pget(w, k_dcount()).is_none()
    &&& forall|b: u32| (#[trigger] pget(w, k_dbkt(b))).is_none()
    &&& forall|n: BytesN<32>| (#[trigger] pget(w, k_didx(n))).is_none()
}
pub open spec fn dm_map_is(w: World, m: Map<BytesN<32>, Document>) -> bool {
    &&& forall|n: BytesN<32>| #[trigger] doc_of(w, n) == (if m.contains_key(n) { Some(m[n]) } else { None })
    &&& m.len() == dcount(w)
}
pub proof fn lemma_dm_step(w: World, op: DmOp, m: Map<BytesN<32>, Document>)
    requires inv_dm(w), dm_map_is(w, m), dm_guard(w, op),
    ensures
        //@@ C20:docs.step.invariant
        inv_dm(dm_post(w, op)),
        //@@ C20:docs.step.edit_is_map_operation
        dm_map_is(dm_post(w, op), match op {
            DmOp::Set { n, uri, hash, ts } => m.insert(n, Document { uri: uri, document_hash: hash, timestamp: ts }),
            DmOp::Remove { n } => m.remove(n) }),
        //@@ C20:docs.step.absent_refused
        match op { DmOp::Set { n, uri, hash, ts } => true, DmOp::Remove { n } => m.contains_key(n) },
{
    match op {
        DmOp::Set { n, uri, hash, ts } => {
            let wt = at_time(w, ts);
            lemma_dm_frame(w, wt);
            lemma_set_doc(wt, n, uri, hash);
            assert(doc_of(wt, n) == doc_of(w, n));
            let w2 = dm_post(w, op);
            assert forall|n2: BytesN<32>| #[trigger] doc_of(w2, n2) ==
                (if m.insert(n, new_doc(wt, uri, hash)).contains_key(n2) { Some(m.insert(n, new_doc(wt, uri, hash))[n2]) } else { None }) by {
                assert(doc_of(w2, n2) == (if n2 == n { Some(new_doc(wt, uri, hash)) } else { doc_of(wt, n2) }));
                assert(doc_of(wt, n2) == doc_of(w, n2));
            }
        }
        DmOp::Remove { n } => { lemma_rm_doc(w, n); }
    }
}
pub proof fn lemma_dm_history(w0: World, steps: Seq<DmOp>)
    requires dm_genesis(w0), dm_valid(w0, steps),
    ensures
        //@@ C20:docs.history.invariant
        inv_dm(dm_run(w0, steps)),
        //@@ C20:docs.history.queries_answer_as_folded_map
        dm_map_is(dm_run(w0, steps), dm_map(steps)),
        //@@ C20:docs.history.accepted_edits_are_accepted_by_the_reference
        dm_abs_valid(steps),
    decreases steps.len()
{
    if steps.len() == 0 {
        assert(dcount(w0) == 0);
        assert forall|b: u32| (#[trigger] dbucket(w0, b)).len() == 0 by { assert(pget(w0, k_dbkt(b)).is_none()); }
        assert forall|n: BytesN<32>| (#[trigger] didx(w0, n)).is_none() by { assert(pget(w0, k_didx(n)).is_none()); }
        assert forall|n: BytesN<32>| (#[trigger] doc_of(w0, n)).is_none() by { assert(didx(w0, n).is_none()); }
    } else {
        let pre = steps.drop_last();
        lemma_dm_history(w0, pre);
        lemma_dm_step(dm_run(w0, pre), steps.last(), dm_map(pre));
    }
}
