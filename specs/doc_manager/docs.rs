// =================================================================================================
// spec pack `doc_manager` — RWA document manager: a map name -> Document with a bucketed enumeration (C20)
//   Count: u32, Index(name): u32, Bucket(b): Vec<(name, Document)>; entry number i lives at Bucket(i / 50)[i % 50]
// =================================================================================================
pub open spec fn k_dcount() -> DocumentStorageKey { DocumentStorageKey::Count }
pub open spec fn k_didx(n: BytesN<32>) -> DocumentStorageKey { DocumentStorageKey::Index(n) }
pub open spec fn k_dbkt(b: u32) -> DocumentStorageKey { DocumentStorageKey::Bucket(b) }
pub open spec fn ventries(s: Seq<(BytesN<32>, Document)>) -> Vec<(BytesN<32>, Document)> { Vec { s: Ghost(s) } }

pub open spec fn dcount(w: World) -> u32 { match dec::<u32>(pget(w, k_dcount())) { Some(c) => c, None => 0 } }
/// the enumeration index recorded for a name
pub open spec fn didx(w: World, n: BytesN<32>) -> Option<u32> { dec::<u32>(pget(w, k_didx(n))) }
pub open spec fn dbucket_opt(w: World, b: u32) -> Option<Seq<(BytesN<32>, Document)>> {
    match dec::<Vec<(BytesN<32>, Document)>>(pget(w, k_dbkt(b))) { Some(v) => Some(v@), None => None }
}
pub open spec fn dbucket(w: World, b: u32) -> Seq<(BytesN<32>, Document)> { match dbucket_opt(w, b) { Some(s) => s, None => Seq::empty() } }
/// entry number `i` of the enumeration
pub open spec fn doc_at(w: World, i: int) -> (BytesN<32>, Document) { dbucket(w, (i / 50) as u32)[i % 50] }
pub open spec fn want_len50(c: int, b: int) -> int { if b * 50 >= c { 0 } else if c - b * 50 >= 50 { 50 } else { c - b * 50 } }

/// C20 representation invariant: buckets are filled front to back with no gap; Index(name) <-> position is a bijection
pub open spec fn inv_dm(w: World) -> bool {
    &&& dcount(w) <= MAX_DOCUMENTS
    &&& forall|b: u32| (#[trigger] dbucket(w, b)).len() == want_len50(dcount(w) as int, b as int)
    &&& forall|n: BytesN<32>| (#[trigger] didx(w, n)).is_some() ==> didx(w, n).unwrap() < dcount(w) && doc_at(w, didx(w, n).unwrap() as int).0 == n
    &&& forall|i: int| 0 <= i < dcount(w) ==> didx(w, (#[trigger] doc_at(w, i)).0) == Some(i as u32)
}
/// the registry as a map: the document stored under a name
pub open spec fn doc_of(w: World, n: BytesN<32>) -> Option<Document> {
    match didx(w, n) { Some(i) => Some(doc_at(w, i as int).1), None => None }
}

// ---- exact successor states ----
pub open spec fn new_doc(w: World, uri: String, hash: BytesN<32>) -> Document { Document { uri: uri, document_hash: hash, timestamp: w.timestamp } }
pub open spec fn set_doc_guard(w: World, n: BytesN<32>, uri: String) -> bool {
    &&& uri.s@.len() <= MAX_URI_LEN
    &&& match didx(w, n) {
            Some(i) => dbucket_opt(w, i / 50).is_some() && (i % 50) < dbucket(w, i / 50).len(),
            None => dcount(w) < MAX_DOCUMENTS,
        }
}
pub open spec fn set_doc_core(w: World, n: BytesN<32>, uri: String, hash: BytesN<32>) -> World {
    let d = new_doc(w, uri, hash);
    match didx(w, n) {
        Some(i) => pset(w, k_dbkt(i / 50), ventries(dbucket(w, i / 50).update((i % 50) as int, (n, d))).sv()),
        None => {
            let c = dcount(w);
            let w1 = pset(w, k_didx(n), c.sv());
            let w2 = pset(w1, k_dbkt(c / 50), ventries(dbucket(w1, c / 50).push((n, d))).sv());
            pset(w2, k_dcount(), ((c + 1) as u32).sv())
        }
    }
}
pub open spec fn set_doc_post(w: World, n: BytesN<32>, uri: String, hash: BytesN<32>) -> World {
    w_event(set_doc_core(w, n, uri, hash), DocumentUpdated { name: n, uri: uri, document_hash: hash, timestamp: w.timestamp }.ev())
}

pub open spec fn drop_last_or_same<T>(s: Seq<T>) -> Seq<T> { if s.len() > 0 { s.drop_last() } else { s } }
pub open spec fn rm_doc_w1(w: World, n: BytesN<32>) -> World {
    let di = didx(w, n).unwrap(); let last = (dcount(w) - 1) as u32;
    if di != last {
        let le = doc_at(w, last as int);
        let wa = pset(w, k_didx(le.0), di.sv());
        pset(wa, k_dbkt(di / 50), ventries(dbucket(wa, di / 50).update((di % 50) as int, le)).sv())
    } else { w }
}
pub open spec fn rm_doc_guard(w: World, n: BytesN<32>) -> bool {
    let di = didx(w, n).unwrap(); let last = (dcount(w) - 1) as u32;
    let w1 = rm_doc_w1(w, n);
    &&& didx(w, n).is_some()
    &&& dcount(w) > 0
    &&& di != last ==> dbucket_opt(w, last / 50).is_some() && (last % 50) < dbucket(w, last / 50).len()
            && dbucket_opt(pset(w, k_didx(doc_at(w, last as int).0), di.sv()), di / 50).is_some()
            && (di % 50) < dbucket(pset(w, k_didx(doc_at(w, last as int).0), di.sv()), di / 50).len()
    &&& dbucket_opt(w1, last / 50).is_some()
}
pub open spec fn rm_doc_core(w: World, n: BytesN<32>) -> World {
    let last = (dcount(w) - 1) as u32;
    let w1 = rm_doc_w1(w, n);
    let w2 = pset(w1, k_dbkt(last / 50), ventries(drop_last_or_same(dbucket(w1, last / 50))).sv());
    let w3 = pdel(w2, k_didx(n));
    pset(w3, k_dcount(), last.sv())
}
pub open spec fn rm_doc_post(w: World, n: BytesN<32>) -> World { w_event(rm_doc_core(w, n), DocumentRemoved { name: n }.ev()) }
