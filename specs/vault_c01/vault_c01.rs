// =================================================================================================
// spec pack `vault_c01` — C01 for the VAULT-SHARE flavour of the fungible token.
//
// The vault creates and destroys shares through `Base::update` directly (deposit_internal / withdraw_internal):
// no `Mint` / `Burn` event is published; the four entry points publish `Deposit` / `Withdraw` instead.
// This pack proves, over the EXACT successor states that specs/vault/contracts.vspec pins on the code
// (`enter_post`, `withdraw_post`, `redeem_post`, `op_post`), that
//   1. every entry point keeps the share book's invariant `inv` (Σ balances == supply, balances >= 0), moves the
//      supply by exactly the minted / burned shares, and a share transfer / approve leaves the supply alone;
//   2. replaying the event log with  Deposit{receiver, shares} -> credit + supply up,
//      Withdraw{owner, shares} -> debit + supply down,  Transfer{from, to, amount} -> move
//      reproduces every share balance and the share supply (`inv_ev_vault`), and every entry point keeps that;
//   3. both hold in every state reachable from a genesis without shares (induction over `ScOp`).
// Everything here is ghost; nothing is trusted.  The asset token plays no role: no SEP-41 hypothesis is needed.
// =================================================================================================

// ---- event replay for vault shares ----
pub open spec fn tag_deposit() -> int { ev_tag(deposit_ev(a0(), a0(), a0(), 0, 0)) }
pub open spec fn tag_withdraw() -> int { ev_tag(withdraw_ev(a0(), a0(), a0(), 0, 0)) }

/// effect of one logged event on the share balance of `a`.
/// Deposit  = [sym, operator, from, receiver, assets, shares]  : `receiver` is credited `shares`
/// Withdraw = [sym, operator, receiver, owner, assets, shares] : `owner` is debited `shares`
/// anything else is read as the plain fungible token reads it (Transfer moves; Mint / Burn, which no vault
/// entry point publishes, would credit / debit; every other event counts for nothing)
pub open spec fn vev_delta(ev: SV, a: Address) -> int {
    let s = ev->Vec_0;
    if ev_tag(ev) == tag_deposit() {
        if <Address as ToSV>::unsv(s[3]) == a { <i128 as ToSV>::unsv(s[5]) as int } else { 0 }
    } else if ev_tag(ev) == tag_withdraw() {
        if <Address as ToSV>::unsv(s[3]) == a { -(<i128 as ToSV>::unsv(s[5]) as int) } else { 0 }
    } else { ev_delta(ev, a) }
}
pub open spec fn vev_supply_delta(ev: SV) -> int {
    let s = ev->Vec_0;
    if ev_tag(ev) == tag_deposit() { <i128 as ToSV>::unsv(s[5]) as int }
    else if ev_tag(ev) == tag_withdraw() { -(<i128 as ToSV>::unsv(s[5]) as int) }
    else { ev_supply_delta(ev) }
}
pub open spec fn vreplay_bal(evs: Seq<SV>, a: Address) -> int
    decreases evs.len()
{
    if evs.len() == 0 { 0 } else { vreplay_bal(evs.drop_last(), a) + vev_delta(evs.last(), a) }
}
pub open spec fn vreplay_supply(evs: Seq<SV>) -> int
    decreases evs.len()
{
    if evs.len() == 0 { 0 } else { vreplay_supply(evs.drop_last()) + vev_supply_delta(evs.last()) }
}
/// replay(events) == (balances, supply)
pub open spec fn inv_ev_vault(w: World) -> bool {
    &&& forall|a: Address| vreplay_bal(w.events, a) == bal(w, a)
    &&& vreplay_supply(w.events) == supply(w)
}

pub proof fn lemma_vreplay_push(evs: Seq<SV>, ev: SV, a: Address)
    ensures vreplay_bal(evs.push(ev), a) == vreplay_bal(evs, a) + vev_delta(ev, a),
        vreplay_supply(evs.push(ev)) == vreplay_supply(evs) + vev_supply_delta(ev),
{
    assert(evs.push(ev).drop_last() =~= evs);
    assert(evs.push(ev).last() == ev);
}

// ---- what each event of the vault contributes (facts about the generated encodings) ----
pub proof fn lemma_vev_deposit(operator: Address, from: Address, receiver: Address, assets: i128, shares: i128, a: Address)
    ensures
        //@@ C01:vault.lemma.ev_deposit_credits_receiver_with_shares
        vev_delta(deposit_ev(operator, from, receiver, assets, shares), a) == (if receiver == a { shares as int } else { 0 }),
        vev_supply_delta(deposit_ev(operator, from, receiver, assets, shares)) == shares,
{}
pub proof fn lemma_vev_withdraw(operator: Address, receiver: Address, owner: Address, assets: i128, shares: i128, a: Address)
    ensures
        //@@ C01:vault.lemma.ev_withdraw_debits_owner_by_shares
        vev_delta(withdraw_ev(operator, receiver, owner, assets, shares), a) == -(if owner == a { shares as int } else { 0 }),
        vev_supply_delta(withdraw_ev(operator, receiver, owner, assets, shares)) == -(shares as int),
{}
pub proof fn lemma_vev_transfer(from: Address, to: Address, mux: Option<u64>, amount: i128, a: Address)
    ensures
        //@@ C01:vault.lemma.ev_transfer_moves_amount
        vev_delta(Transfer { from: from, to: to, to_muxed_id: mux, amount: amount }.ev(), a)
            == (if to == a { amount as int } else { 0 }) - (if from == a { amount as int } else { 0 }),
        vev_supply_delta(Transfer { from: from, to: to, to_muxed_id: mux, amount: amount }.ev()) == 0,
{
    lemma_ev_transfer(from, to, mux, amount, a);
}
pub proof fn lemma_vev_approve(o: Address, s: Address, amount: i128, live: u32, a: Address)
    ensures vev_delta(Approve { owner: o, spender: s, amount: amount, live_until_ledger: live }.ev(), a) == 0,
        vev_supply_delta(Approve { owner: o, spender: s, amount: amount, live_until_ledger: live }.ev()) == 0,
{
    lemma_ev_approve(o, s, amount, live, a);
}

// ---- frames ----
/// a step that touches neither the persistent nor the instance store nor the event log keeps both invariants
pub proof fn lemma_sc_frame(w: World, w1: World)
    requires w1.persistent == w.persistent, w1.instance == w.instance, w1.events == w.events,
    ensures inv(w) ==> inv(w1), inv_ev_vault(w) ==> inv_ev_vault(w1), supply(w1) == supply(w),
        forall|a: Address| #[trigger] bal(w1, a) == bal(w, a),
        forall|f: Option<Address>, t: Option<Address>, n: int| #[trigger] update_guard(w1, f, t, n) == update_guard(w, f, t, n),
{
    assert(sum_bal(w1) == sum_bal(w));
    assert forall|a: Address| #[trigger] bal(w1, a) == bal(w, a) by {}
    if inv_ev_vault(w) {
        assert forall|a: Address| vreplay_bal(w1.events, a) == bal(w1, a) by { assert(bal(w1, a) == bal(w, a)); }
    }
}
/// one more event on top of a world whose books moved by exactly what the event says
pub proof fn lemma_sc_push(w0: World, w2: World, ev: SV)
    requires inv_ev_vault(w0), w2.events == w0.events.push(ev),
        forall|a: Address| #[trigger] bal(w2, a) == bal(w0, a) + vev_delta(ev, a),
        supply(w2) == supply(w0) + vev_supply_delta(ev),
    ensures inv_ev_vault(w2),
{
    assert forall|a: Address| vreplay_bal(w2.events, a) == bal(w2, a) by {
        lemma_vreplay_push(w0.events, ev, a);
        assert(bal(w2, a) == bal(w0, a) + vev_delta(ev, a));
    }
    lemma_vreplay_push(w0.events, ev, a0());
}
/// spending a share allowance touches the temporary store only (no hypothesis needed)
pub proof fn lemma_spend_frame(w: World, o: Address, s: Address, amount: i128)
    ensures spend_post(w, o, s, amount).persistent == w.persistent, spend_post(w, o, s, amount).instance == w.instance,
        spend_post(w, o, s, amount).events == w.events, spend_post(w, o, s, amount).same_ledger(w),
{}
pub proof fn lemma_conv_frame(w: World, wf: World, amount: i128)
    ensures conv_post(w, wf, amount).persistent == w.persistent, conv_post(w, wf, amount).instance == w.instance,
        conv_post(w, wf, amount).events == w.events, conv_post(w, wf, amount).same_ledger(w),
{}

// =================================================================================================
// 1. every entry point: `inv` kept, supply moved by exactly the minted / burned shares
// =================================================================================================
/// deposit / mint share the shape `enter_post` (auth; preview; asset pull; update(None, receiver, shares); Deposit event)
pub proof fn lemma_sc_enter(w: World, wf: World, amount_in: i128, assets: i128, shares: i128, receiver: Address, from: Address, operator: Address)
    requires inv(w), enter_guard(w, wf, amount_in, receiver, shares, operator),
    ensures ({
        let w2 = enter_post(w, wf, amount_in, assets, shares, receiver, from, operator);
        &&& inv(w2) && shares >= 0
        &&& supply(w2) == supply(w) + shares
        &&& forall|a: Address| #[trigger] bal(w2, a) == bal(w, a) + (if a == receiver { shares as int } else { 0 })
        &&& w2.events == w.events.push(deposit_ev(operator, from, receiver, assets, shares))
        &&& w2.same_ledger(w)
    }),
{
    let w1 = w_auth(w, operator);
    let wc = conv_post(w1, wf, amount_in);
    let wx = xcall_w(wc, wf, asset_in_call(wc, assets, from, operator));
    let wu = update_post(wx, None, Some(receiver), shares as int);
    let w2 = enter_post(w, wf, amount_in, assets, shares, receiver, from, operator);
    assert(w2 == w_event(wu, deposit_ev(operator, from, receiver, assets, shares)));
    lemma_conv_frame(w1, wf, amount_in);
    lemma_sc_frame(w, wc);
    lemma_sc_frame(w, wx);
    lemma_update_inv(wx, None, Some(receiver), shares as int);
    lemma_sc_frame(wu, World { events: wu.events, ..w2 });
    assert(sum_bal(w2) == sum_bal(wu));
    assert forall|a: Address| #[trigger] bal(w2, a) == bal(w, a) + (if a == receiver { shares as int } else { 0 }) by {
        assert(bal(w2, a) == bal(wu, a));
        assert(bal(wx, a) == bal(w, a));
    }
}
pub proof fn lemma_sc_deposit(w: World, wf: World, assets: i128, r: i128, receiver: Address, from: Address, operator: Address)
    requires inv(w), enter_guard(w, wf, assets, receiver, r, operator),
    ensures ({
        let w2 = enter_post(w, wf, assets, assets, r, receiver, from, operator);
        //@@ C01:vault.lemma.deposit
        &&& inv(w2)
        &&& supply(w2) == supply(w) + r && r >= 0
        &&& forall|a: Address| #[trigger] bal(w2, a) == bal(w, a) + (if a == receiver { r as int } else { 0 })
    }),
{
    lemma_sc_enter(w, wf, assets, assets, r, receiver, from, operator);
}
pub proof fn lemma_sc_mint(w: World, wf: World, shares: i128, r: i128, receiver: Address, from: Address, operator: Address)
    requires inv(w), enter_guard(w, wf, shares, receiver, shares, operator),
    ensures ({
        let w2 = enter_post(w, wf, shares, r, shares, receiver, from, operator);
        //@@ C01:vault.lemma.mint
        &&& inv(w2)
        &&& supply(w2) == supply(w) + shares && shares >= 0
        &&& forall|a: Address| #[trigger] bal(w2, a) == bal(w, a) + (if a == receiver { shares as int } else { 0 })
    }),
{
    lemma_sc_enter(w, wf, shares, r, shares, receiver, from, operator);
}

/// withdraw / redeem share `withdraw_internal_post` on the world `wm` reached after auth and previews
/// (spend allowance unless operator == owner; update(owner, None, shares); asset push)
pub proof fn lemma_sc_exit_internal(wm: World, wf: World, receiver: Address, owner: Address, assets: i128, shares: i128, operator: Address)
    requires inv(wm), withdraw_internal_guard(wm, owner, shares, operator),
    ensures ({
        let wi = withdraw_internal_post(wm, wf, receiver, owner, assets, shares, operator);
        &&& inv(wi) && 0 <= shares <= bal(wm, owner)
        &&& supply(wi) == supply(wm) - shares
        &&& forall|a: Address| #[trigger] bal(wi, a) == bal(wm, a) - (if a == owner { shares as int } else { 0 })
        &&& wi.events == wm.events
        &&& wi.same_ledger(wm)
    }),
{
    let ws = wi_spent(wm, owner, shares, operator);
    let wb = wi_burnt(wm, owner, shares, operator);
    let wi = withdraw_internal_post(wm, wf, receiver, owner, assets, shares, operator);
    lemma_spend_frame(wm, owner, operator, shares);
    lemma_sc_frame(wm, ws);
    lemma_update_inv(ws, Some(owner), None, shares as int);
    lemma_sc_frame(wb, wi);
    assert forall|a: Address| #[trigger] bal(wi, a) == bal(wm, a) - (if a == owner { shares as int } else { 0 }) by {
        assert(bal(wi, a) == bal(wb, a));
        assert(bal(ws, a) == bal(wm, a));
    }
}
pub proof fn lemma_sc_exit(w: World, wm: World, wf: World, receiver: Address, owner: Address, assets: i128, shares: i128, operator: Address)
    requires inv(w), withdraw_internal_guard(wm, owner, shares, operator),
        wm.persistent == w.persistent, wm.instance == w.instance, wm.events == w.events, wm.same_ledger(w),
    ensures ({
        let w2 = w_event(withdraw_internal_post(wm, wf, receiver, owner, assets, shares, operator), withdraw_ev(operator, receiver, owner, assets, shares));
        &&& inv(w2) && 0 <= shares <= bal(w, owner)
        &&& supply(w2) == supply(w) - shares
        &&& forall|a: Address| #[trigger] bal(w2, a) == bal(w, a) - (if a == owner { shares as int } else { 0 })
        &&& w2.events == w.events.push(withdraw_ev(operator, receiver, owner, assets, shares))
        &&& w2.same_ledger(w)
    }),
{
    let wi = withdraw_internal_post(wm, wf, receiver, owner, assets, shares, operator);
    let w2 = w_event(wi, withdraw_ev(operator, receiver, owner, assets, shares));
    lemma_sc_frame(w, wm);
    lemma_sc_exit_internal(wm, wf, receiver, owner, assets, shares, operator);
    lemma_sc_frame(wi, World { events: wi.events, ..w2 });
    assert(sum_bal(w2) == sum_bal(wi));
    assert forall|a: Address| #[trigger] bal(w2, a) == bal(w, a) - (if a == owner { shares as int } else { 0 }) by {
        assert(bal(w2, a) == bal(wi, a));
        assert(bal(wm, a) == bal(w, a));
    }
}
pub proof fn lemma_withdraw_mid_frame(w: World, wf: World, assets: i128, owner: Address, operator: Address)
    ensures ({ let wm = withdraw_mid(w, wf, assets, owner, operator);
               wm.persistent == w.persistent && wm.instance == w.instance && wm.events == w.events && wm.same_ledger(w) }),
{
    let w1 = w_auth(w, operator);
    lemma_conv_frame(w1, wf, bal(w1, owner) as i128);
    lemma_conv_frame(conv_post(w1, wf, bal(w1, owner) as i128), wf, assets);
}
pub proof fn lemma_sc_withdraw(w: World, wf: World, assets: i128, r: i128, receiver: Address, owner: Address, operator: Address)
    requires inv(w), withdraw_internal_guard(withdraw_mid(w, wf, assets, owner, operator), owner, r, operator),
    ensures ({
        let w2 = withdraw_post(w, wf, assets, r, receiver, owner, operator);
        //@@ C01:vault.lemma.withdraw
        &&& inv(w2)
        &&& supply(w2) == supply(w) - r && 0 <= r <= bal(w, owner)
        &&& forall|a: Address| #[trigger] bal(w2, a) == bal(w, a) - (if a == owner { r as int } else { 0 })
        &&& w2.events == w.events.push(withdraw_ev(operator, receiver, owner, assets, r))
        &&& w2.same_ledger(w)
    }),
{
    lemma_withdraw_mid_frame(w, wf, assets, owner, operator);
    lemma_sc_exit(w, withdraw_mid(w, wf, assets, owner, operator), wf, receiver, owner, assets, r, operator);
}
pub proof fn lemma_sc_redeem(w: World, wf: World, r: i128, shares: i128, receiver: Address, owner: Address, operator: Address)
    requires inv(w), withdraw_internal_guard(redeem_mid(w, wf, shares, operator), owner, shares, operator),
    ensures ({
        let w2 = redeem_post(w, wf, r, shares, receiver, owner, operator);
        //@@ C01:vault.lemma.redeem
        &&& inv(w2)
        &&& supply(w2) == supply(w) - shares && 0 <= shares <= bal(w, owner)
        &&& forall|a: Address| #[trigger] bal(w2, a) == bal(w, a) - (if a == owner { shares as int } else { 0 })
        &&& w2.events == w.events.push(withdraw_ev(operator, receiver, owner, r, shares))
        &&& w2.same_ledger(w)
    }),
{
    lemma_conv_frame(w_auth(w, operator), wf, shares);
    lemma_sc_exit(w, redeem_mid(w, wf, shares, operator), wf, receiver, owner, r, shares, operator);
}

/// the share token's own entry points as dispatched for `Vault` (contracts `vault.transfer.exact`,
/// `vault.transfer_from.exact`, `vault.approve.exact`: plain fungible `op_post`)
pub open spec fn is_share_op(op: FOp) -> bool { op is Transfer || op is TransferFrom || op is Approve }
pub proof fn lemma_sc_share_op(w: World, op: FOp)
    requires inv(w), op_guard(w, op), is_share_op(op),
    ensures
        inv(op_post(w, op)),
        supply(op_post(w, op)) == supply(w),
        forall|a: Address| #[trigger] bal(op_post(w, op), a) == bal(w, a) + upd_delta(op_from(op), op_to(op), op_amount(op), a),
        op_post(w, op).events == w.events.push(op_event(op)),
        op_post(w, op).same_ledger(w),
{
    lemma_op_shape(w, op);
    let w1 = op_pre(w, op);
    match op {
        FOp::TransferFrom { spender, from, to, amount } => { lemma_spend_frame(w_auth(w, spender), from, spender, amount); }
        _ => {}
    }
    lemma_sc_frame(w, w1);
    let w2 = op_post(w, op);
    if is_approve(op) {
        lemma_sc_frame(w, World { events: w.events, ..w2 });
        assert(sum_bal(w2) == sum_bal(w));
        assert forall|a: Address| #[trigger] bal(w2, a) == bal(w, a) + upd_delta(op_from(op), op_to(op), op_amount(op), a) by {}
    } else {
        assert(update_guard(w1, op_from(op), op_to(op), op_amount(op)));
        lemma_update_inv(w1, op_from(op), op_to(op), op_amount(op));
        let wu = update_post(w1, op_from(op), op_to(op), op_amount(op));
        lemma_sc_frame(wu, World { events: wu.events, ..w2 });
        assert(sum_bal(w2) == sum_bal(wu));
        assert forall|a: Address| #[trigger] bal(w2, a) == bal(w, a) + upd_delta(op_from(op), op_to(op), op_amount(op), a) by {
            assert(bal(w2, a) == bal(wu, a));
            assert(bal(w1, a) == bal(w, a));
        }
    }
}
pub proof fn lemma_sc_transfer(w: World, from: Address, to: Address, mux: Option<u64>, amount: i128)
    requires inv(w), op_guard(w, FOp::Transfer { from: from, to: to, mux: mux, amount: amount }),
    ensures ({
        let w2 = op_post(w, FOp::Transfer { from: from, to: to, mux: mux, amount: amount });
        //@@ C01:vault.lemma.transfer
        &&& inv(w2)
        &&& supply(w2) == supply(w)
        &&& forall|a: Address| #[trigger] bal(w2, a) == bal(w, a) + (if a == to { amount as int } else { 0 }) - (if a == from { amount as int } else { 0 })
    }),
{
    lemma_sc_share_op(w, FOp::Transfer { from: from, to: to, mux: mux, amount: amount });
}
pub proof fn lemma_sc_transfer_from(w: World, spender: Address, from: Address, to: Address, amount: i128)
    requires inv(w), op_guard(w, FOp::TransferFrom { spender: spender, from: from, to: to, amount: amount }),
    ensures ({
        let w2 = op_post(w, FOp::TransferFrom { spender: spender, from: from, to: to, amount: amount });
        //@@ C01:vault.lemma.transfer_from
        &&& inv(w2)
        &&& supply(w2) == supply(w)
        &&& forall|a: Address| #[trigger] bal(w2, a) == bal(w, a) + (if a == to { amount as int } else { 0 }) - (if a == from { amount as int } else { 0 })
    }),
{
    lemma_sc_share_op(w, FOp::TransferFrom { spender: spender, from: from, to: to, amount: amount });
}
pub proof fn lemma_sc_approve(w: World, owner: Address, spender: Address, amount: i128, live: u32)
    requires inv(w), op_guard(w, FOp::Approve { owner: owner, spender: spender, amount: amount, live: live }),
    ensures ({
        let w2 = op_post(w, FOp::Approve { owner: owner, spender: spender, amount: amount, live: live });
        //@@ C01:vault.lemma.approve
        &&& inv(w2)
        &&& supply(w2) == supply(w)
        &&& forall|a: Address| #[trigger] bal(w2, a) == bal(w, a)
    }),
{
    lemma_sc_share_op(w, FOp::Approve { owner: owner, spender: spender, amount: amount, live: live });
}

// =================================================================================================
// 2. every entry point keeps "replay(events) == (balances, supply)"
// =================================================================================================
pub proof fn lemma_sc_replay_deposit(w: World, wf: World, assets: i128, r: i128, receiver: Address, from: Address, operator: Address)
    requires inv(w), inv_ev_vault(w), enter_guard(w, wf, assets, receiver, r, operator),
    ensures //@@ C01:vault.lemma.replay_deposit
        inv_ev_vault(enter_post(w, wf, assets, assets, r, receiver, from, operator)),
{
    let ev = deposit_ev(operator, from, receiver, assets, r);
    lemma_sc_enter(w, wf, assets, assets, r, receiver, from, operator);
    assert forall|a: Address| vev_delta(ev, a) == (if receiver == a { r as int } else { 0 }) by { lemma_vev_deposit(operator, from, receiver, assets, r, a); }
    lemma_vev_deposit(operator, from, receiver, assets, r, a0());
    lemma_sc_push(w, enter_post(w, wf, assets, assets, r, receiver, from, operator), ev);
}
pub proof fn lemma_sc_replay_mint(w: World, wf: World, shares: i128, r: i128, receiver: Address, from: Address, operator: Address)
    requires inv(w), inv_ev_vault(w), enter_guard(w, wf, shares, receiver, shares, operator),
    ensures //@@ C01:vault.lemma.replay_mint
        inv_ev_vault(enter_post(w, wf, shares, r, shares, receiver, from, operator)),
{
    let ev = deposit_ev(operator, from, receiver, r, shares);
    lemma_sc_enter(w, wf, shares, r, shares, receiver, from, operator);
    assert forall|a: Address| vev_delta(ev, a) == (if receiver == a { shares as int } else { 0 }) by { lemma_vev_deposit(operator, from, receiver, r, shares, a); }
    lemma_vev_deposit(operator, from, receiver, r, shares, a0());
    lemma_sc_push(w, enter_post(w, wf, shares, r, shares, receiver, from, operator), ev);
}
pub proof fn lemma_sc_replay_withdraw(w: World, wf: World, assets: i128, r: i128, receiver: Address, owner: Address, operator: Address)
    requires inv(w), inv_ev_vault(w), withdraw_internal_guard(withdraw_mid(w, wf, assets, owner, operator), owner, r, operator),
    ensures //@@ C01:vault.lemma.replay_withdraw
        inv_ev_vault(withdraw_post(w, wf, assets, r, receiver, owner, operator)),
{
    let ev = withdraw_ev(operator, receiver, owner, assets, r);
    lemma_sc_withdraw(w, wf, assets, r, receiver, owner, operator);
    assert forall|a: Address| vev_delta(ev, a) == -(if owner == a { r as int } else { 0 }) by { lemma_vev_withdraw(operator, receiver, owner, assets, r, a); }
    lemma_vev_withdraw(operator, receiver, owner, assets, r, a0());
    lemma_sc_push(w, withdraw_post(w, wf, assets, r, receiver, owner, operator), ev);
}
pub proof fn lemma_sc_replay_redeem(w: World, wf: World, r: i128, shares: i128, receiver: Address, owner: Address, operator: Address)
    requires inv(w), inv_ev_vault(w), withdraw_internal_guard(redeem_mid(w, wf, shares, operator), owner, shares, operator),
    ensures //@@ C01:vault.lemma.replay_redeem
        inv_ev_vault(redeem_post(w, wf, r, shares, receiver, owner, operator)),
{
    let ev = withdraw_ev(operator, receiver, owner, r, shares);
    lemma_sc_redeem(w, wf, r, shares, receiver, owner, operator);
    assert forall|a: Address| vev_delta(ev, a) == -(if owner == a { shares as int } else { 0 }) by { lemma_vev_withdraw(operator, receiver, owner, r, shares, a); }
    lemma_vev_withdraw(operator, receiver, owner, r, shares, a0());
    lemma_sc_push(w, redeem_post(w, wf, r, shares, receiver, owner, operator), ev);
}
pub proof fn lemma_sc_replay_share_op(w: World, op: FOp)
    requires inv(w), inv_ev_vault(w), op_guard(w, op), is_share_op(op),
    ensures inv_ev_vault(op_post(w, op)),
{
    let ev = op_event(op);
    lemma_sc_share_op(w, op);
    assert forall|a: Address| vev_delta(ev, a) == upd_delta(op_from(op), op_to(op), op_amount(op), a) && vev_supply_delta(ev) == 0 by {
        match op {
            FOp::Transfer { from, to, mux, amount } => { lemma_vev_transfer(from, to, mux, amount, a); }
            FOp::TransferFrom { spender, from, to, amount } => { lemma_vev_transfer(from, to, None, amount, a); }
            FOp::Approve { owner, spender, amount, live } => { lemma_vev_approve(owner, spender, amount, live, a); }
            _ => {}
        }
    }
    assert(vev_delta(ev, a0()) == upd_delta(op_from(op), op_to(op), op_amount(op), a0()) && vev_supply_delta(ev) == 0);
    lemma_sc_push(w, op_post(w, op), ev);
}
pub proof fn lemma_sc_replay_transfer(w: World, from: Address, to: Address, mux: Option<u64>, amount: i128)
    requires inv(w), inv_ev_vault(w), op_guard(w, FOp::Transfer { from: from, to: to, mux: mux, amount: amount }),
    ensures //@@ C01:vault.lemma.replay_transfer
        inv_ev_vault(op_post(w, FOp::Transfer { from: from, to: to, mux: mux, amount: amount })),
{
    lemma_sc_replay_share_op(w, FOp::Transfer { from: from, to: to, mux: mux, amount: amount });
}
pub proof fn lemma_sc_replay_transfer_from(w: World, spender: Address, from: Address, to: Address, amount: i128)
    requires inv(w), inv_ev_vault(w), op_guard(w, FOp::TransferFrom { spender: spender, from: from, to: to, amount: amount }),
    ensures //@@ C01:vault.lemma.replay_transfer_from
        inv_ev_vault(op_post(w, FOp::TransferFrom { spender: spender, from: from, to: to, amount: amount })),
{
    lemma_sc_replay_share_op(w, FOp::TransferFrom { spender: spender, from: from, to: to, amount: amount });
}
pub proof fn lemma_sc_replay_approve(w: World, owner: Address, spender: Address, amount: i128, live: u32)
    requires inv(w), inv_ev_vault(w), op_guard(w, FOp::Approve { owner: owner, spender: spender, amount: amount, live: live }),
    ensures //@@ C01:vault.lemma.replay_approve
        inv_ev_vault(op_post(w, FOp::Approve { owner: owner, spender: spender, amount: amount, live: live })),
{
    lemma_sc_replay_share_op(w, FOp::Approve { owner: owner, spender: spender, amount: amount, live: live });
}

// =================================================================================================
// 3. histories: the entry points of a vault contract and ledger advances, in any order
//    `sc_guard` is literally what the function contracts (specs/vault/contracts.vspec) establish about the
//    pre-state of a RETURNING call (`deposit.guard`, `mint.guard`, `withdraw.guard`, `redeem.guard`, `vault.*.op`),
//    `sc_post` is literally the `*.exact` successor state.  `wf` = the world the call returned in (it only
//    supplies the answers of the asset token and the other contracts' state, M8).
// =================================================================================================
pub enum ScOp {
    Deposit { wf: World, assets: i128, shares: i128, receiver: Address, from: Address, operator: Address },
    Mint { wf: World, assets: i128, shares: i128, receiver: Address, from: Address, operator: Address },
    Withdraw { wf: World, assets: i128, shares: i128, receiver: Address, owner: Address, operator: Address },
    Redeem { wf: World, assets: i128, shares: i128, receiver: Address, owner: Address, operator: Address },
    ShareTransfer { from: Address, to: Address, mux: Option<u64>, amount: i128 },
    ShareTransferFrom { spender: Address, from: Address, to: Address, amount: i128 },
    ShareApprove { owner: Address, spender: Address, amount: i128, live: u32 },
    /// the ledger advances / the next invocation starts (authorizations do not outlive an invocation)
    Tick { seq: u32, ts: u64 },
}
pub open spec fn sc_fop(op: ScOp) -> FOp {
    match op {
        ScOp::ShareTransfer { from, to, mux, amount } => FOp::Transfer { from: from, to: to, mux: mux, amount: amount },
        ScOp::ShareTransferFrom { spender, from, to, amount } => FOp::TransferFrom { spender: spender, from: from, to: to, amount: amount },
        ScOp::ShareApprove { owner, spender, amount, live } => FOp::Approve { owner: owner, spender: spender, amount: amount, live: live },
        _ => FOp::Approve { owner: a0(), spender: a0(), amount: 0, live: 0 },
    }
}
pub open spec fn sc_is_share(op: ScOp) -> bool { op is ShareTransfer || op is ShareTransferFrom || op is ShareApprove }
pub open spec fn sc_guard(w: World, op: ScOp) -> bool {
    match op {
        ScOp::Deposit { wf, assets, shares, receiver, from, operator } => enter_guard(w, wf, assets, receiver, shares, operator),
        ScOp::Mint { wf, assets, shares, receiver, from, operator } => enter_guard(w, wf, shares, receiver, shares, operator),
        ScOp::Withdraw { wf, assets, shares, receiver, owner, operator } =>
            withdraw_internal_guard(withdraw_mid(w, wf, assets, owner, operator), owner, shares, operator),
        ScOp::Redeem { wf, assets, shares, receiver, owner, operator } =>
            withdraw_internal_guard(redeem_mid(w, wf, shares, operator), owner, shares, operator),
        ScOp::Tick { seq, ts } => seq >= w.ledger_seq,
        _ => op_guard(w, sc_fop(op)),
    }
}
pub open spec fn sc_post(w: World, op: ScOp) -> World {
    match op {
        ScOp::Deposit { wf, assets, shares, receiver, from, operator } => enter_post(w, wf, assets, assets, shares, receiver, from, operator),
        ScOp::Mint { wf, assets, shares, receiver, from, operator } => enter_post(w, wf, shares, assets, shares, receiver, from, operator),
        ScOp::Withdraw { wf, assets, shares, receiver, owner, operator } => withdraw_post(w, wf, assets, shares, receiver, owner, operator),
        ScOp::Redeem { wf, assets, shares, receiver, owner, operator } => redeem_post(w, wf, assets, shares, receiver, owner, operator),
        ScOp::Tick { seq, ts } => World { ledger_seq: seq, timestamp: ts, auths: Set::empty(), auth_args: Set::empty(), ..w },
        _ => op_post(w, sc_fop(op)),
    }
}
/// what the operation does to the supply / to the balance of `a`: "a mint or burn changes it by exactly the amount"
pub open spec fn sc_supply_delta(op: ScOp) -> int {
    match op {
        ScOp::Deposit { wf, assets, shares, receiver, from, operator } => shares as int,
        ScOp::Mint { wf, assets, shares, receiver, from, operator } => shares as int,
        ScOp::Withdraw { wf, assets, shares, receiver, owner, operator } => -(shares as int),
        ScOp::Redeem { wf, assets, shares, receiver, owner, operator } => -(shares as int),
        _ => 0,
    }
}
pub open spec fn sc_bal_delta(op: ScOp, a: Address) -> int {
    match op {
        ScOp::Deposit { wf, assets, shares, receiver, from, operator } => if a == receiver { shares as int } else { 0 },
        ScOp::Mint { wf, assets, shares, receiver, from, operator } => if a == receiver { shares as int } else { 0 },
        ScOp::Withdraw { wf, assets, shares, receiver, owner, operator } => if a == owner { -(shares as int) } else { 0 },
        ScOp::Redeem { wf, assets, shares, receiver, owner, operator } => if a == owner { -(shares as int) } else { 0 },
        ScOp::ShareTransfer { from, to, mux, amount } => (if a == to { amount as int } else { 0 }) - (if a == from { amount as int } else { 0 }),
        ScOp::ShareTransferFrom { spender, from, to, amount } => (if a == to { amount as int } else { 0 }) - (if a == from { amount as int } else { 0 }),
        _ => 0,
    }
}

/// C01 for one step of a vault contract
pub proof fn lemma_sc_step(w: World, op: ScOp)
    requires inv(w), inv_ev_vault(w), sc_guard(w, op),
    ensures
        //@@ C01:vault.history.step_inv
        inv(sc_post(w, op)),
        //@@ C01:vault.history.step_replay
        inv_ev_vault(sc_post(w, op)),
        //@@ C01:vault.history.step_supply_moves_by_exactly_the_shares
        supply(sc_post(w, op)) == supply(w) + sc_supply_delta(op),
        //@@ C01:vault.history.step_balances
        forall|a: Address| #[trigger] bal(sc_post(w, op), a) == bal(w, a) + sc_bal_delta(op, a),
{
    match op {
        ScOp::Deposit { wf, assets, shares, receiver, from, operator } => {
            lemma_sc_deposit(w, wf, assets, shares, receiver, from, operator);
            lemma_sc_replay_deposit(w, wf, assets, shares, receiver, from, operator);
        }
        ScOp::Mint { wf, assets, shares, receiver, from, operator } => {
            lemma_sc_mint(w, wf, shares, assets, receiver, from, operator);
            lemma_sc_replay_mint(w, wf, shares, assets, receiver, from, operator);
        }
        ScOp::Withdraw { wf, assets, shares, receiver, owner, operator } => {
            lemma_sc_withdraw(w, wf, assets, shares, receiver, owner, operator);
            lemma_sc_replay_withdraw(w, wf, assets, shares, receiver, owner, operator);
        }
        ScOp::Redeem { wf, assets, shares, receiver, owner, operator } => {
            lemma_sc_redeem(w, wf, assets, shares, receiver, owner, operator);
            lemma_sc_replay_redeem(w, wf, assets, shares, receiver, owner, operator);
        }
        ScOp::Tick { seq, ts } => {
            lemma_sc_frame(w, sc_post(w, op));
        }
        _ => {
            lemma_sc_share_op(w, sc_fop(op));
            lemma_sc_replay_share_op(w, sc_fop(op));
        }
    }
}

/// genesis: no share balance entry, no supply entry, empty event log (the vault configuration - asset address,
/// decimals offset - may already be there: it lives under other instance keys)
pub open spec fn sc_genesis(w: World) -> bool {
    &&& forall|k: SV| w.persistent.contains_key(k) ==> !is_bal_key(k)
    &&& !w.instance.contains_key(supply_key())
    &&& w.events.len() == 0
}
pub open spec fn sc_run(w0: World, steps: Seq<ScOp>) -> World
    decreases steps.len()
{
    if steps.len() == 0 { w0 } else { sc_post(sc_run(w0, steps.drop_last()), steps.last()) }
}
pub open spec fn sc_valid(w0: World, steps: Seq<ScOp>) -> bool
    decreases steps.len()
{
    steps.len() == 0 || (sc_valid(w0, steps.drop_last()) && sc_guard(sc_run(w0, steps.drop_last()), steps.last()))
}
pub proof fn lemma_sc_genesis(w0: World)
    requires sc_genesis(w0),
    ensures inv(w0), inv_ev_vault(w0), supply(w0) == 0, forall|a: Address| #[trigger] bal(w0, a) == 0,
{
    lemma_psum_no_bal_keys(w0.persistent);
    assert(sum_bal(w0) == 0);
    assert forall|a: Address| #[trigger] bal(w0, a) == 0 by { lemma_bal_key_facts(a); }
    assert forall|a: Address| vreplay_bal(w0.events, a) == bal(w0, a) by { assert(bal(w0, a) == 0); }
}
/// the history lemma of C01 for vault shares
pub proof fn lemma_sc_history(w0: World, steps: Seq<ScOp>)
    requires sc_genesis(w0), sc_valid(w0, steps),
    ensures
        //@@ C01:vault.history.inv
        inv(sc_run(w0, steps)),
        //@@ C01:vault.history.replay
        inv_ev_vault(sc_run(w0, steps)),
    decreases steps.len()
{
    if steps.len() == 0 {
        lemma_sc_genesis(w0);
    } else {
        lemma_sc_history(w0, steps.drop_last());
        lemma_sc_step(sc_run(w0, steps.drop_last()), steps.last());
    }
}
/// the words of the property, read off the history invariant: in every reachable state total_supply() is the sum
/// of the balances, no balance is negative, and the deposit / withdraw / transfer events reproduce every balance
pub proof fn lemma_sc_reachable(w0: World, steps: Seq<ScOp>, a: Address)
    requires sc_genesis(w0), sc_valid(w0, steps),
    ensures ({
        let w = sc_run(w0, steps);
        //@@ C01:vault.history.supply_is_sum_of_balances
        &&& supply(w) == sum_bal(w)
        //@@ C01:vault.history.no_negative_balance
        &&& 0 <= bal(w, a) <= supply(w)
        //@@ C01:vault.history.events_reproduce_balance_and_supply
        &&& bal(w, a) == vreplay_bal(w.events, a) && supply(w) == vreplay_supply(w.events)
    }),
{
    lemma_sc_history(w0, steps);
    lemma_inv_bal_nonneg(sc_run(w0, steps), a);
}

// =================================================================================================
// 4. the bridge to the code (used by specs/vault_c01/contracts.vspec): a returning call of an entry point IS a step
//    of the history (`*.is_history_step`, checked on the function body), hence C01's own words hold for the call
// =================================================================================================
/// C01 for one returning call: invariant kept, event replay kept, supply moved by exactly `dsupply`
pub open spec fn sc_c01(w: World, w2: World, dsupply: int) -> bool {
    inv(w) && inv_ev_vault(w) ==> inv(w2) && inv_ev_vault(w2) && supply(w2) == supply(w) + dsupply
}
pub open spec fn sc_is_step(w: World, w2: World, op: ScOp) -> bool { sc_guard(w, op) && w2 =~~= sc_post(w, op) }
pub proof fn lemma_sc_call(w: World, w2: World, op: ScOp)
    requires sc_is_step(w, w2, op),
    ensures sc_c01(w, w2, sc_supply_delta(op)),
{
    if inv(w) && inv_ev_vault(w) {
        lemma_sc_step(w, op);
        assert(w2 == sc_post(w, op));
    }
}

// =================================================================================================
// 5. OBSERVATION (not an entry point of the FungibleVault trait, but a public path of the library):
//    `Vault::deposit_internal` / `Vault::withdraw_internal` are `pub`, their doc comments promise "... and emitting
//    events" with an `# Events` section (deposit / withdraw), yet their bodies publish NOTHING: only the four
//    high-level functions call emit_deposit / emit_withdraw.  A custom workflow that calls them directly (the
//    module documentation invites that: "low-level functions ... for custom workflows") and trusts the docs mints /
//    burns shares that no Deposit / Withdraw / Mint / Burn / Transfer event accounts for: Σ balances == supply still
//    holds, the replay clause of C01 does not.  The two lemmas below state that precisely over the exact contracts
//    `deposit_internal.pulls_assets_then_mints_to_receiver` / `withdraw_internal.burns_from_owner_then_pays_receiver`.
// =================================================================================================
pub proof fn lemma_sc_deposit_internal_is_silent(w: World, wf: World, receiver: Address, assets: i128, shares: i128, from: Address, operator: Address)
    requires inv(w), inv_ev_vault(w), deposit_internal_guard(w, receiver, shares), shares > 0,
    ensures ({
        let w2 = deposit_internal_post(w, wf, receiver, assets, shares, from, operator);
        //@@ C01:vault.observation.deposit_internal_mints_without_any_event
        &&& inv(w2) && w2.events == w.events && bal(w2, receiver) == bal(w, receiver) + shares && supply(w2) == supply(w) + shares
        &&& !inv_ev_vault(w2)
    }),
{
    let wx = xcall_w(w, wf, asset_in_call(w, assets, from, operator));
    let w2 = deposit_internal_post(w, wf, receiver, assets, shares, from, operator);
    lemma_sc_frame(w, wx);
    lemma_update_inv(wx, None, Some(receiver), shares as int);
    assert(bal(wx, receiver) == bal(w, receiver));
    assert(vreplay_bal(w2.events, receiver) == bal(w, receiver));
}
pub proof fn lemma_sc_withdraw_internal_is_silent(w: World, wf: World, receiver: Address, owner: Address, assets: i128, shares: i128, operator: Address)
    requires inv(w), inv_ev_vault(w), withdraw_internal_guard(w, owner, shares, operator), shares > 0,
    ensures ({
        let w2 = withdraw_internal_post(w, wf, receiver, owner, assets, shares, operator);
        //@@ C01:vault.observation.withdraw_internal_burns_without_any_event
        &&& inv(w2) && w2.events == w.events && bal(w2, owner) == bal(w, owner) - shares && supply(w2) == supply(w) - shares
        &&& !inv_ev_vault(w2)
    }),
{
    let w2 = withdraw_internal_post(w, wf, receiver, owner, assets, shares, operator);
    lemma_sc_exit_internal(w, wf, receiver, owner, assets, shares, operator);
    assert(bal(w2, owner) == bal(w, owner) - (if owner == owner { shares as int } else { 0 }));
    assert(vreplay_bal(w2.events, owner) == bal(w, owner));
}
