// ---- strict flavour (pass B) of unit `policy_simple` (C14, converse direction "can_enforce agrees with whether enforce
// ---- would succeed"): EVERY contract error is a proof obligation (`sdk_panic_strict requires false`), a diverging closure
// ---- (`unwrap_or_else(|| panic_with_error!(..))`) gets `requires false`, arithmetic is native (overflow = obligation).
// ---- `require_auth` is modelled as returning: its refusal is the one legitimate way for `enforce` not to return in a
// ---- state where `can_enforce` says yes ("enforce changes state only with the account's own authorization").
#[verifier::external_body]
pub fn sdk_panic_strict(code: u32) -> !
    requires false
{ panic!() }
macro_rules! panic_with_error {
    ($e:expr, $err:expr) => { sdk_panic_strict($err as u32) };
}
