// ---- C12: division-free characterisation of rounded quotients, and the lemmas that connect the operators used
// ---- by the code (Rust `/`, `checked_div`, `checked_rem_euclid`, I256 `div` / `rem_euclid`) to them.
// The oracle (`is_floor`, `is_ceil`, `is_trunc`) contains no division operator: q is THE floor of a/b iff
// q*b <= a < (q+1)*b (b>0), mirrored for b<0. Uniqueness lemmas make "the" justified.

pub open spec fn fits_i128(q: int) -> bool { i128::MIN as int <= q <= i128::MAX as int }

/// q == floor(a / b)   (greatest integer <= the rational a/b)
pub open spec fn is_floor(a: int, b: int, q: int) -> bool {
    if b > 0 { q * b <= a < (q + 1) * b } else if b < 0 { q * b >= a > (q + 1) * b } else { false }
}
/// q == ceil(a / b)    (least integer >= the rational a/b)
pub open spec fn is_ceil(a: int, b: int, q: int) -> bool {
    if b > 0 { (q - 1) * b < a <= q * b } else if b < 0 { (q - 1) * b > a >= q * b } else { false }
}
/// q == a/b rounded toward zero: the floor when the rational is >= 0, the ceiling when it is <= 0
pub open spec fn is_trunc(a: int, b: int, q: int) -> bool {
    if (a >= 0 && b > 0) || (a <= 0 && b < 0) { is_floor(a, b, q) } else { is_ceil(a, b, q) }
}
/// the rounded quotient selected by a `Rounding` value
pub open spec fn is_rounded(rounding: Rounding, a: int, b: int, q: int) -> bool {
    match rounding {
        Rounding::Floor => is_floor(a, b, q),
        Rounding::Ceil => is_ceil(a, b, q),
        Rounding::Truncate => is_trunc(a, b, q),
    }
}
/// "the exact rounded quotient does not fit in i128" without naming it: no q that is the rounded quotient fits
pub open spec fn no_i128_floor(a: int, b: int) -> bool { forall|q: int| #[trigger] is_floor(a, b, q) ==> !fits_i128(q) }
pub open spec fn no_i128_ceil(a: int, b: int) -> bool { forall|q: int| #[trigger] is_ceil(a, b, q) ==> !fits_i128(q) }
pub open spec fn no_i128_trunc(a: int, b: int) -> bool { forall|q: int| #[trigger] is_trunc(a, b, q) ==> !fits_i128(q) }
pub open spec fn no_i128_rounded(rounding: Rounding, a: int, b: int) -> bool {
    forall|q: int| #[trigger] is_rounded(rounding, a, b, q) ==> !fits_i128(q)
}

// ------------------------------------------------------------------------------------------------
// small multiplication facts

proof fn lemma_mul_lt_cancel(x: int, y: int, b: int)
    requires b > 0, x * b < y * b
    ensures x < y
{
    assert(x < y) by(nonlinear_arith) requires b > 0, x * b < y * b;
}
proof fn lemma_mul_le_mono(x: int, y: int, b: int)
    requires b > 0, x <= y
    ensures x * b <= y * b
{
    assert(x * b <= y * b) by(nonlinear_arith) requires b > 0, x <= y;
}
proof fn lemma_mul_succ(q: int, b: int)
    ensures (q + 1) * b == q * b + b, (q - 1) * b == q * b - b, (-q) * b == -(q * b), q * (-b) == -(q * b)
{
    assert((q + 1) * b == q * b + b && (q - 1) * b == q * b - b && (-q) * b == -(q * b) && q * (-b) == -(q * b)) by(nonlinear_arith);
}

// ------------------------------------------------------------------------------------------------
// uniqueness: the characterisations determine q

pub proof fn lemma_floor_unique(a: int, b: int, q1: int, q2: int)
    requires is_floor(a, b, q1), is_floor(a, b, q2)
    ensures //@@ C12:lemma.floor_unique
        q1 == q2
{
    lemma_mul_succ(q1, b); lemma_mul_succ(q2, b);
    lemma_mul_succ(q1, -b); lemma_mul_succ(q2, -b);
    if b > 0 {
        // q1*b <= a < (q2+1)*b  ==> q1 < q2+1
        lemma_mul_lt_cancel(q1, q2 + 1, b);
        lemma_mul_lt_cancel(q2, q1 + 1, b);
    } else {
        let c = -b;
        // q1*c <= -a < (q1+1)*c
        assert(q1 * c == -(q1 * b) && q2 * c == -(q2 * b));
        assert((q1 + 1) * c == -((q1 + 1) * b)) by { lemma_mul_succ(q1 + 1, b); }
        assert((q2 + 1) * c == -((q2 + 1) * b)) by { lemma_mul_succ(q2 + 1, b); }
        lemma_mul_lt_cancel(q1, q2 + 1, c);
        lemma_mul_lt_cancel(q2, q1 + 1, c);
    }
}
pub proof fn lemma_ceil_unique(a: int, b: int, q1: int, q2: int)
    requires is_ceil(a, b, q1), is_ceil(a, b, q2)
    ensures //@@ C12:lemma.ceil_unique
        q1 == q2
{
    if b > 0 {
        lemma_mul_lt_cancel(q1 - 1, q2, b);
        lemma_mul_lt_cancel(q2 - 1, q1, b);
    } else {
        let c = -b;
        lemma_mul_succ(q1, b); lemma_mul_succ(q2, b);
        assert((q1 - 1) * c == -((q1 - 1) * b)) by { lemma_mul_succ(q1 - 1, b); }
        assert((q2 - 1) * c == -((q2 - 1) * b)) by { lemma_mul_succ(q2 - 1, b); }
        lemma_mul_lt_cancel(q1 - 1, q2, c);
        lemma_mul_lt_cancel(q2 - 1, q1, c);
    }
}
pub proof fn lemma_trunc_unique(a: int, b: int, q1: int, q2: int)
    requires is_trunc(a, b, q1), is_trunc(a, b, q2)
    ensures //@@ C12:lemma.trunc_unique
        q1 == q2
{
    if (a >= 0 && b > 0) || (a <= 0 && b < 0) { lemma_floor_unique(a, b, q1, q2); } else { lemma_ceil_unique(a, b, q1, q2); }
}

// ------------------------------------------------------------------------------------------------
// the operators of the code: Euclidean `/` `%` on int (vstd's meaning of checked_rem_euclid), truncating division

/// Euclidean division facts for either sign of the divisor
pub proof fn lemma_euc(a: int, b: int)
    requires b != 0
    ensures a == (a / b) * b + a % b, 0 <= a % b, b > 0 ==> a % b < b, b < 0 ==> a % b < -b
{
    assert(a == (a / b) * b + a % b && 0 <= a % b && (b > 0 ==> a % b < b) && (b < 0 ==> a % b < -b)) by(nonlinear_arith)
        requires b != 0;
}

/// a == k*b + m with 0 <= m < |b|: if a is the multiple t*b of b then m == 0
proof fn lemma_rem_zero_iff(a: int, b: int, t: int, k: int, m: int)
    requires b != 0, a == k * b + m, 0 <= m, b > 0 ==> m < b, b < 0 ==> m < -b,
    ensures a == t * b ==> m == 0
{
    if a == t * b {
        let c = t - k;
        assert(c * b == m) by(nonlinear_arith) requires a == t * b, a == k * b + m, c == t - k;
        assert(m == 0) by(nonlinear_arith) requires c * b == m, 0 <= m, b > 0 ==> m < b, b < 0 ==> m < -b, b != 0;
    }
}

/// the model's `rust_div` (ck_div, I256::div) is truncation
pub proof fn lemma_model_div_trunc(a: int, b: int)
    requires b != 0
    ensures //@@ C12:lemma.model_div_is_trunc
        is_trunc(a, b, rust_div(a, b))
{
    if a >= 0 && b > 0 {
        lemma_euc(a, b); lemma_mul_succ(a / b, b);
    } else if a < 0 && b > 0 {
        lemma_euc(-a, b); let q = (-a) / b; lemma_mul_succ(q, b); lemma_mul_succ(-q, b);
    } else if a >= 0 && b < 0 {
        lemma_euc(a, -b); let q = a / (-b); lemma_mul_succ(q, b); lemma_mul_succ(-q, b); lemma_mul_succ(q, -b);
        if a == 0 {
            assert(q == 0) by(nonlinear_arith) requires 0 == q * (-b) + a % (-b), 0 <= a % (-b) < -b;
        }
    } else {
        lemma_euc(-a, -b); let q = (-a) / (-b); lemma_mul_succ(q, b); lemma_mul_succ(q, -b);
    }
}

/// vstd's `rust_div` (exec `/` and `checked_div` on i128) is truncation
pub proof fn lemma_vstd_div_trunc(a: int, b: int)
    requires b != 0
    ensures //@@ C12:lemma.rust_div_is_trunc
        is_trunc(a, b, vstd::arithmetic::div_mod::rust_div(a, b))
{
    let t = vstd::arithmetic::div_mod::rust_div(a, b);
    if a >= 0 {
        lemma_euc(a, b); let q = a / b; let m = a % b;
        assert(t == q);
        lemma_mul_succ(q, b);
        if a == 0 {
            assert(q == 0) by(nonlinear_arith) requires 0 == q * b + m, 0 <= m, b > 0 ==> m < b, b < 0 ==> m < -b, b != 0;
        }
    } else {
        lemma_euc(-a, b); let q = (-a) / b; let m = (-a) % b;
        assert(t == -q);
        lemma_mul_succ(q, b); lemma_mul_succ(-q, b);
    }
}

/// from the truncated quotient t and the Euclidean remainder m to floor and ceiling, exactly along the
/// case split of `div_floor` / `div_ceil`
pub proof fn lemma_round_from_trunc(a: int, b: int, t: int, k: int, m: int)
    requires b != 0, is_trunc(a, b, t), a == k * b + m, 0 <= m, b > 0 ==> m < b, b < 0 ==> m < -b,
    ensures
        ((a < 0 && b > 0) || (a > 0 && b < 0)) ==> is_floor(a, b, if m > 0 { t - 1 } else { t }),
        !((a < 0 && b > 0) || (a > 0 && b < 0)) ==> is_floor(a, b, t),
        ((a <= 0 && b > 0) || (a >= 0 && b < 0)) ==> is_ceil(a, b, t),
        !((a <= 0 && b > 0) || (a >= 0 && b < 0)) ==> is_ceil(a, b, if m > 0 { t + 1 } else { t }),
{
    lemma_mul_succ(t, b);
    lemma_mul_succ(t - 1, b);
    lemma_mul_succ(t + 1, b);
    lemma_rem_zero_iff(a, b, t, k, m);
    if a == 0 {
        // t*b is within |b| of 0, so t == 0
        assert(t == 0) by(nonlinear_arith) requires b != 0, is_trunc(0, b, t);
    } else if m == 0 {
        // a == k*b is a multiple of b; the truncated quotient of a multiple is exact
        if (a >= 0 && b > 0) || (a <= 0 && b < 0) {
            lemma_mul_succ(k, b);
            assert(is_floor(a, b, k));
            lemma_floor_unique(a, b, t, k);
        } else {
            lemma_mul_succ(k, b);
            assert(is_ceil(a, b, k));
            lemma_ceil_unique(a, b, t, k);
        }
        assert(a == t * b);
    } else {
        // a is not a multiple of b, in particular a != t*b
        assert(a != t * b);
    }
}

// ------------------------------------------------------------------------------------------------
// magnitude: a rounded quotient is never larger in magnitude than the dividend (|b| >= 1)

pub open spec fn abs_le(q: int, a: int) -> bool { if a >= 0 { -a <= q <= a } else { a <= q <= -a } }

pub proof fn lemma_floor_bound(a: int, b: int, q: int)
    requires is_floor(a, b, q)
    ensures abs_le(q, a)
{
    lemma_mul_succ(q, b);
    if b > 0 {
        assert(abs_le(q, a)) by(nonlinear_arith) requires b > 0, q * b <= a, a < q * b + b;
    } else {
        assert(abs_le(q, a)) by(nonlinear_arith) requires b < 0, q * b >= a, a > q * b + b;
    }
}
pub proof fn lemma_ceil_bound(a: int, b: int, q: int)
    requires is_ceil(a, b, q)
    ensures abs_le(q, a)
{
    lemma_mul_succ(q, b);
    if b > 0 {
        assert(abs_le(q, a)) by(nonlinear_arith) requires b > 0, q * b - b < a, a <= q * b;
    } else {
        assert(abs_le(q, a)) by(nonlinear_arith) requires b < 0, q * b - b > a, a >= q * b;
    }
}
pub proof fn lemma_trunc_bound(a: int, b: int, q: int)
    requires is_trunc(a, b, q)
    ensures abs_le(q, a)
{
    if (a >= 0 && b > 0) || (a <= 0 && b < 0) { lemma_floor_bound(a, b, q); } else { lemma_ceil_bound(a, b, q); }
}

/// sign of the truncated quotient
pub proof fn lemma_trunc_sign(a: int, b: int, t: int)
    requires is_trunc(a, b, t)
    ensures ((a >= 0 && b > 0) || (a <= 0 && b < 0)) ==> t >= 0, ((a <= 0 && b > 0) || (a >= 0 && b < 0)) ==> t <= 0
{
    lemma_mul_succ(t, b);
    if (a >= 0 && b > 0) || (a <= 0 && b < 0) {
        if b > 0 { assert(t >= 0) by(nonlinear_arith) requires b > 0, a >= 0, a < t * b + b; }
        else { assert(t >= 0) by(nonlinear_arith) requires b < 0, a <= 0, a > t * b + b; }
    }
    if (a <= 0 && b > 0) || (a >= 0 && b < 0) {
        if a == 0 && !(b > 0) { // a == 0, b < 0: is_floor
            assert(t == 0) by(nonlinear_arith) requires b < 0, t * b >= 0, 0 > t * b + b;
        } else if a == 0 {
            assert(t == 0) by(nonlinear_arith) requires b > 0, t * b <= 0, 0 < t * b + b;
        } else if b > 0 { assert(t <= 0) by(nonlinear_arith) requires b > 0, a < 0, t * b - b < a; }
        else { assert(t <= 0) by(nonlinear_arith) requires b < 0, a > 0, t * b - b > a; }
    }
}

/// rounded quotients of a dividend in [-h, h) stay in [-h, h) except for (-h) / -1   (h = 2^127 or 2^255)
pub proof fn lemma_floor_fits_h(a: int, b: int, q: int, h: int)
    requires h > 2, -h <= a < h, is_floor(a, b, q), !(a == -h && b == -1)
    ensures -h <= q < h
{
    lemma_floor_bound(a, b, q);
    if a == -h && q == h {
        lemma_mul_succ(q, b);
        if b > 0 { assert(false) by(nonlinear_arith) requires b > 0, q * b <= a, a == -q, q > 0; }
        else { assert(b >= -1) by(nonlinear_arith) requires b < 0, q * b >= a, a == -q, q > 0; }
    }
}
pub proof fn lemma_ceil_fits_h(a: int, b: int, q: int, h: int)
    requires h > 2, -h <= a < h, is_ceil(a, b, q), !(a == -h && b == -1)
    ensures -h <= q < h
{
    lemma_ceil_bound(a, b, q);
    if a == -h && q == h {
        lemma_mul_succ(q, b);
        if b > 0 { assert(false) by(nonlinear_arith) requires b > 0, q * b - b < a, a == -q, q > 1; }
        else { assert(b >= -1) by(nonlinear_arith) requires b < 0, q * b - b > a, a == -q, q > 2; }
    }
}
pub proof fn lemma_trunc_fits_h(a: int, b: int, t: int, h: int)
    requires h > 2, -h <= a < h, is_trunc(a, b, t), !(a == -h && b == -1)
    ensures -h <= t < h
{
    if (a >= 0 && b > 0) || (a <= 0 && b < 0) { lemma_floor_fits_h(a, b, t, h); } else { lemma_ceil_fits_h(a, b, t, h); }
}
pub proof fn lemma_trunc_fits(a: int, b: int, t: int)
    requires fits_i128(a), is_trunc(a, b, t), !(a == i128::MIN as int && b == -1)
    ensures fits_i128(t)
{
    lemma_trunc_fits_h(a, b, t, -(i128::MIN as int));
}
pub proof fn lemma_floor_fits(a: int, b: int, q: int)
    requires fits_i128(a), is_floor(a, b, q), !(a == i128::MIN as int && b == -1)
    ensures fits_i128(q)
{
    lemma_floor_fits_h(a, b, q, -(i128::MIN as int));
}
pub proof fn lemma_ceil_fits(a: int, b: int, q: int)
    requires fits_i128(a), is_ceil(a, b, q), !(a == i128::MIN as int && b == -1)
    ensures fits_i128(q)
{
    lemma_ceil_fits_h(a, b, q, -(i128::MIN as int));
}

/// the product of two i128 values has magnitude at most 2^254: it fits in 256 bits and is not the 256-bit minimum
pub proof fn lemma_i128_product_256(x: int, y: int)
    requires fits_i128(x), fits_i128(y)
    ensures i256_fits(x * y), x * y > -i256_hi()
{
    let m = -(i128::MIN as int);
    assert(-(m * m) <= x * y <= m * m) by(nonlinear_arith) requires -m <= x <= m, -m <= y <= m, m > 0;
    assert(m * m + m * m == i256_hi());
}

// ------------------------------------------------------------------------------------------------
// packaged facts used at the call sites

/// everything `div_floor` / `div_ceil` on i128 need about `r / z` (vstd rust_div) and `r.checked_rem_euclid(z)` (r % z)
pub proof fn lemma_i128_ops(a: int, b: int)
    requires b != 0
    ensures ({
        let t = vstd::arithmetic::div_mod::rust_div(a, b);
        let m = a % b;
        &&& is_trunc(a, b, t) && abs_le(t, a)
        &&& (fits_i128(a) && !(a == i128::MIN as int && b == -1)) ==> fits_i128(t)
        &&& ((a >= 0 && b > 0) || (a <= 0 && b < 0)) ==> t >= 0
        &&& ((a <= 0 && b > 0) || (a >= 0 && b < 0)) ==> t <= 0
        &&& 0 <= m
        &&& ((a < 0 && b > 0) || (a > 0 && b < 0)) ==> is_floor(a, b, if m > 0 { t - 1 } else { t })
        &&& !((a < 0 && b > 0) || (a > 0 && b < 0)) ==> is_floor(a, b, t)
        &&& ((a <= 0 && b > 0) || (a >= 0 && b < 0)) ==> is_ceil(a, b, t)
        &&& !((a <= 0 && b > 0) || (a >= 0 && b < 0)) ==> is_ceil(a, b, if m > 0 { t + 1 } else { t })
    })
{
    let t = vstd::arithmetic::div_mod::rust_div(a, b);
    lemma_vstd_div_trunc(a, b);
    lemma_trunc_bound(a, b, t);
    lemma_trunc_sign(a, b, t);
    if fits_i128(a) && !(a == i128::MIN as int && b == -1) { lemma_trunc_fits(a, b, t); }
    lemma_euc(a, b);
    lemma_round_from_trunc(a, b, t, a / b, a % b);
}

/// the same for the model's truncating division (I256::div, ck_div) and Euclidean remainder (I256::rem_euclid)
pub proof fn lemma_model_ops(a: int, b: int)
    requires b != 0
    ensures ({
        let t = rust_div(a, b);
        let m = a % b;
        &&& is_trunc(a, b, t) && abs_le(t, a)
        &&& (fits_i128(a) && !(a == i128::MIN as int && b == -1)) ==> fits_i128(t)
        &&& ((a >= 0 && b > 0) || (a <= 0 && b < 0)) ==> t >= 0
        &&& ((a <= 0 && b > 0) || (a >= 0 && b < 0)) ==> t <= 0
        &&& 0 <= m
        &&& ((a < 0 && b > 0) || (a > 0 && b < 0)) ==> is_floor(a, b, if m > 0 { t - 1 } else { t })
        &&& !((a < 0 && b > 0) || (a > 0 && b < 0)) ==> is_floor(a, b, t)
        &&& ((a <= 0 && b > 0) || (a >= 0 && b < 0)) ==> is_ceil(a, b, t)
        &&& !((a <= 0 && b > 0) || (a >= 0 && b < 0)) ==> is_ceil(a, b, if m > 0 { t + 1 } else { t })
    })
{
    let t = rust_div(a, b);
    lemma_model_div_trunc(a, b);
    lemma_trunc_bound(a, b, t);
    lemma_trunc_sign(a, b, t);
    if fits_i128(a) && !(a == i128::MIN as int && b == -1) { lemma_trunc_fits(a, b, t); }
    lemma_euc(a, b);
    lemma_round_from_trunc(a, b, t, a / b, a % b);
}

/// a known exact quotient that does not fit ==> no fitting quotient exists (by uniqueness)
pub proof fn lemma_no_fit_floor(a: int, b: int, q0: int)
    requires is_floor(a, b, q0), !fits_i128(q0)
    ensures no_i128_floor(a, b)
{
    assert forall|q: int| #[trigger] is_floor(a, b, q) implies !fits_i128(q) by { lemma_floor_unique(a, b, q, q0); }
}
pub proof fn lemma_no_fit_ceil(a: int, b: int, q0: int)
    requires is_ceil(a, b, q0), !fits_i128(q0)
    ensures no_i128_ceil(a, b)
{
    assert forall|q: int| #[trigger] is_ceil(a, b, q) implies !fits_i128(q) by { lemma_ceil_unique(a, b, q, q0); }
}
pub proof fn lemma_no_fit_trunc(a: int, b: int, q0: int)
    requires is_trunc(a, b, q0), !fits_i128(q0)
    ensures no_i128_trunc(a, b)
{
    assert forall|q: int| #[trigger] is_trunc(a, b, q) implies !fits_i128(q) by { lemma_trunc_unique(a, b, q, q0); }
}

// ------------------------------------------------------------------------------------------------
// existence: for b != 0 each rounded quotient exists (so "no fitting quotient" = "the quotient does not fit")
pub proof fn lemma_rounded_exists(a: int, b: int)
    requires b != 0
    ensures //@@ C12:lemma.rounded_quotients_exist
        exists|q: int| is_floor(a, b, q),
        exists|q: int| is_ceil(a, b, q),
        exists|q: int| is_trunc(a, b, q),
{
    lemma_model_ops(a, b);
    let t = rust_div(a, b); let m = a % b;
    let f = if ((a < 0 && b > 0) || (a > 0 && b < 0)) && m > 0 { t - 1 } else { t };
    let c = if !((a <= 0 && b > 0) || (a >= 0 && b < 0)) && m > 0 { t + 1 } else { t };
    assert(is_floor(a, b, f));
    assert(is_ceil(a, b, c));
    assert(is_trunc(a, b, t));
}
