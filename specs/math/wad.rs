// ---- C12, Wad part: 18-decimal fixed point. Exact rational results truncated toward zero, stated with the
// ---- division-free `is_trunc`; `checked_pow` is pinned to a spec function so that `pow` can be compared with it.

/// Wad multiplication step of `checked_pow` as a function: trunc(a*b / 10^18) if it fits in i128
pub open spec fn wad_mul_spec(a: int, b: int) -> Option<int> {
    let q = rust_div(a * b, WAD_SCALE as int);
    if fits_i128(q) { Some(q) } else { None }
}
/// the square-and-multiply loop of `checked_pow`, state (result, base, exponent)
pub open spec fn wad_pow_loop(result: int, base: int, exponent: nat) -> Option<int>
    decreases exponent
{
    if exponent == 0 { Some(result) } else {
        let r1 = if exponent % 2 == 1 { wad_mul_spec(result, base) } else { Some(result) };
        let e2 = exponent / 2;
        if r1.is_none() { None }
        else if e2 > 0 {
            let b2 = wad_mul_spec(base, base);
            if b2.is_none() { None } else { wad_pow_loop(r1.unwrap(), b2.unwrap(), e2) }
        } else { wad_pow_loop(r1.unwrap(), base, e2) }
    }
}
/// the value of `Wad::checked_pow(x, n)`
pub open spec fn wad_checked_pow_spec(x: int, n: nat) -> Option<int> {
    if n == 0 { Some(WAD_SCALE as int) } else if n == 1 { Some(x) } else if x == 0 { Some(0int) }
    else if x == WAD_SCALE as int { Some(x) } else { wad_pow_loop(WAD_SCALE as int, x, n) }
}

/// `wad_mul_spec` against the division-free contract of `checked_mul_div(a, b, WAD_SCALE)`: the model quotient is
/// THE truncated quotient, so `Some(q)` with is_trunc gives wad_mul_spec == Some(q), and no_i128_trunc gives None
pub proof fn lemma_wad_mul_spec(a: int, b: int)
    ensures
        is_trunc(a * b, WAD_SCALE as int, rust_div(a * b, WAD_SCALE as int)),
        forall|q: int| #[trigger] is_trunc(a * b, WAD_SCALE as int, q) ==> q == rust_div(a * b, WAD_SCALE as int),
{
    lemma_model_div_trunc(a * b, WAD_SCALE as int);
    let t = rust_div(a * b, WAD_SCALE as int);
    assert forall|q: int| #[trigger] is_trunc(a * b, WAD_SCALE as int, q) implies q == t by {
        lemma_trunc_unique(a * b, WAD_SCALE as int, q, t);
    }
}
