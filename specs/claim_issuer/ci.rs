// ================================================================================================
// C15 / C20 — claim issuer helpers (packages/tokens/src/rwa/claim_issuer/storage.rs): ghost vocabulary.
// The library ships no `is_claim_valid`; it ships the helpers of the documented recipe.  Their contracts:
// what is signed, what a revocation digest covers, how the nonce moves, when a claim is expired, which keys
// are allowed for a topic, and what the three verifiers accept.
// ================================================================================================

// ---- views of the issuer's persistent state ----
/// signing keys allowed for a topic (absent entry = no keys)
pub open spec fn topic_keys(w: World, t: u32) -> Option<Vec<SigningKey>> { dec::<Vec<SigningKey>>(pget(w, ClaimIssuerStorageKey::Topics(t))) }
/// (topic, registry) pairs a signing key is allowed for
pub open spec fn key_pairs(w: World, k: SigningKey) -> Option<Vec<(u32, Address)>> { dec::<Vec<(u32, Address)>>(pget(w, ClaimIssuerStorageKey::Pairs(k))) }
pub open spec fn topic_keys_seq(w: World, t: u32) -> Seq<SigningKey> { match topic_keys(w, t) { Some(v) => v@, None => Seq::empty() } }
pub open spec fn key_pairs_seq(w: World, k: SigningKey) -> Seq<(u32, Address)> { match key_pairs(w, k) { Some(v) => v@, None => Seq::empty() } }
/// current signature nonce of (identity, topic); absent = 0
pub open spec fn cur_nonce(w: World, identity: Address, t: u32) -> u32 {
    match dec::<u32>(pget(w, ClaimIssuerStorageKey::ClaimNonce(identity, t))) { Some(n) => n, None => 0 }
}
pub open spec fn mk_key(pk: Seq<u8>, scheme: u32) -> SigningKey { SigningKey { public_key: Bytes { s: Ghost(pk) }, scheme: scheme } }
/// the key (pk, scheme) occurs in the list
pub open spec fn key_in(v: Seq<SigningKey>, pk: Seq<u8>, scheme: u32) -> bool {
    exists|j: int| 0 <= j < v.len() && (#[trigger] v[j]).public_key@ == pk && v[j].scheme == scheme
}
/// encoding of a host vector given as a sequence
pub open spec fn sv_seq<T: ToSV>(s: Seq<T>) -> SV { SV::Vec(Seq::new(s.len(), |i: int| s[i].sv())) }

// ---- what is signed / what identifies a claim for revocation ----
/// network id ‖ xdr(issuer contract) ‖ xdr(identity) ‖ be32(topic) ‖ be32(nonce) ‖ claim data
pub open spec fn claim_message(w: World, identity: Address, t: u32, nonce: u32, data: Seq<u8>) -> Seq<u8> {
    w.network_id + xdr_spec(w.this.sv()) + xdr_spec(identity.sv()) + be_u32(t) + be_u32(nonce) + data
}
/// the same without the nonce: a revocation survives nonce bumps
pub open spec fn claim_identifier(w: World, identity: Address, t: u32, data: Seq<u8>) -> Seq<u8> {
    w.network_id + xdr_spec(w.this.sv()) + xdr_spec(identity.sv()) + be_u32(t) + data
}
pub open spec fn revocation_key(w: World, identity: Address, t: u32, data: Seq<u8>) -> ClaimIssuerStorageKey {
    ClaimIssuerStorageKey::RevokedClaim(BytesN { s: Ghost(keccak256_spec(claim_identifier(w, identity, t, data))) })
}
pub open spec fn claim_revoked(w: World, identity: Address, t: u32, data: Seq<u8>) -> bool {
    match dec::<bool>(pget(w, revocation_key(w, identity, t, data))) { Some(b) => b, None => false }
}

// ---- world transformers ----
pub open spec fn invalidate_post(w: World, identity: Address, t: u32) -> World {
    let n = cur_nonce(w, identity, t);
    pset(w_event(w, SignaturesInvalidated { identity: identity, claim_topic: t, nonce: n }.ev()),
        ClaimIssuerStorageKey::ClaimNonce(identity, t), ((n + 1) as u32).sv())
}
pub open spec fn set_revoked_post(w: World, identity: Address, t: u32, data: Bytes, revoked: bool) -> World {
    w_event(pset(w, revocation_key(w, identity, t, data@), revoked.sv()),
        ClaimRevoked { identity: identity, claim_topic: t, claim_data: data, revoked: revoked }.ev())
}

// ---- expiration encoding: created_at (8 bytes BE) ‖ valid_until (8 bytes BE) ‖ data ----
pub open spec fn enc_valid_until(encoded: Seq<u8>) -> int { be_val(encoded.subrange(8, 16)) }
pub open spec fn enc_created_at(encoded: Seq<u8>) -> int { be_val(encoded.subrange(0, 8)) }

/// value of the 8-byte big-endian string of x is x
pub proof fn lemma_be_u64_val(x: u64)
    ensures be_val(be_u64(x)) == x as int, be_u64(x).len() == 8,
{
    let s = be_u64(x);
    reveal_with_fuel(be_val, 10);
    assert(s.drop_last() =~= seq![s[0], s[1], s[2], s[3], s[4], s[5], s[6]]);
    let s7 = s.drop_last();
    assert(s7.drop_last() =~= seq![s[0], s[1], s[2], s[3], s[4], s[5]]);
    let s6 = s7.drop_last();
    assert(s6.drop_last() =~= seq![s[0], s[1], s[2], s[3], s[4]]);
    let s5 = s6.drop_last();
    assert(s5.drop_last() =~= seq![s[0], s[1], s[2], s[3]]);
    let s4 = s5.drop_last();
    assert(s4.drop_last() =~= seq![s[0], s[1], s[2]]);
    let s3 = s4.drop_last();
    assert(s3.drop_last() =~= seq![s[0], s[1]]);
    let s2 = s3.drop_last();
    assert(s2.drop_last() =~= seq![s[0]]);
    let s1 = s2.drop_last();
    assert(s1.drop_last() =~= Seq::<u8>::empty());
    assert(be_val(s1) == s[0] as int);
    assert(be_val(s2) == be_val(s1) * 256 + s[1] as int);
    assert(be_val(s3) == be_val(s2) * 256 + s[2] as int);
    assert(be_val(s4) == be_val(s3) * 256 + s[3] as int);
    assert(be_val(s5) == be_val(s4) * 256 + s[4] as int);
    assert(be_val(s6) == be_val(s5) * 256 + s[5] as int);
    assert(be_val(s7) == be_val(s6) * 256 + s[6] as int);
    assert(be_val(s) == be_val(s7) * 256 + s[7] as int);
    let v = x as int;
    let v1 = v / 256; let v2 = v1 / 256; let v3 = v2 / 256; let v4 = v3 / 256; let v5 = v4 / 256; let v6 = v5 / 256; let v7 = v6 / 256;
    assert(v2 == v / 0x10000);
    assert(v3 == v / 0x1000000);
    assert(v4 == v / 0x100000000);
    assert(v5 == v / 0x10000000000);
    assert(v6 == v / 0x1000000000000);
    assert(v7 == v / 0x100000000000000);
    assert(v7 < 256);
}

/// decode(encode(created_at, valid_until, data)) gives back valid_until and created_at
pub proof fn lemma_expiration_round_trip(created_at: u64, valid_until: u64, data: Seq<u8>)
    ensures
        //@@ C15:expiration.encode_decode_round_trip
        enc_valid_until(be_u64(created_at) + be_u64(valid_until) + data) == valid_until as int
            && enc_created_at(be_u64(created_at) + be_u64(valid_until) + data) == created_at as int,
{
    let enc = be_u64(created_at) + be_u64(valid_until) + data;
    lemma_be_u64_val(created_at);
    lemma_be_u64_val(valid_until);
    assert(enc.subrange(0, 8) =~= be_u64(created_at));
    assert(enc.subrange(8, 16) =~= be_u64(valid_until));
}

// ---- key registry (C20): Topics(t) -> keys, Pairs(key) -> (topic, registry) pairs ----
pub open spec fn ci_key(pk: Bytes, scheme: u32) -> SigningKey { SigningKey { public_key: pk, scheme: scheme } }
pub open spec fn pairs_have_topic(p: Seq<(u32, Address)>, t: u32) -> bool { exists|j: int| 0 <= j < p.len() && (#[trigger] p[j]).0 == t }
pub open spec fn pairs_have_registry(p: Seq<(u32, Address)>, r: Address) -> bool { exists|j: int| 0 <= j < p.len() && (#[trigger] p[j]).1 == r }

/// allow_key, storage part 1: the key joins the topic's key list unless it is already there
pub open spec fn ak_topics(w: World, key: SigningKey, t: u32) -> World {
    if key_in(topic_keys_seq(w, t), key.public_key@, key.scheme) { w }
    else { pset(w, ClaimIssuerStorageKey::Topics(t), sv_seq(topic_keys_seq(w, t).push(key))) }
}
/// allow_key, storage part 2 and event: the (topic, registry) pair joins the key's pair list
pub open spec fn ak_store(w: World, pk: Bytes, registry: Address, scheme: u32, t: u32) -> World {
    let key = ci_key(pk, scheme);
    let w2 = ak_topics(w, key, t);
    w_event(pset(w2, ClaimIssuerStorageKey::Pairs(key), sv_seq(key_pairs_seq(w2, key).push((t, registry)))),
        KeyAllowed { public_key: pk, registry: registry, scheme: scheme, claim_topic: t }.ev())
}
/// what must have held for allow_key to return (documented reasons only; capacity is stated separately)
pub open spec fn ak_guard(w: World, pk: Bytes, registry: Address, scheme: u32, t: u32) -> bool {
    &&& pk@.len() > 0
    &&& !key_pairs_seq(w, ci_key(pk, scheme)).contains((t, registry))
}

pub open spec fn rk_guard(w: World, pk: Bytes, registry: Address, scheme: u32, t: u32) -> bool {
    key_pairs(w, ci_key(pk, scheme)).is_some() && key_pairs_seq(w, ci_key(pk, scheme)).contains((t, registry))
}
pub open spec fn rk_pairs_after(w: World, key: SigningKey, registry: Address, t: u32) -> Seq<(u32, Address)> {
    let p = key_pairs_seq(w, key);
    p.remove(seq_index_of(p, (t, registry)))
}
pub open spec fn rk_pairs(w: World, key: SigningKey, registry: Address, t: u32) -> World {
    let p2 = rk_pairs_after(w, key, registry, t);
    if p2.len() == 0 { pdel(w, ClaimIssuerStorageKey::Pairs(key)) } else { pset(w, ClaimIssuerStorageKey::Pairs(key), sv_seq(p2)) }
}
pub open spec fn rk_topics(w: World, p2: Seq<(u32, Address)>, key: SigningKey, t: u32) -> World {
    if pairs_have_topic(p2, t) { w } else {
        let ks = topic_keys_seq(w, t);
        let ks2 = ks.remove(seq_index_of(ks, key));
        if ks2.len() == 0 { pdel(w, ClaimIssuerStorageKey::Topics(t)) } else { pset(w, ClaimIssuerStorageKey::Topics(t), sv_seq(ks2)) }
    }
}
pub open spec fn rk_post(w: World, pk: Bytes, registry: Address, scheme: u32, t: u32) -> World {
    let key = ci_key(pk, scheme);
    w_event(rk_topics(rk_pairs(w, key, registry, t), rk_pairs_after(w, key, registry, t), key, t),
        KeyRemoved { public_key: pk, registry: registry, scheme: scheme, claim_topic: t }.ev())
}
