// ================================================================================================
// C15, issuer half — the DOCUMENTED RECIPE.  The library ships no `is_claim_valid`; the module documentation of
// claim_issuer/mod.rs shows how to compose one from the helpers.  The function below is that example written out
// (Ed25519 branch; `return false` of the doc example — which does not type-check in a function returning `()` —
// read as the revert the trait demands: "Panics if claim is invalid").  IT IS NOT LIBRARY CODE: it is spec-pack
// code that CALLS the extracted library functions, so its contract is a consequence of theirs.
// ================================================================================================

/// what a return of the recipe guarantees — the property's issuer-side conditions
pub open spec fn recipe_post(w: World, identity: Address, t: u32, scheme: u32, sig_data: Seq<u8>, claim_data: Seq<u8>) -> bool {
    let pk = sig_data.subrange(0, 32);
    let sig = sig_data.subrange(32, 96);
    &&& sig_data.len() == 96
    // signed by a key CURRENTLY allowed for the topic
    &&& key_in(topic_keys_seq(w, t), pk, scheme)
    // not expired
    &&& claim_data.len() >= 16 && (w.timestamp as int) < enc_valid_until(claim_data)
    // not revoked
    &&& !claim_revoked(w, identity, t, claim_data)
    // signed over this network, this issuer, the identity, the topic, the CURRENT nonce and the data
    &&& sig_ok(SIG_ED25519(), pk, claim_message(w, identity, t, cur_nonce(w, identity, t), claim_data), sig)
}

pub fn recipe_is_claim_valid_ed25519(e: &Env, identity: &Address, claim_topic: u32, scheme: u32, sig_data: &Bytes, claim_data: &Bytes)
    ensures recipe_post(e@, *identity, claim_topic, scheme, sig_data@, claim_data@),
{
    let signature_data = Ed25519Verifier::extract_signature_data(e, sig_data);
    if !is_key_allowed_for_topic(e, &signature_data.public_key.to_bytes(), scheme, claim_topic) {
        sdk_panic(0u32)
    }
    if is_claim_expired(e, claim_data) {
        sdk_panic(0u32)
    }
    let message = Ed25519Verifier::build_message(e, identity, claim_topic, claim_data);
    if is_claim_revoked(e, identity, claim_topic, claim_data) {
        sdk_panic(0u32)
    }
    Ed25519Verifier::verify(e, &message, &signature_data)
}

/// the property's negative clauses, read off `recipe_post`
pub proof fn lemma_recipe_rejects(w: World, identity: Address, t: u32, scheme: u32, sig_data: Seq<u8>, claim_data: Seq<u8>)
    requires recipe_post(w, identity, t, scheme, sig_data, claim_data),
    ensures
        //@@ C15:recipe.key_currently_allowed_for_topic
        key_in(topic_keys_seq(w, t), sig_data.subrange(0, 32), scheme),
        //@@ C15:recipe.not_expired
        (w.timestamp as int) < enc_valid_until(claim_data),
        //@@ C15:recipe.not_revoked
        !claim_revoked(w, identity, t, claim_data),
        //@@ C15:recipe.signed_over_network_issuer_identity_topic_current_nonce_data
        sig_ok(SIG_ED25519(), sig_data.subrange(0, 32),
            w.network_id + xdr_spec(w.this.sv()) + xdr_spec(identity.sv()) + be_u32(t) + be_u32(cur_nonce(w, identity, t)) + claim_data,
            sig_data.subrange(32, 96)),
{}

/// a nonce bump changes what has to be signed: after `invalidate_claim_signatures` the message differs in the nonce field
pub proof fn lemma_nonce_bump_changes_message(w: World, identity: Address, t: u32, data: Seq<u8>)
    requires cur_nonce(w, identity, t) < u32::MAX,
    ensures
        //@@ C15:invalidate.lemma.message_uses_new_nonce
        claim_message(invalidate_post(w, identity, t), identity, t, cur_nonce(invalidate_post(w, identity, t), identity, t), data)
            == claim_message(w, identity, t, (cur_nonce(w, identity, t) + 1) as u32, data),
        //@@ C15:invalidate.lemma.revocations_survive
        claim_revoked(invalidate_post(w, identity, t), identity, t, data) == claim_revoked(w, identity, t, data),
{
    broadcast use sdk_store;
    let w2 = invalidate_post(w, identity, t);
    assert(ClaimIssuerStorageKey::ClaimNonce(identity, t) != revocation_key(w, identity, t, data));
    assert(revocation_key(w2, identity, t, data) == revocation_key(w, identity, t, data));
}
