// ================================================================================================
// C15 / C20 over HISTORIES: any sequence of the issuer's state-changing helpers (allow_key, remove_key,
// invalidate_claim_signatures, set_claim_revoked), started from a consistent registry, keeps the registry consistent,
// and no nonce ever decreases.  Each step relation is exactly the verified `.exact` postcondition of the helper.
// ================================================================================================
pub enum CiOp {
    Allow { pk: Bytes, registry: Address, scheme: u32, t: u32 },
    Remove { pk: Bytes, registry: Address, scheme: u32, t: u32 },
    Invalidate { identity: Address, t: u32 },
    Revoke { identity: Address, t: u32, data: Bytes, revoked: bool },
}
/// one step: pre-state, operation, post-state — the contracts of the four helpers
pub open spec fn ci_step(w: World, op: CiOp, w2: World) -> bool {
    match op {
        // allow_key first asks the registry (calls / ext move), then stores
        CiOp::Allow { pk, registry, scheme, t } => ak_guard(w, pk, registry, scheme, t)
            && w2 =~~= ak_store(World { calls: w2.calls, ext: w2.ext, ..w }, pk, registry, scheme, t),
        CiOp::Remove { pk, registry, scheme, t } => rk_guard(w, pk, registry, scheme, t) && w2 =~~= rk_post(w, pk, registry, scheme, t),
        CiOp::Invalidate { identity, t } => cur_nonce(w, identity, t) < u32::MAX && w2 == invalidate_post(w, identity, t),
        CiOp::Revoke { identity, t, data, revoked } => w2 == set_revoked_post(w, identity, t, data, revoked),
    }
}
/// a history: worlds tr[0..=n] linked by n operations
pub open spec fn ci_history(tr: Seq<World>, ops: Seq<CiOp>) -> bool {
    tr.len() == ops.len() + 1 && forall|i: int| 0 <= i < ops.len() ==> #[trigger] ci_step(tr[i], ops[i], tr[i + 1])
}

pub proof fn lemma_step_keeps_inv_and_nonces(w: World, op: CiOp, w2: World, identity: Address, t: u32)
    requires ci_inv(w), ci_step(w, op, w2),
    ensures ci_inv(w2), cur_nonce(w2, identity, t) >= cur_nonce(w, identity, t),
{
    broadcast use sdk_store;
    match op {
        CiOp::Allow { pk, registry, scheme, t: t1 } => {
            let w1 = World { calls: w2.calls, ext: w2.ext, ..w };
            assert(ci_inv(w1)) by {
                assert forall|tt: u32| #[trigger] topic_keys_seq(w1, tt) == topic_keys_seq(w, tt) by {}
                assert forall|k: SigningKey| #[trigger] key_pairs_seq(w1, k) == key_pairs_seq(w, k) by {}
            }
            lemma_ak_preserves_inv(w1, pk, registry, scheme, t1);
            let w3 = ak_store(w1, pk, registry, scheme, t1);
            assert(w2.persistent =~~= w3.persistent);
            lemma_inv_by_persistent(w3, w2);
            assert(cur_nonce(w3, identity, t) == cur_nonce(w, identity, t));
            assert(cur_nonce(w2, identity, t) == cur_nonce(w3, identity, t));
        }
        CiOp::Remove { pk, registry, scheme, t: t1 } => {
            lemma_rk_preserves_inv(w, pk, registry, scheme, t1);
            let w3 = rk_post(w, pk, registry, scheme, t1);
            assert(w2.persistent =~~= w3.persistent);
            lemma_inv_by_persistent(w3, w2);
            assert(cur_nonce(w3, identity, t) == cur_nonce(w, identity, t));
            assert(cur_nonce(w2, identity, t) == cur_nonce(w3, identity, t));
        }
        CiOp::Invalidate { identity: id1, t: t1 } => {
            assert forall|tt: u32| #[trigger] topic_keys_seq(w2, tt) == topic_keys_seq(w, tt) by {}
            assert forall|k: SigningKey| #[trigger] key_pairs_seq(w2, k) == key_pairs_seq(w, k) by {}
        }
        CiOp::Revoke { identity: id1, t: t1, data, revoked } => {
            assert forall|tt: u32| #[trigger] topic_keys_seq(w2, tt) == topic_keys_seq(w, tt) by {}
            assert forall|k: SigningKey| #[trigger] key_pairs_seq(w2, k) == key_pairs_seq(w, k) by {}
        }
    }
}
/// the registry views and the invariant depend on the persistent store only
pub proof fn lemma_inv_by_persistent(w: World, w2: World)
    requires ci_inv(w), w.persistent == w2.persistent,
    ensures ci_inv(w2),
{
    assert forall|tt: u32| #[trigger] topic_keys_seq(w2, tt) == topic_keys_seq(w, tt) by {}
    assert forall|k: SigningKey| #[trigger] key_pairs_seq(w2, k) == key_pairs_seq(w, k) by {}
}

pub proof fn lemma_history(tr: Seq<World>, ops: Seq<CiOp>, identity: Address, t: u32)
    requires ci_history(tr, ops), ci_inv(tr[0]),
    ensures
        //@@ C20:history.registry_indexes_stay_consistent
        forall|i: int| 0 <= i < tr.len() ==> ci_inv(#[trigger] tr[i]),
        //@@ C15:history.nonce_never_decreases
        forall|i: int, j: int| 0 <= i <= j < tr.len() ==> cur_nonce(#[trigger] tr[i], identity, t) <= cur_nonce(#[trigger] tr[j], identity, t),
    decreases ops.len()
{
    if ops.len() > 0 {
        let n = ops.len() as int;
        let tr1 = tr.drop_last();
        let ops1 = ops.drop_last();
        assert(ci_history(tr1, ops1)) by {
            assert forall|i: int| 0 <= i < ops1.len() implies #[trigger] ci_step(tr1[i], ops1[i], tr1[i + 1]) by {
                assert(ci_step(tr[i], ops[i], tr[i + 1]));
            }
        }
        lemma_history(tr1, ops1, identity, t);
        assert(ci_inv(tr1[n - 1]));
        assert(ci_step(tr[n - 1], ops[n - 1], tr[n]));
        lemma_step_keeps_inv_and_nonces(tr[n - 1], ops[n - 1], tr[n], identity, t);
        assert forall|i: int| 0 <= i < tr.len() implies ci_inv(#[trigger] tr[i]) by {
            if i < n { assert(tr1[i] == tr[i]); }
        }
        assert forall|i: int, j: int| 0 <= i <= j < tr.len() implies cur_nonce(#[trigger] tr[i], identity, t) <= cur_nonce(#[trigger] tr[j], identity, t) by {
            if j < n { assert(tr1[i] == tr[i] && tr1[j] == tr[j]); }
            else if i < n { assert(tr1[i] == tr[i] && tr1[n - 1] == tr[n - 1]); assert(cur_nonce(tr1[i], identity, t) <= cur_nonce(tr1[n - 1], identity, t)); }
        }
    }
}
