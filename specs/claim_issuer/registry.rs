// ================================================================================================
// C20 (and the "key currently allowed for the topic" half of C15): the issuer's key registry as a relation.
//   Topics(t)  : list of signing keys allowed for topic t
//   Pairs(key) : list of (topic, registry) pairs the key is allowed for
// Invariant: key ∈ Topics(t)  ⇔  some pair (t, _) ∈ Pairs(key); no key is listed twice for a topic.
// ================================================================================================

/// reading back an encoded list gives the list
pub proof fn lemma_read_sv_seq<T: ToSV>(s: Seq<T>)
    ensures Vec::<T>::unsv(sv_seq(s))@ =~= s,
{
    assert forall|i: int| 0 <= i < s.len() implies #[trigger] Vec::<T>::unsv(sv_seq(s))@[i] == s[i] by { s[i].lemma_rt(); }
}

pub open spec fn ci_inv(w: World) -> bool {
    &&& forall|t: u32, k: SigningKey| #[trigger] topic_keys_seq(w, t).contains(k) <==> pairs_have_topic(key_pairs_seq(w, k), t)
    &&& forall|t: u32| (#[trigger] topic_keys_seq(w, t)).no_duplicates()
}

/// the registry view after allow_key's storage step
pub proof fn lemma_ak_effect(w: World, pk: Bytes, registry: Address, scheme: u32, t: u32)
    ensures ({
        let w2 = ak_store(w, pk, registry, scheme, t);
        let key = ci_key(pk, scheme);
        &&& topic_keys_seq(w2, t) =~= (if topic_keys_seq(w, t).contains(key) { topic_keys_seq(w, t) } else { topic_keys_seq(w, t).push(key) })
        &&& key_pairs_seq(w2, key) =~= key_pairs_seq(w, key).push((t, registry))
        &&& forall|t2: u32| t2 != t ==> #[trigger] topic_keys_seq(w2, t2) == topic_keys_seq(w, t2)
        &&& forall|k2: SigningKey| k2 != key ==> #[trigger] key_pairs_seq(w2, k2) == key_pairs_seq(w, k2)
    }),
{
    broadcast use sdk_store;
    let key = ci_key(pk, scheme);
    let ks = topic_keys_seq(w, t);
    lemma_key_in_contains(ks, key);
    let w1 = ak_topics(w, key, t);
    lemma_read_sv_seq(ks.push(key));
    lemma_read_sv_seq(key_pairs_seq(w1, key).push((t, registry)));
    assert(key_pairs_seq(w1, key) == key_pairs_seq(w, key));
    let w2 = ak_store(w, pk, registry, scheme, t);
    assert forall|t2: u32| t2 != t implies #[trigger] topic_keys_seq(w2, t2) == topic_keys_seq(w, t2) by {
        assert(ClaimIssuerStorageKey::Topics(t2) != ClaimIssuerStorageKey::Topics(t));
    }
    assert forall|k2: SigningKey| k2 != key implies #[trigger] key_pairs_seq(w2, k2) == key_pairs_seq(w, k2) by {
        assert(ClaimIssuerStorageKey::Pairs(k2) != ClaimIssuerStorageKey::Pairs(key));
    }
}
/// `key_in` (views compared) and `contains` (structural equality) agree
pub proof fn lemma_key_in_contains(ks: Seq<SigningKey>, key: SigningKey)
    ensures key_in(ks, key.public_key@, key.scheme) == ks.contains(key),
{
    if key_in(ks, key.public_key@, key.scheme) {
        let j = choose|j: int| 0 <= j < ks.len() && (#[trigger] ks[j]).public_key@ == key.public_key@ && ks[j].scheme == key.scheme;
        assert(ks[j].public_key@ =~= key.public_key@);
        assert(ks[j] == key);
    }
    if ks.contains(key) {
        let j = choose|j: int| 0 <= j < ks.len() && ks[j] == key;
        assert(ks[j].public_key@ == key.public_key@);
    }
}

/// C15+C20: after allow_key the key is allowed for the topic, and the pair is recorded
pub proof fn lemma_ak_key_allowed(w: World, pk: Bytes, registry: Address, scheme: u32, t: u32)
    ensures
        //@@ C15+C20:allow_key.lemma.key_allowed_for_topic
        key_in(topic_keys_seq(ak_store(w, pk, registry, scheme, t), t), pk@, scheme),
        //@@ C20:allow_key.lemma.pair_recorded
        key_pairs_seq(ak_store(w, pk, registry, scheme, t), ci_key(pk, scheme)).contains((t, registry)),
{
    let key = ci_key(pk, scheme);
    let w2 = ak_store(w, pk, registry, scheme, t);
    lemma_ak_effect(w, pk, registry, scheme, t);
    let ks = topic_keys_seq(w, t);
    if !ks.contains(key) { assert(ks.push(key)[ks.len() as int] == key); }
    assert(topic_keys_seq(w2, t).contains(key));
    lemma_key_in_contains(topic_keys_seq(w2, t), key);
    let p = key_pairs_seq(w, key);
    assert(p.push((t, registry))[p.len() as int] == (t, registry));
}

/// C20: allow_key keeps the two indexes consistent
pub proof fn lemma_ak_preserves_inv(w: World, pk: Bytes, registry: Address, scheme: u32, t: u32)
    requires ci_inv(w),
    ensures
        //@@ C20:allow_key.lemma.keeps_topics_and_pairs_consistent
        ci_inv(ak_store(w, pk, registry, scheme, t)),
{
    let key = ci_key(pk, scheme);
    let w2 = ak_store(w, pk, registry, scheme, t);
    lemma_ak_effect(w, pk, registry, scheme, t);
    let ks = topic_keys_seq(w, t);
    let p = key_pairs_seq(w, key);
    let p2 = p.push((t, registry));
    assert(p2[p.len() as int] == (t, registry));
    assert forall|t2: u32, k2: SigningKey| #[trigger] topic_keys_seq(w2, t2).contains(k2) <==> pairs_have_topic(key_pairs_seq(w2, k2), t2) by {
        assert(topic_keys_seq(w, t2).contains(k2) <==> pairs_have_topic(key_pairs_seq(w, k2), t2));
        if k2 == key {
            // pairs grew by (t, registry)
            if pairs_have_topic(p, t2) {
                let j = choose|j: int| 0 <= j < p.len() && (#[trigger] p[j]).0 == t2;
                assert(p2[j].0 == t2);
            }
            if pairs_have_topic(p2, t2) && t2 != t {
                let j = choose|j: int| 0 <= j < p2.len() && (#[trigger] p2[j]).0 == t2;
                assert(j < p.len());
                assert(p[j].0 == t2);
            }
            if t2 == t {
                assert(pairs_have_topic(p2, t));
                if !ks.contains(key) { assert(ks.push(key)[ks.len() as int] == key); }
            }
        } else if t2 == t {
            if !ks.contains(key) {
                let ks2 = ks.push(key);
                if ks.contains(k2) { let j = choose|j: int| 0 <= j < ks.len() && ks[j] == k2; assert(ks2[j] == k2); }
                if ks2.contains(k2) { let j = choose|j: int| 0 <= j < ks2.len() && ks2[j] == k2; assert(j < ks.len()); assert(ks[j] == k2); }
            }
        }
    }
    assert forall|t2: u32| (#[trigger] topic_keys_seq(w2, t2)).no_duplicates() by {
        assert(topic_keys_seq(w, t2).no_duplicates());
        if t2 == t && !ks.contains(key) {
            let ks2 = ks.push(key);
            assert forall|i: int, j: int| 0 <= i < ks2.len() && 0 <= j < ks2.len() && i != j implies ks2[i] != ks2[j] by {
                if i < ks.len() && j < ks.len() { }
                else if i < ks.len() { assert(ks.contains(ks[i])); }
                else { assert(ks.contains(ks[j])); }
            }
        }
    }
}

// ---- remove_key ----
pub proof fn lemma_seq_index_of<T>(s: Seq<T>, x: T)
    ensures
        s.contains(x) ==> 0 <= seq_index_of(s, x) < s.len() && s[seq_index_of(s, x)] == x,
        !s.contains(x) ==> seq_index_of(s, x) == -1,
    decreases s.len()
{
    if s.len() == 0 {
    } else if s[0] == x {
    } else {
        lemma_seq_index_of(s.drop_first(), x);
        let d = s.drop_first();
        if s.contains(x) {
            let j = choose|j: int| 0 <= j < s.len() && s[j] == x;
            assert(d[j - 1] == x);
            assert(d.contains(x));
        }
        if d.contains(x) {
            let j = choose|j: int| 0 <= j < d.len() && d[j] == x;
            assert(s[j + 1] == x);
        }
    }
}
/// elements of `s.remove(i)`: everything of s except position i
pub proof fn lemma_remove_contains<T>(s: Seq<T>, i: int, y: T)
    requires 0 <= i < s.len(),
    ensures
        s.remove(i).contains(y) ==> s.contains(y),
        s.contains(y) && y != s[i] ==> s.remove(i).contains(y),
        s.no_duplicates() ==> !s.remove(i).contains(s[i]) && s.remove(i).no_duplicates(),
{
    let r = s.remove(i);
    if r.contains(y) {
        let j = choose|j: int| 0 <= j < r.len() && r[j] == y;
        if j < i { assert(s[j] == y); } else { assert(s[j + 1] == y); }
    }
    if s.contains(y) && y != s[i] {
        let j = choose|j: int| 0 <= j < s.len() && s[j] == y;
        if j < i { assert(r[j] == y); } else { assert(r[j - 1] == y); }
    }
    if s.no_duplicates() {
        if r.contains(s[i]) {
            let j = choose|j: int| 0 <= j < r.len() && r[j] == s[i];
            if j < i { assert(s[j] == s[i]); } else { assert(s[j + 1] == s[i]); }
        }
        assert forall|a: int, b: int| 0 <= a < r.len() && 0 <= b < r.len() && a != b implies r[a] != r[b] by {
            let a2 = if a < i { a } else { a + 1 };
            let b2 = if b < i { b } else { b + 1 };
            assert(r[a] == s[a2] && r[b] == s[b2]);
        }
    }
}

/// the registry view after remove_key
pub proof fn lemma_rk_effect(w: World, pk: Bytes, registry: Address, scheme: u32, t: u32)
    requires rk_guard(w, pk, registry, scheme, t),
    ensures ({
        let w2 = rk_post(w, pk, registry, scheme, t);
        let key = ci_key(pk, scheme);
        let p2 = rk_pairs_after(w, key, registry, t);
        let ks = topic_keys_seq(w, t);
        &&& key_pairs_seq(w2, key) =~= p2
        &&& topic_keys_seq(w2, t) =~= (if pairs_have_topic(p2, t) { ks } else { ks.remove(seq_index_of(ks, key)) })
        &&& forall|t2: u32| t2 != t ==> #[trigger] topic_keys_seq(w2, t2) == topic_keys_seq(w, t2)
        &&& forall|k2: SigningKey| k2 != key ==> #[trigger] key_pairs_seq(w2, k2) == key_pairs_seq(w, k2)
    }),
{
    broadcast use sdk_store;
    let key = ci_key(pk, scheme);
    let p2 = rk_pairs_after(w, key, registry, t);
    let ks = topic_keys_seq(w, t);
    let w1 = rk_pairs(w, key, registry, t);
    lemma_read_sv_seq(p2);
    assert(topic_keys_seq(w1, t) == ks);
    let ks2 = ks.remove(seq_index_of(ks, key));
    lemma_read_sv_seq(ks2);
    let w2 = rk_post(w, pk, registry, scheme, t);
    assert forall|t2: u32| t2 != t implies #[trigger] topic_keys_seq(w2, t2) == topic_keys_seq(w, t2) by {
        assert(ClaimIssuerStorageKey::Topics(t2) != ClaimIssuerStorageKey::Topics(t));
    }
    assert forall|k2: SigningKey| k2 != key implies #[trigger] key_pairs_seq(w2, k2) == key_pairs_seq(w, k2) by {
        assert(ClaimIssuerStorageKey::Pairs(k2) != ClaimIssuerStorageKey::Pairs(key));
    }
}

/// C15+C20: once the last (topic, _) pair of a key is removed the key no longer counts for the topic; while another
/// registry still pairs the key with the topic it keeps counting
pub proof fn lemma_rk_key_allowed_iff_pairs_remain(w: World, pk: Bytes, registry: Address, scheme: u32, t: u32)
    requires ci_inv(w), rk_guard(w, pk, registry, scheme, t),
    ensures
        //@@ C15+C20:remove_key.lemma.key_allowed_iff_a_pair_remains
        key_in(topic_keys_seq(rk_post(w, pk, registry, scheme, t), t), pk@, scheme)
            <==> pairs_have_topic(rk_pairs_after(w, ci_key(pk, scheme), registry, t), t),
{
    let key = ci_key(pk, scheme);
    let w2 = rk_post(w, pk, registry, scheme, t);
    let p = key_pairs_seq(w, key);
    let p2 = rk_pairs_after(w, key, registry, t);
    let ks = topic_keys_seq(w, t);
    lemma_rk_effect(w, pk, registry, scheme, t);
    lemma_key_in_contains(topic_keys_seq(w2, t), key);
    lemma_seq_index_of(p, (t, registry));
    assert(p[seq_index_of(p, (t, registry))].0 == t);
    assert(pairs_have_topic(p, t));
    assert(ks.contains(key));
    assert(ks.no_duplicates());
    lemma_seq_index_of(ks, key);
    if !pairs_have_topic(p2, t) {
        lemma_remove_contains(ks, seq_index_of(ks, key), key);
    }
}

/// C20: remove_key keeps the two indexes consistent
pub proof fn lemma_rk_preserves_inv(w: World, pk: Bytes, registry: Address, scheme: u32, t: u32)
    requires ci_inv(w), rk_guard(w, pk, registry, scheme, t),
    ensures
        //@@ C20:remove_key.lemma.keeps_topics_and_pairs_consistent
        ci_inv(rk_post(w, pk, registry, scheme, t)),
{
    let key = ci_key(pk, scheme);
    let w2 = rk_post(w, pk, registry, scheme, t);
    let p = key_pairs_seq(w, key);
    let idx = seq_index_of(p, (t, registry));
    let p2 = rk_pairs_after(w, key, registry, t);
    let ks = topic_keys_seq(w, t);
    lemma_rk_effect(w, pk, registry, scheme, t);
    lemma_seq_index_of(p, (t, registry));
    assert(p[idx].0 == t);
    assert(pairs_have_topic(p, t));
    assert(ks.contains(key));
    assert(ks.no_duplicates());
    lemma_seq_index_of(ks, key);
    let kidx = seq_index_of(ks, key);
    assert forall|t2: u32, k2: SigningKey| #[trigger] topic_keys_seq(w2, t2).contains(k2) <==> pairs_have_topic(key_pairs_seq(w2, k2), t2) by {
        assert(topic_keys_seq(w, t2).contains(k2) <==> pairs_have_topic(key_pairs_seq(w, k2), t2));
        if k2 == key {
            // pairs lost position idx, which carried topic t
            if pairs_have_topic(p2, t2) {
                let j = choose|j: int| 0 <= j < p2.len() && (#[trigger] p2[j]).0 == t2;
                if j < idx { assert(p[j].0 == t2); } else { assert(p[j + 1].0 == t2); }
            }
            if pairs_have_topic(p, t2) && t2 != t {
                let j = choose|j: int| 0 <= j < p.len() && (#[trigger] p[j]).0 == t2;
                assert(j != idx);
                if j < idx { assert(p2[j].0 == t2); } else { assert(p2[j - 1].0 == t2); }
            }
            if t2 == t && !pairs_have_topic(p2, t) {
                lemma_remove_contains(ks, kidx, key);
            }
        } else if t2 == t {
            if !pairs_have_topic(p2, t) {
                lemma_remove_contains(ks, kidx, k2);
            }
        }
    }
    assert forall|t2: u32| (#[trigger] topic_keys_seq(w2, t2)).no_duplicates() by {
        assert(topic_keys_seq(w, t2).no_duplicates());
        if t2 == t && !pairs_have_topic(p2, t) {
            lemma_remove_contains(ks, kidx, key);
        }
    }
}

/// the invariant is satisfiable: an issuer with an empty store satisfies it
pub proof fn lemma_ci_inv_witness(w: World)
    requires w.persistent == Map::<SV, SV>::empty(),
    ensures ci_inv(w),
{
    assert forall|t: u32, k: SigningKey| #[trigger] topic_keys_seq(w, t).contains(k) <==> pairs_have_topic(key_pairs_seq(w, k), t) by {
        assert(topic_keys_seq(w, t) =~= Seq::<SigningKey>::empty());
        assert(key_pairs_seq(w, k) =~= Seq::<(u32, Address)>::empty());
    }
}
