// ---- strict flavour: a panic is a proof obligation (`sdk_panic_strict requires false`), so the plain variants are
// ---- verified NOT to panic on the property's domain: d != 0 and the exact rounded quotient fits.
#[verifier::external_body]
pub fn sdk_panic_strict(code: u32) -> !
    requires false
{ panic!() }
macro_rules! panic_with_error {
    ($e:expr, $err:expr) => { sdk_panic_strict($err as u32) };
}

/// domain of the plain (panicking) mul-div variants: "d is non-zero and the exact rounded quotient fits"
pub trait MdSpec: Sized {
    spec fn md_pre(&self, y: &Self, d: &Self, rounding: Rounding) -> bool;
}
impl MdSpec for i128 {
    open spec fn md_pre(&self, y: &i128, d: &i128, rounding: Rounding) -> bool {
        *d != 0 && exists|q: int| #[trigger] is_rounded(rounding, *self * *y, *d as int, q) && fits_i128(q)
    }
}
