// ================================================================================================
// C03, CONVERSE direction ("the check succeeds unless ..."): every way in which `do_check_auth` and its callees can
// refuse is a proof obligation.  The unit `smartacct` proves "returns only if"; here a revert raised by the contract
// itself must be JUSTIFIED over the ghost world at the revert site (the cross-contract call log `calls` records every
// external answer, the stores hold the registry):
//   * `UnvalidatedContext`           -> sdk_revert_unvalidated   requires: EVERY candidate rule of the requested
//                                       context was refused (unvalidated_justified)
//   * `ExternalVerificationFailed`   -> sdk_revert_verification  requires: the verifier of a supplied (signer,
//                                       signature) pair has just answered `false` (verification_refused)
//   * any other contract error (ContextRuleNotFound on a listed id, ...), any diverging closure
//                                    -> sdk_panic_strict / closure  requires false  (proved unreachable)
// What stays outside (partial correctness, as everywhere): a host function or an external contract that does not
// return (`require_auth_for_args` refused by the host; a verifier / policy that traps; `enforce` refusing).
// ================================================================================================
#[verifier::external_body]
pub fn sdk_panic_strict(code: u32) -> !
    requires false
{ panic!() }

/// revert site `SmartAccountError::UnvalidatedContext`: `w0` is the world at entry of the enclosing function
#[verifier::external_body]
pub fn sdk_revert_unvalidated(e: &Env, w0: Ghost<World>, context: &Context, all_signers: &Vec<Signer>) -> !
    requires unvalidated_justified(w0@, e@, *context, all_signers@)
{ panic!() }

/// revert site `SmartAccountError::ExternalVerificationFailed`
#[verifier::external_body]
pub fn sdk_revert_verification(e: &Env, w0: Ghost<World>, signature_payload: &Hash<32>, signers: &SdkMap<Signer, Bytes>) -> !
    requires verification_refused(w0@, e@, signature_payload@, signers@)
{ panic!() }

macro_rules! panic_with_error {
    ($e:expr, SmartAccountError::UnvalidatedContext, $ctx:expr, $all:expr) => { verus_exec_expr!{ sdk_revert_unvalidated(&*$e, Ghost(old($e)@), $ctx, $all) } };
    ($e:expr, SmartAccountError::ExternalVerificationFailed, $payload:expr, $signers:expr) => { verus_exec_expr!{ sdk_revert_verification(&*$e, Ghost(old($e)@), $payload, $signers) } };
    ($e:expr, $err:expr $(, $rest:expr)*) => { sdk_panic_strict($err as u32) };
}

// ---- the registry hypothesis of the claim: a listed id names a stored rule (part of the representation invariant
// ---- `inv_ids` that unit `smartacct` proves to hold after any history of registry edits, C03+C20:lemma.history.*)
pub open spec fn registry_listed_ids_exist(w: World) -> bool {
    forall|t: ContextRuleType| ids_exist(w, #[trigger] sa_ids(w, t))
}

// ---- (b) "for some requested context NO candidate rule is satisfied by the supplied signers" ----
/// id names a candidate rule for the context: listed under the context's own type or under Default, and not expired
pub open spec fn candidate_id(w: World, ctx: Context, id: u32) -> bool {
    (sa_ids(w, ctx_rule_type(ctx)).contains(id) || sa_ids(w, ContextRuleType::Default).contains(id))
        && rule_live(w, sa_rule(w, id))
}
/// every signer the rule names was supplied (signers the rule does not name are irrelevant)
pub open spec fn all_rule_signers_supplied(rule: ContextRule, all: Seq<Signer>) -> bool {
    forall|i: int| 0 <= i < rule.signers@.len() ==> all.contains(#[trigger] rule.signers@[i])
}
/// the log segment holds a `can_enforce` question to one of the rule's policies - about this context, this rule and
/// exactly the supplied signers the rule names - that was answered `false`
pub open spec fn refusal_logged(seg: Seq<Call>, this: Address, ctx: Context, all: Seq<Signer>, rule: ContextRule) -> bool {
    exists|i: int, p: int| 0 <= i < seg.len() && 0 <= p < rule.policies@.len()
        && #[trigger] seg[i] == ce_call(this, #[trigger] rule.policies@[p], ctx, filter_in(rule.signers@, all), rule, false)
}
/// the rule's requirement is NOT met: without policies, one of its signers was not supplied; with policies, one of them refused
pub open spec fn rule_unsatisfied(seg: Seq<Call>, this: Address, ctx: Context, all: Seq<Signer>, rule: ContextRule) -> bool {
    if rule.policies@.len() == 0 { !all_rule_signers_supplied(rule, all) } else { refusal_logged(seg, this, ctx, all, rule) }
}
/// justification of `UnvalidatedContext`: since entry (w0) every candidate rule of the context was found unsatisfied
pub open spec fn unvalidated_justified(w0: World, w: World, ctx: Context, all: Seq<Signer>) -> bool {
    forall|id: u32| #[trigger] candidate_id(w0, ctx, id) ==> rule_unsatisfied(new_calls(w0, w), w0.this, ctx, all, sa_rule(w0, id))
}

// ---- (a) "some supplied signature did not verify" ----
pub open spec fn verify_refusal(payload: Seq<u8>, verifier: Address, key: Bytes, sig: Bytes) -> Call {
    Call { callee: verifier, func: fn_verify(), args: seq![SV::Bytes(payload), key.sv(), sig.sv()], ret: SV::Bool(false), ok: true }
}
/// justification of `ExternalVerificationFailed`: the last external answer, given since entry (w0), is the `false` of the
/// verifier of one of the supplied (signer, signature) pairs, asked about the payload, the signer's key and that signature
pub open spec fn verification_refused(w0: World, w: World, payload: Seq<u8>, entries: Seq<(Signer, Bytes)>) -> bool {
    exists|i: int| 0 <= i < entries.len() && w.calls.len() > w0.calls.len() && match (#[trigger] entries[i]).0 {
        Signer::External(v, k) => w.calls.last() == verify_refusal(payload, v, k, entries[i].1),
        Signer::Delegated(a) => false,
    }
}

// ---- lemmas: from "the loop rejected candidates [0..n)" (rejected_log, the invariant of unit smartacct) to the justification ----
pub proof fn lemma_filter_all(s: Seq<Signer>, all: Seq<Signer>)
    ensures
        filter_in(s, all).len() <= s.len(),
        //@@ C03:lemma.strict.filter_keeps_everything_iff_all_supplied
        (filter_in(s, all).len() == s.len()) <==> (forall|i: int| 0 <= i < s.len() ==> all.contains(#[trigger] s[i])),
    decreases s.len()
{
    if s.len() > 0 {
        lemma_filter_all(s.drop_last(), all);
        let d = s.drop_last();
        if filter_in(s, all).len() == s.len() {
            assert forall|i: int| 0 <= i < s.len() implies all.contains(#[trigger] s[i]) by {
                if i < s.len() - 1 { assert(d[i] == s[i]); }
            }
        }
        if forall|i: int| 0 <= i < s.len() ==> all.contains(#[trigger] s[i]) {
            assert forall|i: int| 0 <= i < d.len() implies all.contains(#[trigger] d[i]) by { assert(d[i] == s[i]); }
            assert(all.contains(s.last()));
        }
    }
}
pub proof fn lemma_unsatisfied_mono(seg: Seq<Call>, m: int, this: Address, ctx: Context, all: Seq<Signer>, rule: ContextRule)
    requires 0 <= m <= seg.len(), rule_unsatisfied(seg.take(m), this, ctx, all, rule),
    ensures rule_unsatisfied(seg, this, ctx, all, rule),
{
    if rule.policies@.len() > 0 {
        let (i, p) = choose|i: int, p: int| 0 <= i < seg.take(m).len() && 0 <= p < rule.policies@.len()
            && #[trigger] seg.take(m)[i] == ce_call(this, #[trigger] rule.policies@[p], ctx, filter_in(rule.signers@, all), rule, false);
        assert(seg[i] == ce_call(this, rule.policies@[p], ctx, filter_in(rule.signers@, all), rule, false));
    }
}
pub proof fn lemma_rejected_all(seg: Seq<Call>, this: Address, ctx: Context, all: Seq<Signer>, cands: Seq<ContextRule>, j: int)
    requires 0 <= j <= cands.len(), rejected_log(seg, this, ctx, all, cands, j),
    ensures
        //@@ C03:lemma.strict.rejected_means_unsatisfied
        forall|k: int| 0 <= k < j ==> rule_unsatisfied(seg, this, ctx, all, #[trigger] cands[k]),
    decreases j
{
    if j > 0 {
        let rule = cands[j - 1];
        let a = filter_in(rule.signers@, all);
        if rule.policies@.len() == 0 {
            lemma_rejected_all(seg, this, ctx, all, cands, j - 1);
            lemma_filter_all(rule.signers@, all);
        } else {
            let m = choose|m: int| 0 <= m < seg.len() && rejected_log(#[trigger] seg.take(m), this, ctx, all, cands, j - 1)
                && ce_seg(seg.skip(m), this, ctx, a, rule, seg.len() - m, false);
            lemma_rejected_all(seg.take(m), this, ctx, all, cands, j - 1);
            assert forall|k: int| 0 <= k < j - 1 implies rule_unsatisfied(seg, this, ctx, all, #[trigger] cands[k]) by {
                lemma_unsatisfied_mono(seg, m, this, ctx, all, cands[k]);
            }
            let n = seg.len() - m;
            assert(seg.skip(m)[n - 1] == ce_call(this, rule.policies@[n - 1], ctx, a, rule, false));
            assert(seg[seg.len() - 1] == seg.skip(m)[n - 1]);
            assert(refusal_logged(seg, this, ctx, all, rule));
        }
    }
}
pub proof fn lemma_live_listed(w: World, ids: Seq<u32>, id: u32)
    requires ids.contains(id), rule_live(w, sa_rule(w, id)),
    ensures live_rules_rev(w, ids).contains(sa_rule(w, id)),
    decreases ids.len()
{
    let rest = live_rules_rev(w, ids.drop_last());
    if ids.last() == id {
        assert((seq![sa_rule(w, id)] + rest)[0] == sa_rule(w, id));
    } else {
        let i = choose|i: int| 0 <= i < ids.len() && ids[i] == id;
        assert(ids.drop_last()[i] == id);
        lemma_live_listed(w, ids.drop_last(), id);
        let k = choose|k: int| 0 <= k < rest.len() && rest[k] == sa_rule(w, id);
        if rule_live(w, sa_rule(w, ids.last())) {
            assert((seq![sa_rule(w, ids.last())] + rest)[k + 1] == sa_rule(w, id));
        }
    }
}
/// all candidates tried and rejected  ==>  the revert is justified in the property's own terms
pub proof fn lemma_unvalidated_justified(w0: World, w: World, ctx: Context, all: Seq<Signer>)
    requires
        rejected_log(new_calls(w0, w), w0.this, ctx, all, candidates(w0, ctx_rule_type(ctx)), candidates(w0, ctx_rule_type(ctx)).len() as int),
    ensures
        //@@ C03:lemma.strict.all_candidates_rejected_justifies_refusal
        unvalidated_justified(w0, w, ctx, all),
{
    let t = ctx_rule_type(ctx);
    let cands = candidates(w0, t);
    let seg = new_calls(w0, w);
    lemma_rejected_all(seg, w0.this, ctx, all, cands, cands.len() as int);
    assert forall|id: u32| #[trigger] candidate_id(w0, ctx, id) implies rule_unsatisfied(seg, w0.this, ctx, all, sa_rule(w0, id)) by {
        let a = live_rules_rev(w0, sa_ids(w0, t));
        let b = live_rules_rev(w0, sa_ids(w0, ContextRuleType::Default));
        if sa_ids(w0, t).contains(id) {
            lemma_live_listed(w0, sa_ids(w0, t), id);
            let k = choose|k: int| 0 <= k < a.len() && a[k] == sa_rule(w0, id);
            assert(cands[k] == sa_rule(w0, id));
        } else {
            lemma_live_listed(w0, sa_ids(w0, ContextRuleType::Default), id);
            let k = choose|k: int| 0 <= k < b.len() && b[k] == sa_rule(w0, id);
            assert(cands[a.len() + k] == sa_rule(w0, id));
        }
    }
}
