// ---- world transformers shared with the other packs (identical text in specs/fungible/fungible.rs; a unit
//      that includes fungible.rs lists that file instead of this one) ----
pub open spec fn opt_addr(o: Option<&Address>) -> Option<Address> {
    match o { Some(a) => Some(*a), None => None }
}
