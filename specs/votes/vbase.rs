// ---- world transformers shared with the other packs (identical text in specs/fungible/fungible.rs; a unit
//      that includes fungible.rs lists that file instead of this one) ----
pub open spec fn w_auth(w: World, a: Address) -> World { World { auths: w.auths.insert(a), ..w } }
pub open spec fn w_event(w: World, ev: SV) -> World { World { events: w.events.push(ev), ..w } }
pub open spec fn opt_addr(o: Option<&Address>) -> Option<Address> {
    match o { Some(a) => Some(*a), None => None }
}
