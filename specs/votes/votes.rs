// =================================================================================================
// spec pack `votes` (C13) — abstract view, exact successor states of every function of
// packages/governance/src/votes/storage.rs, the checkpoint-lookup specification.
// Everything here is ghost; the executable text comes from /repo.
// =================================================================================================

// ---- abstract view ----
pub open spec fn v_units(w: World, a: Address) -> u128 {
    match dec::<u128>(pget(w, VotesStorageKey::VotingUnits(a))) { Some(u) => u, None => 0 }
}
pub open spec fn v_delegatee(w: World, a: Address) -> Option<Address> {
    dec::<Address>(pget(w, VotesStorageKey::Delegatee(a)))
}
pub open spec fn v_delegatee_opt(w: World, a: Option<Address>) -> Option<Address> {
    match a { Some(x) => v_delegatee(w, x), None => None }
}
pub open spec fn cp_key(t: CheckpointType, i: u32) -> VotesStorageKey {
    match t {
        CheckpointType::TotalSupply => VotesStorageKey::TotalSupplyCheckpoint(i),
        CheckpointType::Account(a) => VotesStorageKey::DelegateCheckpoint(a, i),
    }
}
/// the i-th checkpoint of timeline `t` (None if not stored)
pub open spec fn cp_at(w: World, t: CheckpointType, i: u32) -> Option<Checkpoint> {
    dec::<Checkpoint>(pget(w, cp_key(t, i)))
}
pub open spec fn cp_led(w: World, t: CheckpointType, i: u32) -> u32 { cp_at(w, t, i)->Some_0.ledger }
pub open spec fn cp_val(w: World, t: CheckpointType, i: u32) -> u128 { cp_at(w, t, i)->Some_0.votes }
/// the stored length of timeline `t` (total supply: instance store; accounts: persistent store)
pub open spec fn cp_num(w: World, t: CheckpointType) -> u32 {
    match t {
        CheckpointType::TotalSupply =>
            match dec::<u32>(iget(w, VotesStorageKey::NumTotalSupplyCheckpoints)) { Some(n) => n, None => 0 },
        CheckpointType::Account(a) =>
            match dec::<u32>(pget(w, VotesStorageKey::NumCheckpoints(a))) { Some(n) => n, None => 0 },
    }
}
/// current value of a timeline = votes of its last checkpoint, 0 if it has none
pub open spec fn cp_latest(w: World, t: CheckpointType) -> u128 {
    if cp_num(w, t) == 0 { 0 } else { cp_val(w, t, (cp_num(w, t) - 1) as u32) }
}
pub open spec fn t_acct(a: Address) -> CheckpointType { CheckpointType::Account(a) }
pub open spec fn t_total() -> CheckpointType { CheckpointType::TotalSupply }

// ---- checkpoint lookup: "the votes of the LAST checkpoint whose ledger <= q, 0 if there is none" ----
/// index of the last checkpoint among the first `n` whose ledger is <= q (linear scan from the top;
/// this is the definition of "last", it does not presuppose any ordering)
pub open spec fn last_le(w: World, t: CheckpointType, n: u32, q: u32) -> Option<u32>
    decreases n
{
    if n == 0 { None }
    else if cp_led(w, t, (n - 1) as u32) <= q { Some((n - 1) as u32) }
    else { last_le(w, t, (n - 1) as u32, q) }
}
pub open spec fn value_at(w: World, t: CheckpointType, n: u32, q: u32) -> u128 {
    match last_le(w, t, n, q) { Some(i) => cp_val(w, t, i), None => 0 }
}
/// what a past lookup on timeline `t` must answer for ledger q
pub open spec fn past_value(w: World, t: CheckpointType, q: u32) -> u128 { value_at(w, t, cp_num(w, t), q) }

/// representation invariant of one timeline prefix: all `n` checkpoints are stored and their
/// ledgers are strictly increasing
pub open spec fn cps_ok(w: World, t: CheckpointType, n: u32) -> bool {
    &&& forall|i: u32| i < n ==> (#[trigger] cp_at(w, t, i)).is_some()
    &&& forall|i: u32, j: u32| i < j && j < n ==> #[trigger] cp_led(w, t, i) < #[trigger] cp_led(w, t, j)
}

pub proof fn lemma_last_le_none(w: World, t: CheckpointType, n: u32, q: u32)
    requires forall|j: u32| j < n ==> #[trigger] cp_led(w, t, j) > q,
    ensures last_le(w, t, n, q).is_none(),
    decreases n
{
    if n > 0 { lemma_last_le_none(w, t, (n - 1) as u32, q); }
}
pub proof fn lemma_last_le_some(w: World, t: CheckpointType, n: u32, q: u32, i: u32)
    requires i < n, cp_led(w, t, i) <= q, forall|j: u32| i < j && j < n ==> #[trigger] cp_led(w, t, j) > q,
    ensures last_le(w, t, n, q) == Some(i),
    decreases n
{
    if n - 1 != i {
        assert(cp_led(w, t, (n - 1) as u32) > q);
        lemma_last_le_some(w, t, (n - 1) as u32, q, i);
    }
}
/// the property's own words about the lookup result (independent characterisation of `last_le`)
pub proof fn lemma_last_le_char(w: World, t: CheckpointType, n: u32, q: u32)
    ensures
        //@@ C13:lemma.lookup_is_last_at_or_before
        match last_le(w, t, n, q) {
            Some(i) => i < n && cp_led(w, t, i) <= q && (forall|j: u32| i < j && j < n ==> #[trigger] cp_led(w, t, j) > q),
            None => forall|j: u32| j < n ==> #[trigger] cp_led(w, t, j) > q,
        },
    decreases n
{
    if n > 0 && cp_led(w, t, (n - 1) as u32) > q {
        lemma_last_le_char(w, t, (n - 1) as u32, q);
    }
}
/// under strictly increasing ledgers: the first checkpoint later than q makes every later one later
pub proof fn lemma_sorted_after(w: World, t: CheckpointType, n: u32, q: u32, m: u32)
    requires cps_ok(w, t, n), m < n, cp_led(w, t, m) > q,
    ensures forall|j: u32| m <= j && j < n ==> #[trigger] cp_led(w, t, j) > q,
{
    assert forall|j: u32| m <= j && j < n implies #[trigger] cp_led(w, t, j) > q by {
        if m < j { assert(cp_led(w, t, m) < cp_led(w, t, j)); }
    }
}

/// the same fact for every position at once (so that a proof does not depend on which position the code probes)
pub open spec fn sorted_after_all(w: World, t: CheckpointType, n: u32, q: u32) -> bool {
    forall|m: u32, j: u32| m <= j && j < n && (#[trigger] cp_at(w, t, m))->Some_0.ledger > q ==> #[trigger] cp_led(w, t, j) > q
}
pub proof fn lemma_sorted_after_all(w: World, t: CheckpointType, n: u32, q: u32)
    requires cps_ok(w, t, n),
    ensures sorted_after_all(w, t, n, q),
{
    assert forall|m: u32, j: u32| m <= j && j < n && (#[trigger] cp_at(w, t, m))->Some_0.ledger > q implies #[trigger] cp_led(w, t, j) > q by {
        lemma_sorted_after(w, t, n, q, m);
    }
}

// ---- exact successor states ----
pub open spec fn cp_apply(prev: u128, op: CheckpointOp, delta: u128) -> int {
    match op { CheckpointOp::Add => prev + delta, CheckpointOp::Sub => prev - delta }
}
/// the last checkpoint of `t` was written in the current ledger (so it is overwritten, not appended)
pub open spec fn push_same_ledger(w: World, t: CheckpointType) -> bool {
    cp_num(w, t) > 0 && cp_led(w, t, (cp_num(w, t) - 1) as u32) == w.ledger_seq
}
pub open spec fn push_guard(w: World, t: CheckpointType, op: CheckpointOp, delta: u128) -> bool {
    &&& cp_num(w, t) > 0 ==> cp_at(w, t, (cp_num(w, t) - 1) as u32).is_some()
    &&& 0 <= cp_apply(cp_latest(w, t), op, delta) <= u128::MAX
    &&& !push_same_ledger(w, t) ==> cp_num(w, t) < u32::MAX
}
pub open spec fn push_cp(w: World, t: CheckpointType, op: CheckpointOp, delta: u128) -> Checkpoint {
    Checkpoint { ledger: w.ledger_seq, votes: cp_apply(cp_latest(w, t), op, delta) as u128 }
}
pub open spec fn push_post(w: World, t: CheckpointType, op: CheckpointOp, delta: u128) -> World {
    let n = cp_num(w, t);
    let c = push_cp(w, t, op, delta);
    if push_same_ledger(w, t) {
        pset(w, cp_key(t, (n - 1) as u32), c.sv())
    } else {
        let w1 = pset(w, cp_key(t, n), c.sv());
        match t {
            CheckpointType::TotalSupply => iset(w1, VotesStorageKey::NumTotalSupplyCheckpoints, ((n + 1) as u32).sv()),
            CheckpointType::Account(a) => pset(w1, VotesStorageKey::NumCheckpoints(a), ((n + 1) as u32).sv()),
        }
    }
}
pub open spec fn set_units_post(w: World, a: Address, u: u128) -> World {
    if u == 0 { pdel(w, VotesStorageKey::VotingUnits(a)) } else { pset(w, VotesStorageKey::VotingUnits(a), u.sv()) }
}
/// one half of `move_delegate_votes`: the delegate's timeline and the DelegateVotesChanged event
pub open spec fn move1_post(w: World, d: Option<Address>, op: CheckpointOp, amt: u128) -> World {
    match d {
        Some(a) => w_event(push_post(w, t_acct(a), op, amt),
            DelegateVotesChanged { delegate: a, previous_votes: cp_latest(w, t_acct(a)),
                                   new_votes: cp_apply(cp_latest(w, t_acct(a)), op, amt) as u128 }.ev()),
        None => w,
    }
}
pub open spec fn move1_guard(w: World, d: Option<Address>, op: CheckpointOp, amt: u128) -> bool {
    match d { Some(a) => push_guard(w, t_acct(a), op, amt), None => true }
}
pub open spec fn move_post(w: World, fd: Option<Address>, td: Option<Address>, amt: u128) -> World {
    if amt == 0 || fd == td { w }
    else { move1_post(move1_post(w, fd, CheckpointOp::Sub, amt), td, CheckpointOp::Add, amt) }
}
pub open spec fn move_guard(w: World, fd: Option<Address>, td: Option<Address>, amt: u128) -> bool {
    amt == 0 || fd == td
    || (move1_guard(w, fd, CheckpointOp::Sub, amt) && move1_guard(move1_post(w, fd, CheckpointOp::Sub, amt), td, CheckpointOp::Add, amt))
}
/// `transfer_voting_units`, first half: debit `from` / mint into the total
pub open spec fn xfer_from_post(w: World, from_a: Option<Address>, amt: u128) -> World {
    match from_a {
        Some(f) => set_units_post(w, f, (v_units(w, f) - amt) as u128),
        None => push_post(w, t_total(), CheckpointOp::Add, amt),
    }
}
pub open spec fn xfer_from_guard(w: World, from_a: Option<Address>, amt: u128) -> bool {
    match from_a { Some(f) => v_units(w, f) >= amt, None => push_guard(w, t_total(), CheckpointOp::Add, amt) }
}
/// second half: credit `to` / burn from the total
pub open spec fn xfer_to_post(w: World, to_a: Option<Address>, amt: u128) -> World {
    match to_a {
        Some(t) => set_units_post(w, t, (v_units(w, t) + amt) as u128),
        None => push_post(w, t_total(), CheckpointOp::Sub, amt),
    }
}
pub open spec fn xfer_to_guard(w: World, to_a: Option<Address>, amt: u128) -> bool {
    match to_a { Some(t) => v_units(w, t) + amt <= u128::MAX, None => push_guard(w, t_total(), CheckpointOp::Sub, amt) }
}
pub open spec fn xfer_mid(w: World, from_a: Option<Address>, to_a: Option<Address>, amt: u128) -> World {
    xfer_to_post(xfer_from_post(w, from_a, amt), to_a, amt)
}
pub open spec fn xfer_post(w: World, from_a: Option<Address>, to_a: Option<Address>, amt: u128) -> World {
    if amt == 0 { w }
    else { move_post(xfer_mid(w, from_a, to_a, amt), v_delegatee_opt(w, from_a), v_delegatee_opt(w, to_a), amt) }
}
pub open spec fn xfer_guard(w: World, from_a: Option<Address>, to_a: Option<Address>, amt: u128) -> bool {
    amt == 0 || (
        xfer_from_guard(w, from_a, amt)
        && xfer_to_guard(xfer_from_post(w, from_a, amt), to_a, amt)
        && move_guard(xfer_mid(w, from_a, to_a, amt), v_delegatee_opt(w, from_a), v_delegatee_opt(w, to_a), amt))
}
/// `delegate`: authorization, new delegatee, DelegateChanged event, then the account's units move
pub open spec fn delegate_pre(w: World, acct: Address, d: Address) -> World {
    w_event(pset(w_auth(w, acct), VotesStorageKey::Delegatee(acct), d.sv()),
        DelegateChanged { delegator: acct, from_delegate: v_delegatee(w, acct), to_delegate: d }.ev())
}
pub open spec fn delegate_post(w: World, acct: Address, d: Address) -> World {
    move_post(delegate_pre(w, acct, d), v_delegatee(w, acct), Some(d), v_units(delegate_pre(w, acct, d), acct))
}
pub open spec fn delegate_guard(w: World, acct: Address, d: Address) -> bool {
    &&& v_delegatee(w, acct) != Some(d)
    &&& move_guard(delegate_pre(w, acct, d), v_delegatee(w, acct), Some(d), v_units(delegate_pre(w, acct, d), acct))
}
