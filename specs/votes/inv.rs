// =================================================================================================
// spec pack `votes` (C13), part 2 — the invariant inv_v and its preservation by every mutator
// =================================================================================================

// ---- raw persistent-map level: voting-unit and delegatee entries ----
pub open spec fn uk(a: Address) -> SV { VotesStorageKey::VotingUnits(a).sv() }
pub open spec fn dk(a: Address) -> SV { VotesStorageKey::Delegatee(a).sv() }
pub open spec fn sym_units() -> SV { uk(Address { id: 0 })->Vec_0[0] }
pub open spec fn sym_deleg() -> SV { dk(Address { id: 0 })->Vec_0[0] }
pub open spec fn is_units_key(k: SV) -> bool {
    (k is Vec) && k->Vec_0.len() == 2 && k->Vec_0[0] == sym_units() && (k->Vec_0[1] is Addr)
}
pub open spec fn is_deleg_key(k: SV) -> bool {
    (k is Vec) && k->Vec_0.len() == 2 && k->Vec_0[0] == sym_deleg() && (k->Vec_0[1] is Addr)
}
pub open spec fn key_addr(k: SV) -> Address { k->Vec_0[1]->Addr_0 }
pub open spec fn sv_u128(v: SV) -> int { <u128 as ToSV>::unsv(v) as int }
pub open spec fn m_units(m: Map<SV, SV>, a: Address) -> int { if m.contains_key(uk(a)) { sv_u128(m[uk(a)]) } else { 0 } }
pub open spec fn m_deleg(m: Map<SV, SV>, a: Address) -> Option<Address> {
    if m.contains_key(dk(a)) { Some(<Address as ToSV>::unsv(m[dk(a)])) } else { None }
}
/// every voting-units entry counts with its value
pub open spec fn units_proj() -> spec_fn(SV, SV) -> int {
    |k: SV, v: SV| if is_units_key(k) { sv_u128(v) } else { 0 }
}
/// a voting-units entry counts iff its account currently delegates to `d`
pub open spec fn deleg_proj(m: Map<SV, SV>, d: Address) -> spec_fn(SV, SV) -> int {
    |k: SV, v: SV| if is_units_key(k) && m_deleg(m, key_addr(k)) == Some(d) { sv_u128(v) } else { 0 }
}
/// Σ voting units over all accounts
pub open spec fn sum_units(w: World) -> int { psum(w.persistent, units_proj()) }
/// Σ voting units of the accounts currently delegating to `d`
pub open spec fn sum_deleg(w: World, d: Address) -> int { psum(w.persistent, deleg_proj(w.persistent, d)) }

pub proof fn lemma_key_facts(a: Address)
    ensures is_units_key(uk(a)), key_addr(uk(a)) == a, !is_deleg_key(uk(a)),
        is_deleg_key(dk(a)), key_addr(dk(a)) == a, !is_units_key(dk(a)),
{
    assert(uk(a)->Vec_0.len() == 2);
    assert(dk(a)->Vec_0.len() == 2);
}
pub proof fn lemma_units_key_shape(k: SV)
    requires is_units_key(k)
    ensures k == uk(key_addr(k)),
{
    assert(k->Vec_0 =~= uk(key_addr(k))->Vec_0);
}
/// the other four key families are neither voting-units nor delegatee entries
pub proof fn lemma_other_key(k: VotesStorageKey)
    requires !(k is VotingUnits), !(k is Delegatee),
    ensures !is_units_key(k.sv()), !is_deleg_key(k.sv()),
{
    match k {
        VotesStorageKey::NumCheckpoints(a) => { assert(k.sv()->Vec_0[0] != sym_units()); assert(k.sv()->Vec_0[0] != sym_deleg()); }
        VotesStorageKey::DelegateCheckpoint(a, i) => { assert(k.sv()->Vec_0.len() == 3); }
        VotesStorageKey::NumTotalSupplyCheckpoints => { assert(k.sv()->Vec_0.len() == 1); }
        VotesStorageKey::TotalSupplyCheckpoint(i) => { assert(k.sv()->Vec_0[0] != sym_units()); assert(k.sv()->Vec_0[0] != sym_deleg()); }
        _ => {}
    }
}

pub proof fn lemma_vpsum_ext(m: Map<SV, SV>, f: spec_fn(SV, SV) -> int, g: spec_fn(SV, SV) -> int)
    requires forall|j: SV| m.contains_key(j) ==> f(j, m[j]) == g(j, m[j]),
    ensures psum(m, f) == psum(m, g),
    decreases m.dom().len()
{
    if m.dom().len() != 0 {
        let c = m.dom().choose();
        assert(m.contains_key(c));
        lemma_vpsum_ext(m.remove(c), f, g);
    }
}
/// two projections that agree everywhere except on entry k
pub proof fn lemma_vpsum_diff1(m: Map<SV, SV>, f: spec_fn(SV, SV) -> int, g: spec_fn(SV, SV) -> int, k: SV)
    requires forall|j: SV| m.contains_key(j) && j != k ==> f(j, m[j]) == g(j, m[j]),
    ensures psum(m, f) - psum(m, g) == (if m.contains_key(k) { f(k, m[k]) - g(k, m[k]) } else { 0 }),
{
    if m.contains_key(k) {
        lemma_psum_remove(m, f, k);
        lemma_psum_remove(m, g, k);
        lemma_vpsum_ext(m.remove(k), f, g);
    } else {
        lemma_vpsum_ext(m, f, g);
    }
}

/// writing or removing an entry that is neither a voting-units nor a delegatee entry changes no sum
pub proof fn lemma_m_write_other(m: Map<SV, SV>, k: SV, v: SV, d: Address)
    requires !is_units_key(k), !is_deleg_key(k),
    ensures
        psum(m.insert(k, v), units_proj()) == psum(m, units_proj()),
        psum(m.insert(k, v), deleg_proj(m.insert(k, v), d)) == psum(m, deleg_proj(m, d)),
        forall|a: Address| m_units(m.insert(k, v), a) == m_units(m, a),
        forall|a: Address| m_deleg(m.insert(k, v), a) == m_deleg(m, a),
{
    let m2 = m.insert(k, v);
    let f = deleg_proj(m, d);
    let f2 = deleg_proj(m2, d);
    assert forall|a: Address| m_deleg(m2, a) == m_deleg(m, a) && m_units(m2, a) == m_units(m, a) by { lemma_key_facts(a); }
    lemma_vpsum_ext(m2, f2, f);
    lemma_psum_insert(m, f, k, v);
    lemma_psum_insert(m, units_proj(), k, v);
}

/// writing the voting units of `a`
pub proof fn lemma_m_write_units(m: Map<SV, SV>, a: Address, v: SV, d: Address)
    ensures
        psum(m.insert(uk(a), v), units_proj()) == psum(m, units_proj()) - m_units(m, a) + sv_u128(v),
        psum(m.insert(uk(a), v), deleg_proj(m.insert(uk(a), v), d)) == psum(m, deleg_proj(m, d))
            + (if m_deleg(m, a) == Some(d) { sv_u128(v) - m_units(m, a) } else { 0 }),
        forall|b: Address| m_deleg(m.insert(uk(a), v), b) == m_deleg(m, b),
        forall|b: Address| b != a ==> m_units(m.insert(uk(a), v), b) == m_units(m, b),
        m_units(m.insert(uk(a), v), a) == sv_u128(v),
{
    let m2 = m.insert(uk(a), v);
    let f = deleg_proj(m, d);
    let f2 = deleg_proj(m2, d);
    lemma_key_facts(a);
    assert forall|b: Address| m_deleg(m2, b) == m_deleg(m, b) by { lemma_key_facts(b); }
    assert forall|b: Address| b != a implies m_units(m2, b) == m_units(m, b) by { lemma_key_facts(b); }
    lemma_vpsum_ext(m2, f2, f);
    lemma_psum_insert(m, f, uk(a), v);
    lemma_psum_insert(m, units_proj(), uk(a), v);
}
pub proof fn lemma_m_remove_units(m: Map<SV, SV>, a: Address, d: Address)
    ensures
        psum(m.remove(uk(a)), units_proj()) == psum(m, units_proj()) - m_units(m, a),
        psum(m.remove(uk(a)), deleg_proj(m.remove(uk(a)), d)) == psum(m, deleg_proj(m, d))
            - (if m_deleg(m, a) == Some(d) { m_units(m, a) } else { 0 }),
        forall|b: Address| m_deleg(m.remove(uk(a)), b) == m_deleg(m, b),
        forall|b: Address| b != a ==> m_units(m.remove(uk(a)), b) == m_units(m, b),
        m_units(m.remove(uk(a)), a) == 0,
{
    let m2 = m.remove(uk(a));
    let f = deleg_proj(m, d);
    let f2 = deleg_proj(m2, d);
    lemma_key_facts(a);
    assert forall|b: Address| m_deleg(m2, b) == m_deleg(m, b) by { lemma_key_facts(b); }
    assert forall|b: Address| b != a implies m_units(m2, b) == m_units(m, b) by { lemma_key_facts(b); }
    lemma_vpsum_ext(m2, f2, f);
    lemma_psum_remove_key(m, f, uk(a));
    lemma_psum_remove_key(m, units_proj(), uk(a));
}
/// writing the delegatee of `a`: its units leave the old delegate's sum and join the new one's
pub proof fn lemma_m_write_deleg(m: Map<SV, SV>, a: Address, v: SV, d: Address)
    ensures
        psum(m.insert(dk(a), v), units_proj()) == psum(m, units_proj()),
        psum(m.insert(dk(a), v), deleg_proj(m.insert(dk(a), v), d)) == psum(m, deleg_proj(m, d))
            + (if <Address as ToSV>::unsv(v) == d { m_units(m, a) } else { 0 })
            - (if m_deleg(m, a) == Some(d) { m_units(m, a) } else { 0 }),
        forall|b: Address| m_units(m.insert(dk(a), v), b) == m_units(m, b),
        forall|b: Address| b != a ==> m_deleg(m.insert(dk(a), v), b) == m_deleg(m, b),
        m_deleg(m.insert(dk(a), v), a) == Some(<Address as ToSV>::unsv(v)),
{
    let m2 = m.insert(dk(a), v);
    let f = deleg_proj(m, d);
    let f2 = deleg_proj(m2, d);
    lemma_key_facts(a);
    assert forall|b: Address| m_units(m2, b) == m_units(m, b) by { lemma_key_facts(b); }
    assert forall|b: Address| b != a implies m_deleg(m2, b) == m_deleg(m, b) by { lemma_key_facts(b); }
    // the new map under the new projection == the old map under the new projection (dk(a) never counts)
    lemma_psum_insert(m, f2, dk(a), v);
    lemma_psum_insert(m, units_proj(), dk(a), v);
    // old map: the two projections differ only on the entry uk(a)
    assert forall|j: SV| m.contains_key(j) && j != uk(a) implies f2(j, m[j]) == f(j, m[j]) by {
        if is_units_key(j) {
            lemma_units_key_shape(j);
            assert(key_addr(j) != a);
        }
    }
    lemma_vpsum_diff1(m, f2, f, uk(a));
}

// ---- the invariant ----
/// one timeline: exactly the first cp_num checkpoints are stored ("num keys consistent"), their
/// ledgers strictly increase, and the last one is not in the future
pub open spec fn seq_ok(w: World, t: CheckpointType) -> bool {
    let n = cp_num(w, t);
    &&& cps_ok(w, t, n)
    &&& forall|i: u32| i >= n ==> (#[trigger] cp_at(w, t, i)).is_none()
    &&& n > 0 ==> cp_led(w, t, (n - 1) as u32) <= w.ledger_seq
}
pub open spec fn gap_total(w: World) -> int { cp_latest(w, t_total()) as int - sum_units(w) }
pub open spec fn gap_deleg(w: World, d: Address) -> int { cp_latest(w, t_acct(d)) as int - sum_deleg(w, d) }
pub open spec fn inv_v(w: World) -> bool {
    &&& forall|t: CheckpointType| #[trigger] seq_ok(w, t)
    // voting power of d == Σ voting units of the accounts delegating to d
    &&& forall|d: Address| #[trigger] cp_latest(w, t_acct(d)) as int == sum_deleg(w, d)
    // vote total supply == Σ voting units
    &&& cp_latest(w, t_total()) as int == sum_units(w)
}

pub proof fn lemma_view_is_map(w: World, a: Address)
    ensures v_units(w, a) as int == m_units(w.persistent, a), v_delegatee(w, a) == m_deleg(w.persistent, a),
{}

/// a timeline whose entries and length are untouched looks the same
pub proof fn lemma_last_le_frame(w: World, w2: World, t: CheckpointType, n: u32, q: u32)
    requires forall|i: u32| i < n ==> #[trigger] cp_at(w2, t, i) == cp_at(w, t, i),
    ensures last_le(w2, t, n, q) == last_le(w, t, n, q),
    decreases n
{
    if n > 0 {
        assert(cp_at(w2, t, (n - 1) as u32) == cp_at(w, t, (n - 1) as u32));
        lemma_last_le_frame(w, w2, t, (n - 1) as u32, q);
    }
}
pub open spec fn same_timeline(w: World, w2: World, t: CheckpointType) -> bool {
    &&& cp_num(w2, t) == cp_num(w, t)
    &&& forall|i: u32| #[trigger] cp_at(w2, t, i) == cp_at(w, t, i)
}
pub proof fn lemma_timeline_frame(w: World, w2: World, t: CheckpointType)
    requires same_timeline(w, w2, t), w2.ledger_seq == w.ledger_seq,
    ensures seq_ok(w2, t) == seq_ok(w, t), cp_latest(w2, t) == cp_latest(w, t),
        forall|q: u32| #[trigger] past_value(w2, t, q) == past_value(w, t, q),
{
    let n = cp_num(w, t);
    assert forall|q: u32| #[trigger] past_value(w2, t, q) == past_value(w, t, q) by {
        lemma_last_le_frame(w, w2, t, n, q);
        match last_le(w, t, n, q) { Some(i) => { assert(cp_at(w2, t, i) == cp_at(w, t, i)); } None => {} }
    }
    if n > 0 { assert(cp_at(w2, t, (n - 1) as u32) == cp_at(w, t, (n - 1) as u32)); }
    assert forall|i: u32| cp_led(w2, t, i) == cp_led(w, t, i) by { assert(cp_at(w2, t, i) == cp_at(w, t, i)); }
    if seq_ok(w, t) {
        assert forall|i: u32| i < n implies (#[trigger] cp_at(w2, t, i)).is_some() by { assert(cp_at(w, t, i).is_some()); }
        assert forall|i: u32| i >= n implies (#[trigger] cp_at(w2, t, i)).is_none() by { assert(cp_at(w, t, i).is_none()); }
        assert forall|i: u32, j: u32| i < j && j < n implies #[trigger] cp_led(w2, t, i) < #[trigger] cp_led(w2, t, j) by {
            assert(cp_led(w, t, i) < cp_led(w, t, j));
        }
    }
    if seq_ok(w2, t) {
        assert forall|i: u32| i < n implies (#[trigger] cp_at(w, t, i)).is_some() by { assert(cp_at(w2, t, i).is_some()); }
        assert forall|i: u32| i >= n implies (#[trigger] cp_at(w, t, i)).is_none() by { assert(cp_at(w2, t, i).is_none()); }
        assert forall|i: u32, j: u32| i < j && j < n implies #[trigger] cp_led(w, t, i) < #[trigger] cp_led(w, t, j) by {
            assert(cp_led(w2, t, i) < cp_led(w2, t, j));
        }
    }
}

/// `push_checkpoint` on its own timeline: append (new ledger) or overwrite (same ledger); the
/// earlier checkpoints are untouched, so no answer about a past ledger changes
pub proof fn lemma_push_timeline(w: World, t: CheckpointType, op: CheckpointOp, delta: u128)
    requires push_guard(w, t, op, delta),
    ensures
        //@@ C13:lemma.push_append_or_overwrite
        cp_num(push_post(w, t, op, delta), t) == (if push_same_ledger(w, t) { cp_num(w, t) as int } else { cp_num(w, t) + 1 }),
        cp_at(push_post(w, t, op, delta), t, (cp_num(push_post(w, t, op, delta), t) - 1) as u32) == Some(push_cp(w, t, op, delta)),
        cp_latest(push_post(w, t, op, delta), t) as int == cp_apply(cp_latest(w, t), op, delta),
        forall|i: u32| i != cp_num(push_post(w, t, op, delta), t) - 1 ==> #[trigger] cp_at(push_post(w, t, op, delta), t, i) == cp_at(w, t, i),
        //@@ C13:lemma.push_keeps_timeline_ok
        seq_ok(w, t) ==> seq_ok(push_post(w, t, op, delta), t),
        //@@ C13:lemma.push_keeps_past
        forall|q: u32| q < w.ledger_seq ==> #[trigger] past_value(push_post(w, t, op, delta), t, q) == past_value(w, t, q),
        // frame
        forall|t2: CheckpointType| t2 != t ==> #[trigger] same_timeline(w, push_post(w, t, op, delta), t2),
        push_post(w, t, op, delta).ledger_seq == w.ledger_seq,
{
    broadcast use sdk_store;
    let w2 = push_post(w, t, op, delta);
    let n = cp_num(w, t);
    let c = push_cp(w, t, op, delta);
    let n2 = cp_num(w2, t);
    assert(n2 == (if push_same_ledger(w, t) { n as int } else { n + 1 }));
    assert(cp_at(w2, t, (n2 - 1) as u32) == Some(c));
    assert forall|i: u32| i != n2 - 1 implies #[trigger] cp_at(w2, t, i) == cp_at(w, t, i) by {}
    assert forall|t2: CheckpointType| t2 != t implies #[trigger] same_timeline(w, w2, t2) by {
        assert forall|i: u32| #[trigger] cp_at(w2, t2, i) == cp_at(w, t2, i) by {}
    }
    assert forall|q: u32| q < w.ledger_seq implies #[trigger] past_value(w2, t, q) == past_value(w, t, q) by {
        let m = (n2 - 1) as u32;      // index of the written checkpoint; everything below it is untouched
        lemma_last_le_frame(w, w2, t, m, q);
        assert(cp_led(w2, t, m) > q);
        assert(last_le(w2, t, n2, q) == last_le(w2, t, m, q));
        if push_same_ledger(w, t) {
            assert(cp_led(w, t, m) > q);
            assert(last_le(w, t, n, q) == last_le(w, t, m, q));
        }
        lemma_last_le_char(w, t, m, q);
        match last_le(w, t, m, q) { Some(i) => { assert(cp_at(w2, t, i) == cp_at(w, t, i)); } None => {} }
    }
    if seq_ok(w, t) {
        let m = (n2 - 1) as u32;
        assert forall|i: u32| i < n2 implies (#[trigger] cp_at(w2, t, i)).is_some() by {
            if i != m { assert(cp_at(w, t, i).is_some()); }
        }
        assert forall|i: u32| i >= n2 implies (#[trigger] cp_at(w2, t, i)).is_none() by { assert(cp_at(w, t, i).is_none()); }
        assert forall|i: u32, j: u32| i < j && j < n2 implies #[trigger] cp_led(w2, t, i) < #[trigger] cp_led(w2, t, j) by {
            assert(cp_at(w2, t, i) == cp_at(w, t, i));
            if j != m {
                assert(cp_at(w2, t, j) == cp_at(w, t, j));
                assert(cp_led(w, t, i) < cp_led(w, t, j));
            } else if push_same_ledger(w, t) {
                assert(cp_led(w, t, i) < cp_led(w, t, j));
            } else {
                // append: the old last checkpoint is strictly before the current ledger
                if i < n - 1 { assert(cp_led(w, t, i) < cp_led(w, t, (n - 1) as u32)); }
            }
        }
    }
}
