// =================================================================================================
// spec pack `votes` (C13), part 2 — the invariant inv_v and its preservation by every mutator
// =================================================================================================

// ---- raw persistent-map level: voting-unit and delegatee entries ----
pub open spec fn uk(a: Address) -> SV { VotesStorageKey::VotingUnits(a).sv() }
pub open spec fn dk(a: Address) -> SV { VotesStorageKey::Delegatee(a).sv() }
pub open spec fn sym_units() -> SV { uk(Address { id: 0 })->Vec_0[0] }
pub open spec fn sym_deleg() -> SV { dk(Address { id: 0 })->Vec_0[0] }
pub open spec fn is_units_key(k: SV) -> bool {
    (k is Vec) && k->Vec_0.len() == 2 && k->Vec_0[0] == sym_units() && (k->Vec_0[1] is Addr)
}
pub open spec fn is_deleg_key(k: SV) -> bool {
    (k is Vec) && k->Vec_0.len() == 2 && k->Vec_0[0] == sym_deleg() && (k->Vec_0[1] is Addr)
}
pub open spec fn key_addr(k: SV) -> Address { k->Vec_0[1]->Addr_0 }
pub open spec fn sv_u128(v: SV) -> int { <u128 as ToSV>::unsv(v) as int }
pub open spec fn m_units(m: Map<SV, SV>, a: Address) -> int { if m.contains_key(uk(a)) { sv_u128(m[uk(a)]) } else { 0 } }
pub open spec fn m_deleg(m: Map<SV, SV>, a: Address) -> Option<Address> {
    if m.contains_key(dk(a)) { Some(<Address as ToSV>::unsv(m[dk(a)])) } else { None }
}
/// every voting-units entry counts with its value
pub open spec fn units_proj() -> spec_fn(SV, SV) -> int {
    |k: SV, v: SV| if is_units_key(k) { sv_u128(v) } else { 0 }
}
/// a voting-units entry counts iff its account currently delegates to `d`
pub open spec fn deleg_proj(m: Map<SV, SV>, d: Address) -> spec_fn(SV, SV) -> int {
    |k: SV, v: SV| if is_units_key(k) && m_deleg(m, key_addr(k)) == Some(d) { sv_u128(v) } else { 0 }
}
/// Σ voting units over all accounts
pub open spec fn sum_units(w: World) -> int { psum(w.persistent, units_proj()) }
/// Σ voting units of the accounts currently delegating to `d`
pub open spec fn sum_deleg(w: World, d: Address) -> int { psum(w.persistent, deleg_proj(w.persistent, d)) }

pub proof fn lemma_key_facts(a: Address)
    ensures is_units_key(uk(a)), key_addr(uk(a)) == a, !is_deleg_key(uk(a)),
        is_deleg_key(dk(a)), key_addr(dk(a)) == a, !is_units_key(dk(a)),
{
    assert(uk(a)->Vec_0.len() == 2);
    assert(dk(a)->Vec_0.len() == 2);
}
pub proof fn lemma_units_key_shape(k: SV)
    requires is_units_key(k)
    ensures k == uk(key_addr(k)),
{
    assert(k->Vec_0 =~= uk(key_addr(k))->Vec_0);
}
/// the other four key families are neither voting-units nor delegatee entries
pub proof fn lemma_other_key(k: VotesStorageKey)
    requires !(k is VotingUnits), !(k is Delegatee),
    ensures !is_units_key(k.sv()), !is_deleg_key(k.sv()),
{
    match k {
        VotesStorageKey::NumCheckpoints(a) => { assert(k.sv()->Vec_0[0] != sym_units()); assert(k.sv()->Vec_0[0] != sym_deleg()); }
        VotesStorageKey::DelegateCheckpoint(a, i) => { assert(k.sv()->Vec_0.len() == 3); }
        VotesStorageKey::NumTotalSupplyCheckpoints => { assert(k.sv()->Vec_0.len() == 1); }
        VotesStorageKey::TotalSupplyCheckpoint(i) => { assert(k.sv()->Vec_0[0] != sym_units()); assert(k.sv()->Vec_0[0] != sym_deleg()); }
        _ => {}
    }
}

pub proof fn lemma_vpsum_ext(m: Map<SV, SV>, f: spec_fn(SV, SV) -> int, g: spec_fn(SV, SV) -> int)
    requires forall|j: SV| m.contains_key(j) ==> f(j, m[j]) == g(j, m[j]),
    ensures psum(m, f) == psum(m, g),
    decreases m.dom().len()
{
    if m.dom().len() != 0 {
        let c = m.dom().choose();
        assert(m.contains_key(c));
        lemma_vpsum_ext(m.remove(c), f, g);
    }
}
/// two projections that agree everywhere except on entry k
pub proof fn lemma_vpsum_diff1(m: Map<SV, SV>, f: spec_fn(SV, SV) -> int, g: spec_fn(SV, SV) -> int, k: SV)
    requires forall|j: SV| m.contains_key(j) && j != k ==> f(j, m[j]) == g(j, m[j]),
    ensures psum(m, f) - psum(m, g) == (if m.contains_key(k) { f(k, m[k]) - g(k, m[k]) } else { 0 }),
{
    if m.contains_key(k) {
        lemma_psum_remove(m, f, k);
        lemma_psum_remove(m, g, k);
        lemma_vpsum_ext(m.remove(k), f, g);
    } else {
        lemma_vpsum_ext(m, f, g);
    }
}

/// writing or removing an entry that is neither a voting-units nor a delegatee entry changes no sum
pub proof fn lemma_m_write_other(m: Map<SV, SV>, k: SV, v: SV, d: Address)
    requires !is_units_key(k), !is_deleg_key(k),
    ensures
        psum(m.insert(k, v), units_proj()) == psum(m, units_proj()),
        psum(m.insert(k, v), deleg_proj(m.insert(k, v), d)) == psum(m, deleg_proj(m, d)),
        forall|a: Address| m_units(m.insert(k, v), a) == m_units(m, a),
        forall|a: Address| m_deleg(m.insert(k, v), a) == m_deleg(m, a),
{
    let m2 = m.insert(k, v);
    let f = deleg_proj(m, d);
    let f2 = deleg_proj(m2, d);
    assert forall|a: Address| m_deleg(m2, a) == m_deleg(m, a) && m_units(m2, a) == m_units(m, a) by { lemma_key_facts(a); }
    lemma_vpsum_ext(m2, f2, f);
    lemma_psum_insert(m, f, k, v);
    lemma_psum_insert(m, units_proj(), k, v);
}

/// writing the voting units of `a`
pub proof fn lemma_m_write_units(m: Map<SV, SV>, a: Address, v: SV, d: Address)
    ensures
        psum(m.insert(uk(a), v), units_proj()) == psum(m, units_proj()) - m_units(m, a) + sv_u128(v),
        psum(m.insert(uk(a), v), deleg_proj(m.insert(uk(a), v), d)) == psum(m, deleg_proj(m, d))
            + (if m_deleg(m, a) == Some(d) { sv_u128(v) - m_units(m, a) } else { 0 }),
        forall|b: Address| m_deleg(m.insert(uk(a), v), b) == m_deleg(m, b),
        forall|b: Address| b != a ==> m_units(m.insert(uk(a), v), b) == m_units(m, b),
        m_units(m.insert(uk(a), v), a) == sv_u128(v),
{
    let m2 = m.insert(uk(a), v);
    let f = deleg_proj(m, d);
    let f2 = deleg_proj(m2, d);
    lemma_key_facts(a);
    assert forall|b: Address| m_deleg(m2, b) == m_deleg(m, b) by { lemma_key_facts(b); }
    assert forall|b: Address| b != a implies m_units(m2, b) == m_units(m, b) by { lemma_key_facts(b); }
    lemma_vpsum_ext(m2, f2, f);
    lemma_psum_insert(m, f, uk(a), v);
    lemma_psum_insert(m, units_proj(), uk(a), v);
}
pub proof fn lemma_m_remove_units(m: Map<SV, SV>, a: Address, d: Address)
    ensures
        psum(m.remove(uk(a)), units_proj()) == psum(m, units_proj()) - m_units(m, a),
        psum(m.remove(uk(a)), deleg_proj(m.remove(uk(a)), d)) == psum(m, deleg_proj(m, d))
            - (if m_deleg(m, a) == Some(d) { m_units(m, a) } else { 0 }),
        forall|b: Address| m_deleg(m.remove(uk(a)), b) == m_deleg(m, b),
        forall|b: Address| b != a ==> m_units(m.remove(uk(a)), b) == m_units(m, b),
        m_units(m.remove(uk(a)), a) == 0,
{
    let m2 = m.remove(uk(a));
    let f = deleg_proj(m, d);
    let f2 = deleg_proj(m2, d);
    lemma_key_facts(a);
    assert forall|b: Address| m_deleg(m2, b) == m_deleg(m, b) by { lemma_key_facts(b); }
    assert forall|b: Address| b != a implies m_units(m2, b) == m_units(m, b) by { lemma_key_facts(b); }
    lemma_vpsum_ext(m2, f2, f);
    lemma_psum_remove_key(m, f, uk(a));
    lemma_psum_remove_key(m, units_proj(), uk(a));
}
/// writing the delegatee of `a`: its units leave the old delegate's sum and join the new one's
pub proof fn lemma_m_write_deleg(m: Map<SV, SV>, a: Address, v: SV, d: Address)
    ensures
        psum(m.insert(dk(a), v), units_proj()) == psum(m, units_proj()),
        psum(m.insert(dk(a), v), deleg_proj(m.insert(dk(a), v), d)) == psum(m, deleg_proj(m, d))
            + (if <Address as ToSV>::unsv(v) == d { m_units(m, a) } else { 0 })
            - (if m_deleg(m, a) == Some(d) { m_units(m, a) } else { 0 }),
        forall|b: Address| m_units(m.insert(dk(a), v), b) == m_units(m, b),
        forall|b: Address| b != a ==> m_deleg(m.insert(dk(a), v), b) == m_deleg(m, b),
        m_deleg(m.insert(dk(a), v), a) == Some(<Address as ToSV>::unsv(v)),
{
    let m2 = m.insert(dk(a), v);
    let f = deleg_proj(m, d);
    let f2 = deleg_proj(m2, d);
    lemma_key_facts(a);
    assert forall|b: Address| m_units(m2, b) == m_units(m, b) by { lemma_key_facts(b); }
    assert forall|b: Address| b != a implies m_deleg(m2, b) == m_deleg(m, b) by { lemma_key_facts(b); }
    // the new map under the new projection == the old map under the new projection (dk(a) never counts)
    lemma_psum_insert(m, f2, dk(a), v);
    lemma_psum_insert(m, units_proj(), dk(a), v);
    // old map: the two projections differ only on the entry uk(a)
    assert forall|j: SV| m.contains_key(j) && j != uk(a) implies f2(j, m[j]) == f(j, m[j]) by {
        if is_units_key(j) {
            lemma_units_key_shape(j);
            assert(key_addr(j) != a);
        }
    }
    lemma_vpsum_diff1(m, f2, f, uk(a));
}

// ---- the invariant ----
/// one timeline: exactly the first cp_num checkpoints are stored ("num keys consistent"), their
/// ledgers strictly increase, and the last one is not in the future
pub open spec fn seq_ok(w: World, t: CheckpointType) -> bool {
    let n = cp_num(w, t);
    &&& cps_ok(w, t, n)
    &&& forall|i: u32| i >= n ==> (#[trigger] cp_at(w, t, i)).is_none()
    &&& n > 0 ==> cp_led(w, t, (n - 1) as u32) <= w.ledger_seq
}
pub open spec fn gap_total(w: World) -> int { cp_latest(w, t_total()) as int - sum_units(w) }
pub open spec fn gap_deleg(w: World, d: Address) -> int { cp_latest(w, t_acct(d)) as int - sum_deleg(w, d) }
pub open spec fn inv_v(w: World) -> bool {
    &&& forall|t: CheckpointType| #[trigger] seq_ok(w, t)
    // voting power of d == Σ voting units of the accounts delegating to d
    &&& forall|d: Address| #[trigger] cp_latest(w, t_acct(d)) as int == sum_deleg(w, d)
    // vote total supply == Σ voting units
    &&& cp_latest(w, t_total()) as int == sum_units(w)
}

pub proof fn lemma_view_is_map(w: World, a: Address)
    ensures v_units(w, a) as int == m_units(w.persistent, a), v_delegatee(w, a) == m_deleg(w.persistent, a),
{}

/// a timeline whose entries and length are untouched looks the same
pub proof fn lemma_last_le_frame(w: World, w2: World, t: CheckpointType, n: u32, q: u32)
    requires forall|i: u32| i < n ==> #[trigger] cp_at(w2, t, i) == cp_at(w, t, i),
    ensures last_le(w2, t, n, q) == last_le(w, t, n, q),
    decreases n
{
    if n > 0 {
        assert(cp_at(w2, t, (n - 1) as u32) == cp_at(w, t, (n - 1) as u32));
        lemma_last_le_frame(w, w2, t, (n - 1) as u32, q);
    }
}
pub open spec fn same_timeline(w: World, w2: World, t: CheckpointType) -> bool {
    &&& cp_num(w2, t) == cp_num(w, t)
    &&& forall|i: u32| #[trigger] cp_at(w2, t, i) == cp_at(w, t, i)
}
pub proof fn lemma_timeline_frame(w: World, w2: World, t: CheckpointType)
    requires same_timeline(w, w2, t), w2.ledger_seq == w.ledger_seq,
    ensures seq_ok(w2, t) == seq_ok(w, t), cp_latest(w2, t) == cp_latest(w, t),
        forall|q: u32| #[trigger] past_value(w2, t, q) == past_value(w, t, q),
{
    let n = cp_num(w, t);
    assert forall|q: u32| #[trigger] past_value(w2, t, q) == past_value(w, t, q) by {
        lemma_last_le_frame(w, w2, t, n, q);
        match last_le(w, t, n, q) { Some(i) => { assert(cp_at(w2, t, i) == cp_at(w, t, i)); } None => {} }
    }
    if n > 0 { assert(cp_at(w2, t, (n - 1) as u32) == cp_at(w, t, (n - 1) as u32)); }
    assert forall|i: u32| cp_led(w2, t, i) == cp_led(w, t, i) by { assert(cp_at(w2, t, i) == cp_at(w, t, i)); }
    if seq_ok(w, t) {
        assert forall|i: u32| i < n implies (#[trigger] cp_at(w2, t, i)).is_some() by { assert(cp_at(w, t, i).is_some()); }
        assert forall|i: u32| i >= n implies (#[trigger] cp_at(w2, t, i)).is_none() by { assert(cp_at(w, t, i).is_none()); }
        assert forall|i: u32, j: u32| i < j && j < n implies #[trigger] cp_led(w2, t, i) < #[trigger] cp_led(w2, t, j) by {
            assert(cp_led(w, t, i) < cp_led(w, t, j));
        }
    }
    if seq_ok(w2, t) {
        assert forall|i: u32| i < n implies (#[trigger] cp_at(w, t, i)).is_some() by { assert(cp_at(w2, t, i).is_some()); }
        assert forall|i: u32| i >= n implies (#[trigger] cp_at(w, t, i)).is_none() by { assert(cp_at(w2, t, i).is_none()); }
        assert forall|i: u32, j: u32| i < j && j < n implies #[trigger] cp_led(w, t, i) < #[trigger] cp_led(w, t, j) by {
            assert(cp_led(w2, t, i) < cp_led(w2, t, j));
        }
    }
}

/// `push_checkpoint` on its own timeline: append (new ledger) or overwrite (same ledger); the
/// earlier checkpoints are untouched, so no answer about a past ledger changes
pub proof fn lemma_push_timeline(w: World, t: CheckpointType, op: CheckpointOp, delta: u128)
    requires push_guard(w, t, op, delta),
    ensures
        //@@ C13:lemma.push_append_or_overwrite
        cp_num(push_post(w, t, op, delta), t) == (if push_same_ledger(w, t) { cp_num(w, t) as int } else { cp_num(w, t) + 1 }),
        cp_at(push_post(w, t, op, delta), t, (cp_num(push_post(w, t, op, delta), t) - 1) as u32) == Some(push_cp(w, t, op, delta)),
        cp_latest(push_post(w, t, op, delta), t) as int == cp_apply(cp_latest(w, t), op, delta),
        forall|i: u32| i != cp_num(push_post(w, t, op, delta), t) - 1 ==> #[trigger] cp_at(push_post(w, t, op, delta), t, i) == cp_at(w, t, i),
        //@@ C13:lemma.push_keeps_timeline_ok
        seq_ok(w, t) ==> seq_ok(push_post(w, t, op, delta), t),
        //@@ C13:lemma.push_keeps_past
        forall|q: u32| q < w.ledger_seq ==> #[trigger] past_value(push_post(w, t, op, delta), t, q) == past_value(w, t, q),
        // frame
        forall|t2: CheckpointType| t2 != t ==> #[trigger] same_timeline(w, push_post(w, t, op, delta), t2),
        push_post(w, t, op, delta).ledger_seq == w.ledger_seq,
{
    broadcast use sdk_store;
    let w2 = push_post(w, t, op, delta);
    let n = cp_num(w, t);
    let c = push_cp(w, t, op, delta);
    let n2 = cp_num(w2, t);
    assert(n2 == (if push_same_ledger(w, t) { n as int } else { n + 1 }));
    assert(cp_at(w2, t, (n2 - 1) as u32) == Some(c));
    assert forall|i: u32| i != n2 - 1 implies #[trigger] cp_at(w2, t, i) == cp_at(w, t, i) by {}
    assert forall|t2: CheckpointType| t2 != t implies #[trigger] same_timeline(w, w2, t2) by {
        assert forall|i: u32| #[trigger] cp_at(w2, t2, i) == cp_at(w, t2, i) by {}
    }
    assert forall|q: u32| q < w.ledger_seq implies #[trigger] past_value(w2, t, q) == past_value(w, t, q) by {
        let m = (n2 - 1) as u32;      // index of the written checkpoint; everything below it is untouched
        lemma_last_le_frame(w, w2, t, m, q);
        assert(cp_led(w2, t, m) > q);
        assert(last_le(w2, t, n2, q) == last_le(w2, t, m, q));
        if push_same_ledger(w, t) {
            assert(cp_led(w, t, m) > q);
            assert(last_le(w, t, n, q) == last_le(w, t, m, q));
        }
        lemma_last_le_char(w, t, m, q);
        match last_le(w, t, m, q) { Some(i) => { assert(cp_at(w2, t, i) == cp_at(w, t, i)); } None => {} }
    }
    if seq_ok(w, t) {
        let m = (n2 - 1) as u32;
        assert forall|i: u32| i < n2 implies (#[trigger] cp_at(w2, t, i)).is_some() by {
            if i != m { assert(cp_at(w, t, i).is_some()); }
        }
        assert forall|i: u32| i >= n2 implies (#[trigger] cp_at(w2, t, i)).is_none() by { assert(cp_at(w, t, i).is_none()); }
        assert forall|i: u32, j: u32| i < j && j < n2 implies #[trigger] cp_led(w2, t, i) < #[trigger] cp_led(w2, t, j) by {
            assert(cp_at(w2, t, i) == cp_at(w, t, i));
            if j != m {
                assert(cp_at(w2, t, j) == cp_at(w, t, j));
                assert(cp_led(w, t, i) < cp_led(w, t, j));
            } else if push_same_ledger(w, t) {
                assert(cp_led(w, t, i) < cp_led(w, t, j));
            } else {
                // append: the old last checkpoint is strictly before the current ledger
                if i < n - 1 { assert(cp_led(w, t, i) < cp_led(w, t, (n - 1) as u32)); }
            }
        }
    }
}

// ---- effect of one elementary step on the votes view ----
/// `w2` differs from `w`, as far as the votes view is concerned, exactly by: the units of account
/// `ua` grew by `du`, the current value of timeline `tt` grew by `dt`; every timeline stays
/// well-formed and every answer about a past ledger is unchanged
pub open spec fn step_eff(w: World, w2: World, ua: Option<Address>, du: int, tt: Option<CheckpointType>, dt: int) -> bool {
    &&& w2.ledger_seq == w.ledger_seq
    &&& forall|a: Address| #[trigger] v_delegatee(w2, a) == v_delegatee(w, a)
    &&& forall|a: Address| #[trigger] v_units(w2, a) as int == v_units(w, a) + (if ua == Some(a) { du } else { 0 })
    &&& gap_total(w2) == gap_total(w) - (if ua.is_some() { du } else { 0 }) + (if tt == Some(t_total()) { dt } else { 0 })
    &&& forall|d: Address| #[trigger] gap_deleg(w2, d) == gap_deleg(w, d)
            - (if ua.is_some() && v_delegatee(w, ua.unwrap()) == Some(d) { du } else { 0 })
            + (if tt == Some(t_acct(d)) { dt } else { 0 })
    &&& forall|t: CheckpointType| seq_ok(w, t) ==> #[trigger] seq_ok(w2, t)
    &&& forall|t: CheckpointType, q: u32| q < w.ledger_seq ==> #[trigger] past_value(w2, t, q) == past_value(w, t, q)
}

/// a write that touches no votes key family and not the ledger (authorization, events)
pub proof fn lemma_eff_nostore(w: World, w2: World)
    requires w2.persistent == w.persistent, w2.instance == w.instance, w2.ledger_seq == w.ledger_seq,
    ensures step_eff(w, w2, None, 0, None, 0),
{
    assert forall|t: CheckpointType| true implies #[trigger] same_timeline(w, w2, t) by {}
    assert forall|t: CheckpointType| seq_ok(w, t) implies #[trigger] seq_ok(w2, t) by { assert(same_timeline(w, w2, t)); lemma_timeline_frame(w, w2, t); }
    assert forall|t: CheckpointType, q: u32| q < w.ledger_seq implies #[trigger] past_value(w2, t, q) == past_value(w, t, q) by {
        assert(same_timeline(w, w2, t)); lemma_timeline_frame(w, w2, t);
    }
    assert forall|d: Address| #[trigger] gap_deleg(w2, d) == gap_deleg(w, d) by { assert(same_timeline(w, w2, t_acct(d))); lemma_timeline_frame(w, w2, t_acct(d)); }
    assert(same_timeline(w, w2, t_total())); lemma_timeline_frame(w, w2, t_total());
}

pub proof fn lemma_eff_set_units(w: World, a: Address, u: u128)
    ensures step_eff(w, set_units_post(w, a, u), Some(a), u - v_units(w, a), None, 0),
{
    broadcast use sdk_store;
    let w2 = set_units_post(w, a, u);
    let m = w.persistent;
    assert forall|t: CheckpointType| true implies #[trigger] same_timeline(w, w2, t) by {
        assert forall|i: u32| #[trigger] cp_at(w2, t, i) == cp_at(w, t, i) by {}
    }
    assert forall|t: CheckpointType| seq_ok(w, t) implies #[trigger] seq_ok(w2, t) by { assert(same_timeline(w, w2, t)); lemma_timeline_frame(w, w2, t); }
    assert forall|t: CheckpointType, q: u32| q < w.ledger_seq implies #[trigger] past_value(w2, t, q) == past_value(w, t, q) by {
        assert(same_timeline(w, w2, t)); lemma_timeline_frame(w, w2, t);
    }
    lemma_view_is_map(w, a);
    if u == 0 {
        assert(w2.persistent == m.remove(uk(a)));
        lemma_m_remove_units(m, a, a);
    } else {
        assert(w2.persistent == m.insert(uk(a), u.sv()));
        lemma_m_write_units(m, a, u.sv(), a);
    }
    assert forall|b: Address| #[trigger] v_units(w2, b) as int == v_units(w, b) + (if Some(a) == Some(b) { u - v_units(w, a) } else { 0 }) by {
        lemma_view_is_map(w, b); lemma_view_is_map(w2, b);
    }
    assert forall|b: Address| #[trigger] v_delegatee(w2, b) == v_delegatee(w, b) by { lemma_view_is_map(w, b); lemma_view_is_map(w2, b); }
    assert(same_timeline(w, w2, t_total())); lemma_timeline_frame(w, w2, t_total());
    assert forall|d: Address| #[trigger] gap_deleg(w2, d) == gap_deleg(w, d)
            - (if v_delegatee(w, a) == Some(d) { u - v_units(w, a) } else { 0 }) by {
        assert(same_timeline(w, w2, t_acct(d))); lemma_timeline_frame(w, w2, t_acct(d));
        if u == 0 { lemma_m_remove_units(m, a, d); } else { lemma_m_write_units(m, a, u.sv(), d); }
    }
}

pub proof fn lemma_eff_push(w: World, t: CheckpointType, op: CheckpointOp, delta: u128)
    requires push_guard(w, t, op, delta),
    ensures step_eff(w, push_post(w, t, op, delta), None, 0, Some(t), cp_apply(cp_latest(w, t), op, delta) - cp_latest(w, t)),
{
    let w2 = push_post(w, t, op, delta);
    let dt = cp_apply(cp_latest(w, t), op, delta) - cp_latest(w, t);
    lemma_push_timeline(w, t, op, delta);
    assert forall|t2: CheckpointType| seq_ok(w, t2) implies #[trigger] seq_ok(w2, t2) by {
        if t2 != t { assert(same_timeline(w, w2, t2)); lemma_timeline_frame(w, w2, t2); }
    }
    assert forall|t2: CheckpointType, q: u32| q < w.ledger_seq implies #[trigger] past_value(w2, t2, q) == past_value(w, t2, q) by {
        if t2 != t { assert(same_timeline(w, w2, t2)); lemma_timeline_frame(w, w2, t2); }
    }
    lemma_push_sums(w, t, op, delta);
    assert forall|d: Address| #[trigger] gap_deleg(w2, d) == gap_deleg(w, d) + (if Some(t) == Some(t_acct(d)) { dt } else { 0 }) by {
        if t != t_acct(d) { assert(same_timeline(w, w2, t_acct(d))); lemma_timeline_frame(w, w2, t_acct(d)); }
    }
    if t != t_total() { assert(same_timeline(w, w2, t_total())); lemma_timeline_frame(w, w2, t_total()); }
}
/// `push_checkpoint` writes only checkpoint / counter entries: units, delegations and both sums are untouched
pub proof fn lemma_push_sums(w: World, t: CheckpointType, op: CheckpointOp, delta: u128)
    ensures
        sum_units(push_post(w, t, op, delta)) == sum_units(w),
        forall|d: Address| #[trigger] sum_deleg(push_post(w, t, op, delta), d) == sum_deleg(w, d),
        forall|a: Address| #[trigger] v_units(push_post(w, t, op, delta), a) == v_units(w, a),
        forall|a: Address| #[trigger] v_delegatee(push_post(w, t, op, delta), a) == v_delegatee(w, a),
{
    let w2 = push_post(w, t, op, delta);
    let n = cp_num(w, t);
    let c = push_cp(w, t, op, delta);
    let m = w.persistent;
    let k1 = if push_same_ledger(w, t) { cp_key(t, (n - 1) as u32) } else { cp_key(t, n) };
    lemma_other_key(k1);
    let m1 = m.insert(k1.sv(), c.sv());
    let d0 = Address { id: 0 };
    lemma_m_write_other(m, k1.sv(), c.sv(), d0);
    assert forall|d: Address| psum(m1, deleg_proj(m1, d)) == psum(m, deleg_proj(m, d)) by { lemma_m_write_other(m, k1.sv(), c.sv(), d); }
    if !push_same_ledger(w, t) && (t is Account) {
        let k2 = VotesStorageKey::NumCheckpoints(t->Account_0);
        let v2 = ((n + 1) as u32).sv();
        lemma_other_key(k2);
        assert(w2.persistent == m1.insert(k2.sv(), v2));
        lemma_m_write_other(m1, k2.sv(), v2, d0);
        assert forall|d: Address| #[trigger] sum_deleg(w2, d) == sum_deleg(w, d) by { lemma_m_write_other(m1, k2.sv(), v2, d); }
    } else {
        assert(w2.persistent == m1);
    }
    assert forall|a: Address| #[trigger] v_units(w2, a) == v_units(w, a) by { lemma_view_is_map(w, a); lemma_view_is_map(w2, a); }
    assert forall|a: Address| #[trigger] v_delegatee(w2, a) == v_delegatee(w, a) by { lemma_view_is_map(w, a); lemma_view_is_map(w2, a); }
}

/// two consecutive elementary steps: facts that simply chain
pub open spec fn eff_frame(w: World, w2: World) -> bool {
    &&& w2.ledger_seq == w.ledger_seq
    &&& forall|a: Address| #[trigger] v_delegatee(w2, a) == v_delegatee(w, a)
    &&& forall|t: CheckpointType| seq_ok(w, t) ==> #[trigger] seq_ok(w2, t)
    &&& forall|t: CheckpointType, q: u32| q < w.ledger_seq ==> #[trigger] past_value(w2, t, q) == past_value(w, t, q)
}
pub proof fn lemma_eff_frame_trans(w: World, w1: World, w2: World)
    requires eff_frame(w, w1), eff_frame(w1, w2),
    ensures eff_frame(w, w2),
{
    assert forall|a: Address| #[trigger] v_delegatee(w2, a) == v_delegatee(w, a) by { assert(v_delegatee(w1, a) == v_delegatee(w, a)); }
    assert forall|t: CheckpointType| seq_ok(w, t) implies #[trigger] seq_ok(w2, t) by { assert(seq_ok(w1, t)); }
    assert forall|t: CheckpointType, q: u32| q < w.ledger_seq implies #[trigger] past_value(w2, t, q) == past_value(w, t, q) by {
        assert(past_value(w1, t, q) == past_value(w, t, q));
    }
}

/// one half of move_delegate_votes
pub open spec fn opt_acct(d: Option<Address>) -> Option<CheckpointType> { match d { Some(a) => Some(t_acct(a)), None => None } }
pub proof fn lemma_eff_move1(w: World, d: Option<Address>, op: CheckpointOp, amt: u128)
    requires move1_guard(w, d, op, amt),
    ensures step_eff(w, move1_post(w, d, op, amt), None, 0, opt_acct(d),
        (match d { Some(a) => cp_apply(cp_latest(w, t_acct(a)), op, amt) - cp_latest(w, t_acct(a)), None => 0 })),
{
    match d {
        Some(a) => {
            let w1 = push_post(w, t_acct(a), op, amt);
            let w2 = move1_post(w, d, op, amt);
            lemma_eff_push(w, t_acct(a), op, amt);
            lemma_eff_nostore(w1, w2);
            let dt = cp_apply(cp_latest(w, t_acct(a)), op, amt) - cp_latest(w, t_acct(a));
            assert(eff_frame(w, w1) && eff_frame(w1, w2));
            lemma_eff_frame_trans(w, w1, w2);
            assert forall|b: Address| #[trigger] v_units(w2, b) as int == v_units(w, b) by { assert(v_units(w1, b) == v_units(w, b)); }
            assert forall|x: Address| #[trigger] gap_deleg(w2, x) == gap_deleg(w, x) + (if Some(t_acct(a)) == Some(t_acct(x)) { dt } else { 0 }) by {
                assert(gap_deleg(w2, x) == gap_deleg(w1, x));
            }
        }
        None => { lemma_eff_nostore(w, w); }
    }
}

/// `move_delegate_votes` (C13: "votes moved between the two delegates"): the old delegate's current
/// value drops by `amt`, the new one's grows by `amt`, nothing else in the votes view changes
pub open spec fn move_eff(w: World, w2: World, fd: Option<Address>, td: Option<Address>, amt: u128) -> bool {
    &&& eff_frame(w, w2)
    &&& forall|a: Address| #[trigger] v_units(w2, a) == v_units(w, a)
    &&& gap_total(w2) == gap_total(w)
    &&& forall|d: Address| #[trigger] gap_deleg(w2, d) == gap_deleg(w, d)
            + (if fd != td && td == Some(d) { amt as int } else { 0 }) - (if fd != td && fd == Some(d) { amt as int } else { 0 })
}
pub proof fn lemma_move(w: World, fd: Option<Address>, td: Option<Address>, amt: u128)
    requires move_guard(w, fd, td, amt),
    ensures
        //@@ C13:lemma.move_delegate_votes
        move_eff(w, move_post(w, fd, td, amt), fd, td, amt),
{
    let w2 = move_post(w, fd, td, amt);
    if amt == 0 || fd == td {
        lemma_eff_nostore(w, w);
    } else {
        let w1 = move1_post(w, fd, CheckpointOp::Sub, amt);
        lemma_eff_move1(w, fd, CheckpointOp::Sub, amt);
        lemma_eff_move1(w1, td, CheckpointOp::Add, amt);
        assert(eff_frame(w, w1) && eff_frame(w1, w2));
        lemma_eff_frame_trans(w, w1, w2);
        assert forall|a: Address| #[trigger] v_units(w2, a) == v_units(w, a) by { assert(v_units(w1, a) == v_units(w, a)); }
        assert forall|d: Address| #[trigger] gap_deleg(w2, d) == gap_deleg(w, d)
            + (if td == Some(d) { amt as int } else { 0 }) - (if fd == Some(d) { amt as int } else { 0 }) by {
            assert(gap_deleg(w1, d) == gap_deleg(w, d) - (if fd == Some(d) { amt as int } else { 0 }));
            // the second push reads the timeline of td in w1; td != fd, so it is the one of w
            if td == Some(d) {
                assert(gap_deleg(w2, d) == gap_deleg(w1, d) + (cp_apply(cp_latest(w1, t_acct(d)), CheckpointOp::Add, amt) - cp_latest(w1, t_acct(d))));
            } else {
                assert(gap_deleg(w2, d) == gap_deleg(w1, d));
            }
        }
    }
}

/// `transfer_voting_units` preserves inv_v; units move exactly as requested (C13)
pub open spec fn xfer_units_delta(from_a: Option<Address>, to_a: Option<Address>, amt: u128, a: Address) -> int {
    (if to_a == Some(a) { amt as int } else { 0 }) - (if from_a == Some(a) { amt as int } else { 0 })
}
pub proof fn lemma_xfer_inv(w: World, from_a: Option<Address>, to_a: Option<Address>, amt: u128)
    requires inv_v(w), xfer_guard(w, from_a, to_a, amt),
    ensures
        //@@ C13:lemma.transfer_units_inv
        inv_v(xfer_post(w, from_a, to_a, amt)),
        //@@ C13:lemma.transfer_units_exact_units
        forall|a: Address| #[trigger] v_units(xfer_post(w, from_a, to_a, amt), a) as int == v_units(w, a) + xfer_units_delta(from_a, to_a, amt, a),
        //@@ C13:lemma.transfer_units_keeps_delegations
        forall|a: Address| #[trigger] v_delegatee(xfer_post(w, from_a, to_a, amt), a) == v_delegatee(w, a),
        //@@ C13:lemma.transfer_units_keeps_past
        forall|t: CheckpointType, q: u32| q < w.ledger_seq ==> #[trigger] past_value(xfer_post(w, from_a, to_a, amt), t, q) == past_value(w, t, q),
        xfer_post(w, from_a, to_a, amt).ledger_seq == w.ledger_seq,
{
    let w4 = xfer_post(w, from_a, to_a, amt);
    if amt == 0 {
        lemma_eff_nostore(w, w);
    } else {
        let fd = v_delegatee_opt(w, from_a);
        let td = v_delegatee_opt(w, to_a);
        let w1 = xfer_from_post(w, from_a, amt);
        let w2 = xfer_to_post(w1, to_a, amt);
        // step 1: debit / mint — either way Σ units falls behind the total by `amt`, and the from-delegate's sum by `amt`
        match from_a {
            Some(f) => { lemma_eff_set_units(w, f, (v_units(w, f) - amt) as u128); }
            None => { lemma_eff_push(w, t_total(), CheckpointOp::Add, amt); }
        }
        assert(eff_frame(w, w1));
        assert(gap_total(w1) == gap_total(w) + amt);
        assert forall|d: Address| #[trigger] gap_deleg(w1, d) == gap_deleg(w, d) + (if fd == Some(d) { amt as int } else { 0 }) by {}
        assert forall|a: Address| #[trigger] v_units(w1, a) as int == v_units(w, a) - (if from_a == Some(a) { amt as int } else { 0 }) by {}
        // step 2: credit / burn
        match to_a {
            Some(t) => { lemma_eff_set_units(w1, t, (v_units(w1, t) + amt) as u128); assert(v_delegatee(w1, t) == v_delegatee(w, t)); }
            None => { lemma_eff_push(w1, t_total(), CheckpointOp::Sub, amt); }
        }
        assert(eff_frame(w1, w2));
        lemma_eff_frame_trans(w, w1, w2);
        assert(gap_total(w2) == gap_total(w));
        assert forall|d: Address| #[trigger] gap_deleg(w2, d) == gap_deleg(w, d)
            + (if fd == Some(d) { amt as int } else { 0 }) - (if td == Some(d) { amt as int } else { 0 }) by {
            assert(gap_deleg(w1, d) == gap_deleg(w, d) + (if fd == Some(d) { amt as int } else { 0 }));
        }
        assert forall|a: Address| #[trigger] v_units(w2, a) as int == v_units(w, a) + xfer_units_delta(from_a, to_a, amt, a) by {
            assert(v_units(w1, a) as int == v_units(w, a) - (if from_a == Some(a) { amt as int } else { 0 }));
        }
        // step 3: the delegates' timelines catch up
        lemma_move(w2, fd, td, amt);
        assert(eff_frame(w2, w4));
        lemma_eff_frame_trans(w, w2, w4);
        assert forall|a: Address| #[trigger] v_units(w4, a) as int == v_units(w, a) + xfer_units_delta(from_a, to_a, amt, a) by {
            assert(v_units(w4, a) == v_units(w2, a));
        }
        assert forall|d: Address| #[trigger] cp_latest(w4, t_acct(d)) as int == sum_deleg(w4, d) by {
            assert(gap_deleg(w4, d) == gap_deleg(w2, d)
                + (if fd != td && td == Some(d) { amt as int } else { 0 }) - (if fd != td && fd == Some(d) { amt as int } else { 0 }));
            assert(gap_deleg(w, d) == 0);
        }
        assert(gap_total(w4) == 0);
        assert forall|t: CheckpointType| #[trigger] seq_ok(w4, t) by { assert(seq_ok(w, t)); }
    }
}

/// writing the delegatee of `acct`: its units leave the old delegate's sum and join the new one's
pub proof fn lemma_eff_set_deleg(w: World, acct: Address, d: Address)
    ensures ({
        let w2 = pset(w, VotesStorageKey::Delegatee(acct), d.sv());
        &&& w2.ledger_seq == w.ledger_seq
        &&& forall|a: Address| #[trigger] v_units(w2, a) == v_units(w, a)
        &&& forall|a: Address| #[trigger] v_delegatee(w2, a) == (if a == acct { Some(d) } else { v_delegatee(w, a) })
        &&& gap_total(w2) == gap_total(w)
        &&& forall|x: Address| #[trigger] gap_deleg(w2, x) == gap_deleg(w, x)
                - (if x == d { v_units(w, acct) as int } else { 0 }) + (if v_delegatee(w, acct) == Some(x) { v_units(w, acct) as int } else { 0 })
        &&& forall|t: CheckpointType| seq_ok(w, t) ==> #[trigger] seq_ok(w2, t)
        &&& forall|t: CheckpointType, q: u32| q < w.ledger_seq ==> #[trigger] past_value(w2, t, q) == past_value(w, t, q)
    }),
{
    broadcast use sdk_store;
    let w2 = pset(w, VotesStorageKey::Delegatee(acct), d.sv());
    let m = w.persistent;
    assert(w2.persistent == m.insert(dk(acct), d.sv()));
    assert forall|t: CheckpointType| true implies #[trigger] same_timeline(w, w2, t) by {
        assert forall|i: u32| #[trigger] cp_at(w2, t, i) == cp_at(w, t, i) by {}
    }
    assert forall|t: CheckpointType| seq_ok(w, t) implies #[trigger] seq_ok(w2, t) by { assert(same_timeline(w, w2, t)); lemma_timeline_frame(w, w2, t); }
    assert forall|t: CheckpointType, q: u32| q < w.ledger_seq implies #[trigger] past_value(w2, t, q) == past_value(w, t, q) by {
        assert(same_timeline(w, w2, t)); lemma_timeline_frame(w, w2, t);
    }
    lemma_view_is_map(w, acct);
    lemma_m_write_deleg(m, acct, d.sv(), d);
    assert forall|a: Address| #[trigger] v_units(w2, a) == v_units(w, a) by {}
    assert forall|a: Address| #[trigger] v_delegatee(w2, a) == (if a == acct { Some(d) } else { v_delegatee(w, a) }) by {}
    assert(same_timeline(w, w2, t_total())); lemma_timeline_frame(w, w2, t_total());
    assert forall|x: Address| #[trigger] gap_deleg(w2, x) == gap_deleg(w, x)
                - (if x == d { v_units(w, acct) as int } else { 0 }) + (if v_delegatee(w, acct) == Some(x) { v_units(w, acct) as int } else { 0 }) by {
        assert(same_timeline(w, w2, t_acct(x))); lemma_timeline_frame(w, w2, t_acct(x));
        lemma_m_write_deleg(m, acct, d.sv(), x);
    }
}

/// `delegate` preserves inv_v; exactly the delegation of `acct` changes (C13)
pub proof fn lemma_delegate_inv(w: World, acct: Address, d: Address)
    requires inv_v(w), delegate_guard(w, acct, d),
    ensures
        //@@ C13:lemma.delegate_inv
        inv_v(delegate_post(w, acct, d)),
        //@@ C13:lemma.delegate_exact_delegation
        forall|a: Address| #[trigger] v_delegatee(delegate_post(w, acct, d), a) == (if a == acct { Some(d) } else { v_delegatee(w, a) }),
        //@@ C13:lemma.delegate_keeps_units
        forall|a: Address| #[trigger] v_units(delegate_post(w, acct, d), a) == v_units(w, a),
        //@@ C13:lemma.delegate_keeps_past
        forall|t: CheckpointType, q: u32| q < w.ledger_seq ==> #[trigger] past_value(delegate_post(w, acct, d), t, q) == past_value(w, t, q),
        //@@ C13:lemma.delegate_needs_auth
        delegate_post(w, acct, d).auths.contains(acct),
        delegate_post(w, acct, d).ledger_seq == w.ledger_seq,
{
    let old_d = v_delegatee(w, acct);
    let w1 = w_auth(w, acct);
    let w2 = pset(w1, VotesStorageKey::Delegatee(acct), d.sv());
    let w3 = delegate_pre(w, acct, d);
    let u = v_units(w3, acct);
    let w4 = delegate_post(w, acct, d);
    lemma_eff_nostore(w, w1);
    lemma_eff_set_deleg(w1, acct, d);
    lemma_eff_nostore(w2, w3);
    lemma_move(w3, old_d, Some(d), u);
    assert(v_units(w3, acct) == v_units(w2, acct));
    assert(v_units(w2, acct) == v_units(w1, acct));
    assert(u == v_units(w, acct));
    assert(v_delegatee(w1, acct) == old_d);
    assert forall|a: Address| #[trigger] v_units(w4, a) == v_units(w, a) by {
        assert(v_units(w4, a) == v_units(w3, a)); assert(v_units(w3, a) == v_units(w2, a)); assert(v_units(w2, a) == v_units(w1, a));
    }
    assert forall|a: Address| #[trigger] v_delegatee(w4, a) == (if a == acct { Some(d) } else { v_delegatee(w, a) }) by {
        assert(v_delegatee(w4, a) == v_delegatee(w3, a)); assert(v_delegatee(w3, a) == v_delegatee(w2, a)); assert(v_delegatee(w1, a) == v_delegatee(w, a));
    }
    assert forall|t: CheckpointType| #[trigger] seq_ok(w4, t) by { assert(seq_ok(w, t)); assert(seq_ok(w1, t)); assert(seq_ok(w2, t)); assert(seq_ok(w3, t)); }
    assert forall|t: CheckpointType, q: u32| q < w.ledger_seq implies #[trigger] past_value(w4, t, q) == past_value(w, t, q) by {
        assert(past_value(w1, t, q) == past_value(w, t, q)); assert(past_value(w2, t, q) == past_value(w1, t, q));
        assert(past_value(w3, t, q) == past_value(w2, t, q)); assert(past_value(w4, t, q) == past_value(w3, t, q));
    }
    assert(gap_total(w4) == gap_total(w3) && gap_total(w3) == gap_total(w2) && gap_total(w2) == gap_total(w1) && gap_total(w1) == gap_total(w));
    assert forall|x: Address| #[trigger] cp_latest(w4, t_acct(x)) as int == sum_deleg(w4, x) by {
        assert(gap_deleg(w, x) == 0);
        assert(gap_deleg(w1, x) == gap_deleg(w, x));
        assert(gap_deleg(w2, x) == gap_deleg(w1, x) - (if x == d { u as int } else { 0 }) + (if old_d == Some(x) { u as int } else { 0 }));
        assert(gap_deleg(w3, x) == gap_deleg(w2, x));
        assert(gap_deleg(w4, x) == gap_deleg(w3, x) + (if Some(d) == Some(x) { u as int } else { 0 }) - (if old_d == Some(x) { u as int } else { 0 }));
    }
    // the move does not touch the authorization set
    lemma_move_auths(w3, old_d, Some(d), u);
}
pub proof fn lemma_move_auths(w: World, fd: Option<Address>, td: Option<Address>, amt: u128)
    ensures move_post(w, fd, td, amt).auths == w.auths,
{}
