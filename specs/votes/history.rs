// =================================================================================================
// spec pack `votes` (C13), part 3 — histories: every reachable state satisfies inv_v, a past lookup
// answers the value that held at the end of the queried ledger, and no later step changes it
// =================================================================================================

/// the state-changing entry points of the votes module and the passing of ledgers
pub enum VOp {
    /// `delegate(acct, dele)` (first delegation, re-delegation, self-delegation)
    Delegate { acct: Address, dele: Address },
    /// `transfer_voting_units(src, dst, amt)`: (None, Some) = mint, (Some, None) = burn, (Some, Some) = transfer
    TransferUnits { src: Option<Address>, dst: Option<Address>, amt: u128 },
    /// the ledger advances (any gap) or a new invocation starts in the same ledger (seq unchanged)
    Tick { seq: u32, ts: u64 },
}
pub open spec fn vop_guard(w: World, op: VOp) -> bool {
    match op {
        VOp::Delegate { acct, dele } => delegate_guard(w, acct, dele),
        VOp::TransferUnits { src, dst, amt } => xfer_guard(w, src, dst, amt),
        VOp::Tick { seq, ts } => seq >= w.ledger_seq,
    }
}
pub open spec fn vop_post(w: World, op: VOp) -> World {
    match op {
        // an operation runs in its own invocation; its authorizations do not outlive it
        VOp::Delegate { acct, dele } => World { auths: Set::empty(), ..delegate_post(w, acct, dele) },
        VOp::TransferUnits { src, dst, amt } => World { auths: Set::empty(), ..xfer_post(w, src, dst, amt) },
        VOp::Tick { seq, ts } => World { ledger_seq: seq, timestamp: ts, auths: Set::empty(), auth_args: Set::empty(), ..w },
    }
}
pub open spec fn v_run(w0: World, steps: Seq<VOp>) -> World
    decreases steps.len()
{
    if steps.len() == 0 { World { auths: Set::empty(), ..w0 } } else { vop_post(v_run(w0, steps.drop_last()), steps.last()) }
}
pub open spec fn v_valid(w0: World, steps: Seq<VOp>) -> bool
    decreases steps.len()
{
    steps.len() == 0 || (v_valid(w0, steps.drop_last()) && vop_guard(v_run(w0, steps.drop_last()), steps.last()))
}
/// a freshly deployed contract: no entry of any votes key family
pub open spec fn v_genesis(w0: World) -> bool {
    forall|k: VotesStorageKey| (#[trigger] pget(w0, k)).is_none() && iget(w0, k).is_none()
}

/// the value of timeline `t` at the end of ledger `q` in the trace: the current value in the last
/// state of the trace whose ledger number is <= q (0 if the contract did not exist yet)
pub open spec fn hist_val(w0: World, steps: Seq<VOp>, t: CheckpointType, q: u32) -> u128
    decreases steps.len()
{
    if v_run(w0, steps).ledger_seq <= q { cp_latest(v_run(w0, steps), t) }
    else if steps.len() == 0 { 0 }
    else { hist_val(w0, steps.drop_last(), t, q) }
}

// ---- frames ----
pub proof fn lemma_past_frame(w: World, w2: World, t: CheckpointType)
    requires same_timeline(w, w2, t),
    ensures forall|q: u32| #[trigger] past_value(w2, t, q) == past_value(w, t, q),
{
    let n = cp_num(w, t);
    assert forall|q: u32| #[trigger] past_value(w2, t, q) == past_value(w, t, q) by {
        lemma_last_le_frame(w, w2, t, n, q);
        match last_le(w, t, n, q) { Some(i) => { assert(cp_at(w2, t, i) == cp_at(w, t, i)); } None => {} }
    }
}
/// same stores, same or later ledger: inv_v and every answer carry over
pub proof fn lemma_inv_v_frame(w: World, w2: World)
    requires inv_v(w), w2.persistent == w.persistent, w2.instance == w.instance, w2.ledger_seq >= w.ledger_seq,
    ensures inv_v(w2),
        forall|t: CheckpointType, q: u32| #[trigger] past_value(w2, t, q) == past_value(w, t, q),
{
    assert forall|t: CheckpointType| true implies #[trigger] same_timeline(w, w2, t) by {}
    assert forall|t: CheckpointType, q: u32| #[trigger] past_value(w2, t, q) == past_value(w, t, q) by {
        assert(same_timeline(w, w2, t)); lemma_past_frame(w, w2, t);
    }
    assert forall|t: CheckpointType| #[trigger] seq_ok(w2, t) by {
        assert(seq_ok(w, t));
        assert(same_timeline(w, w2, t));
        let n = cp_num(w, t);
        assert forall|i: u32| cp_led(w2, t, i) == cp_led(w, t, i) by { assert(cp_at(w2, t, i) == cp_at(w, t, i)); }
        assert forall|i: u32| i < n implies (#[trigger] cp_at(w2, t, i)).is_some() by { assert(cp_at(w, t, i).is_some()); }
        assert forall|i: u32| i >= n implies (#[trigger] cp_at(w2, t, i)).is_none() by { assert(cp_at(w, t, i).is_none()); }
        assert forall|i: u32, j: u32| i < j && j < n implies #[trigger] cp_led(w2, t, i) < #[trigger] cp_led(w2, t, j) by {
            assert(cp_led(w, t, i) < cp_led(w, t, j));
        }
    }
    assert forall|d: Address| #[trigger] cp_latest(w2, t_acct(d)) as int == sum_deleg(w2, d) by {
        assert(same_timeline(w, w2, t_acct(d)));
        let n = cp_num(w, t_acct(d));
        if n > 0 { assert(cp_at(w2, t_acct(d), (n - 1) as u32) == cp_at(w, t_acct(d), (n - 1) as u32)); }
        assert(cp_latest(w, t_acct(d)) as int == sum_deleg(w, d));
    }
    assert(same_timeline(w, w2, t_total()));
    let n = cp_num(w, t_total());
    if n > 0 { assert(cp_at(w2, t_total(), (n - 1) as u32) == cp_at(w, t_total(), (n - 1) as u32)); }
}

/// at or after the last checkpoint's ledger a lookup answers the current value
pub proof fn lemma_past_is_latest(w: World, t: CheckpointType, q: u32)
    requires seq_ok(w, t), w.ledger_seq <= q,
    ensures past_value(w, t, q) == cp_latest(w, t),
{}

// ---- one step ----
pub proof fn lemma_vstep(w: World, op: VOp)
    requires inv_v(w), vop_guard(w, op),
    ensures
        //@@ C13:history.step_inv
        inv_v(vop_post(w, op)),
        vop_post(w, op).ledger_seq >= w.ledger_seq,
        //@@ C13:history.step_keeps_past
        forall|t: CheckpointType, q: u32| q < w.ledger_seq ==> #[trigger] past_value(vop_post(w, op), t, q) == past_value(w, t, q),
{
    let w2 = vop_post(w, op);
    match op {
        VOp::Delegate { acct, dele } => {
            let wm = delegate_post(w, acct, dele);
            lemma_delegate_inv(w, acct, dele);
            lemma_inv_v_frame(wm, w2);
            assert forall|t: CheckpointType, q: u32| q < w.ledger_seq implies #[trigger] past_value(w2, t, q) == past_value(w, t, q) by {
                assert(past_value(wm, t, q) == past_value(w, t, q));
            }
        }
        VOp::TransferUnits { src, dst, amt } => {
            let wm = xfer_post(w, src, dst, amt);
            lemma_xfer_inv(w, src, dst, amt);
            lemma_inv_v_frame(wm, w2);
            assert forall|t: CheckpointType, q: u32| q < w.ledger_seq implies #[trigger] past_value(w2, t, q) == past_value(w, t, q) by {
                assert(past_value(wm, t, q) == past_value(w, t, q));
            }
        }
        VOp::Tick { seq, ts } => { lemma_inv_v_frame(w, w2); }
    }
}

// ---- genesis ----
pub proof fn lemma_psum_zero(m: Map<SV, SV>, f: spec_fn(SV, SV) -> int)
    requires forall|j: SV| m.contains_key(j) ==> f(j, m[j]) == 0,
    ensures psum(m, f) == 0,
    decreases m.dom().len()
{
    if m.dom().len() != 0 {
        let c = m.dom().choose();
        assert(m.contains_key(c));
        lemma_psum_zero(m.remove(c), f);
    }
}
pub proof fn lemma_v_genesis(w0: World)
    requires v_genesis(w0),
    ensures inv_v(v_run(w0, Seq::empty())),
        forall|t: CheckpointType, q: u32| #[trigger] past_value(v_run(w0, Seq::empty()), t, q) == 0,
        forall|t: CheckpointType| #[trigger] cp_latest(v_run(w0, Seq::empty()), t) == 0,
{
    let w = v_run(w0, Seq::empty());
    let m = w.persistent;
    assert forall|j: SV| m.contains_key(j) implies !is_units_key(j) by {
        if is_units_key(j) {
            lemma_units_key_shape(j);
            assert(pget(w0, VotesStorageKey::VotingUnits(key_addr(j))).is_none());
        }
    }
    lemma_psum_zero(m, units_proj());
    assert forall|d: Address| #[trigger] cp_latest(w, t_acct(d)) as int == sum_deleg(w, d) by {
        lemma_psum_zero(m, deleg_proj(m, d));
        assert(pget(w0, VotesStorageKey::NumCheckpoints(d)).is_none());
    }
    assert(pget(w0, VotesStorageKey::NumTotalSupplyCheckpoints).is_none());
    assert forall|t: CheckpointType| cp_num(w, t) == 0 by {
        match t {
            CheckpointType::TotalSupply => { assert(pget(w0, VotesStorageKey::NumTotalSupplyCheckpoints).is_none()); }
            CheckpointType::Account(a) => { assert(pget(w0, VotesStorageKey::NumCheckpoints(a)).is_none()); }
        }
    }
    assert forall|t: CheckpointType| #[trigger] seq_ok(w, t) by {
        assert(cp_num(w, t) == 0);
        assert forall|i: u32| (#[trigger] cp_at(w, t, i)).is_none() by { assert(pget(w0, cp_key(t, i)).is_none()); }
    }
    assert forall|t: CheckpointType, q: u32| #[trigger] past_value(w, t, q) == 0 by { assert(cp_num(w, t) == 0); }
    assert forall|t: CheckpointType| #[trigger] cp_latest(w, t) == 0 by { assert(cp_num(w, t) == 0); }
}

// ---- all histories ----
pub proof fn lemma_v_history(w0: World, steps: Seq<VOp>)
    requires v_genesis(w0), v_valid(w0, steps),
    ensures
        //@@ C13:history.inv
        inv_v(v_run(w0, steps)),
        //@@ C13:history.past_lookup_is_value_at_end_of_ledger
        forall|t: CheckpointType, q: u32| #[trigger] past_value(v_run(w0, steps), t, q) == hist_val(w0, steps, t, q),
    decreases steps.len()
{
    let w = v_run(w0, steps);
    if steps.len() == 0 {
        assert(steps =~= Seq::empty());
        lemma_v_genesis(w0);
        assert forall|t: CheckpointType, q: u32| #[trigger] past_value(w, t, q) == hist_val(w0, steps, t, q) by {
            assert(past_value(w, t, q) == 0);
            assert(cp_latest(w, t) == 0);
        }
    } else {
        let pre = steps.drop_last();
        let wp = v_run(w0, pre);
        lemma_v_history(w0, pre);
        lemma_vstep(wp, steps.last());
        assert forall|t: CheckpointType, q: u32| #[trigger] past_value(w, t, q) == hist_val(w0, steps, t, q) by {
            if w.ledger_seq <= q {
                assert(seq_ok(w, t));
                lemma_past_is_latest(w, t, q);
            } else {
                // the step ran in ledger w.ledger_seq > q or moved the ledger there
                assert(hist_val(w0, steps, t, q) == hist_val(w0, pre, t, q));
                assert(past_value(wp, t, q) == hist_val(w0, pre, t, q));
                if q < wp.ledger_seq {
                    assert(past_value(w, t, q) == past_value(wp, t, q));
                } else {
                    // only a Tick can move the ledger; it leaves the stores alone
                    assert(steps.last() is Tick);
                    lemma_inv_v_frame(wp, w);
                }
            }
        }
    }
}

pub proof fn lemma_v_valid_prefix(w0: World, steps: Seq<VOp>, k: int)
    requires v_valid(w0, steps), 0 <= k <= steps.len(),
    ensures v_valid(w0, steps.take(k)),
    decreases steps.len()
{
    if k == steps.len() { assert(steps.take(k) =~= steps); }
    else {
        lemma_v_valid_prefix(w0, steps.drop_last(), k);
        assert(steps.drop_last().take(k) =~= steps.take(k));
    }
}

/// no later step changes an answer about a past ledger: what a lookup for ledger q answered after the
/// first k steps (when q was already past) is what it answers after any continuation of the history
pub proof fn lemma_v_past_stable(w0: World, steps: Seq<VOp>, k: int)
    requires v_genesis(w0), v_valid(w0, steps), 0 <= k <= steps.len(),
    ensures
        v_run(w0, steps.take(k)).ledger_seq <= v_run(w0, steps).ledger_seq,
        //@@ C13:history.past_never_changes
        forall|t: CheckpointType, q: u32| q < v_run(w0, steps.take(k)).ledger_seq ==>
            #[trigger] past_value(v_run(w0, steps), t, q) == past_value(v_run(w0, steps.take(k)), t, q),
    decreases steps.len()
{
    if k == steps.len() { assert(steps.take(k) =~= steps); }
    else {
        let pre = steps.drop_last();
        let wp = v_run(w0, pre);
        let wk = v_run(w0, steps.take(k));
        assert(pre.take(k) =~= steps.take(k));
        lemma_v_past_stable(w0, pre, k);
        lemma_v_history(w0, pre);
        lemma_vstep(wp, steps.last());
        assert forall|t: CheckpointType, q: u32| q < wk.ledger_seq implies
            #[trigger] past_value(v_run(w0, steps), t, q) == past_value(wk, t, q) by {
            assert(past_value(wp, t, q) == past_value(wk, t, q));
        }
    }
}

// ---- non-vacuity witnesses: a genesis world exists, and a mint followed by a delegation and a
//      ledger advance is a valid history from it ----
pub open spec fn w_empty() -> World {
    World { instance: Map::empty(), persistent: Map::empty(), temporary: Map::empty(), temp_live: Map::empty(),
        ledger_seq: 7, timestamp: 0, max_entry_ttl: 10, min_temp_ttl: 1, network_id: Seq::empty(), this: Address { id: 0 },
        auths: Set::empty(), auth_args: Set::empty(), self_auths: Seq::empty(), events: Seq::empty(), calls: Seq::empty(), ext: 0 }
}
pub proof fn lemma_v_witness()
    ensures v_genesis(w_empty()),
        v_valid(w_empty(), seq![
            VOp::TransferUnits { src: None, dst: Some(Address { id: 1 }), amt: 5 },
            VOp::Delegate { acct: Address { id: 1 }, dele: Address { id: 2 } },
            VOp::Tick { seq: 9, ts: 1 }]),
{
    broadcast use sdk_store;
    let w0 = w_empty();
    let a1 = Address { id: 1 };
    let a2 = Address { id: 2 };
    let s3 = seq![VOp::TransferUnits { src: None, dst: Some(a1), amt: 5 }, VOp::Delegate { acct: a1, dele: a2 }, VOp::Tick { seq: 9, ts: 1 }];
    let s2 = s3.drop_last();
    let s1 = s2.drop_last();
    let s0 = s1.drop_last();
    assert(s0.len() == 0);
    assert(v_valid(w0, s0));
    let r0 = v_run(w0, s0);
    assert(r0.persistent == w0.persistent && r0.instance == w0.instance);
    // mint 5 to a1
    assert(s1.last() == VOp::TransferUnits { src: None, dst: Some(a1), amt: 5 });
    assert(cp_num(r0, t_total()) == 0);
    assert(push_guard(r0, t_total(), CheckpointOp::Add, 5));
    let m1 = xfer_from_post(r0, None, 5);
    assert(v_units(m1, a1) == 0);
    assert(xfer_guard(r0, None, Some(a1), 5));
    assert(v_valid(w0, s1));
    let r1 = v_run(w0, s1);
    // a1 delegates to a2
    assert(s2.last() == VOp::Delegate { acct: a1, dele: a2 });
    let x1 = xfer_post(r0, None, Some(a1), 5);
    assert(x1 == set_units_post(push_post(r0, t_total(), CheckpointOp::Add, 5), a1, 5));
    assert(r1.persistent == x1.persistent && r1.instance == x1.instance);
    assert(v_delegatee(r1, a1).is_none());
    assert(v_units(r1, a1) == 5);
    let p = delegate_pre(r1, a1, a2);
    assert(v_units(p, a1) == 5);
    assert(cp_num(p, t_acct(a2)) == 0);
    assert(push_guard(p, t_acct(a2), CheckpointOp::Add, 5));
    assert(delegate_guard(r1, a1, a2));
    assert(v_valid(w0, s2));
    // the ledger advances from 7 to 9
    assert(v_run(w0, s2).ledger_seq == 7);
    assert(v_valid(w0, s3));
}
