// =================================================================================================
// spec pack `nftvotes` (C13, NFT part) — NonFungibleVotes::* = the Base NFT operation followed by
// transfer_voting_units with 1 unit per token: voting units mirror NFT balances
// =================================================================================================
pub open spec fn nfv_post(w: World, op: NOp) -> World {
    let w1 = op_post(w, op);
    if is_update(op) { xfer_post(w1, op_from(op), op_to(op), 1) } else { w1 }
}
pub open spec fn nfv_guard(w: World, op: NOp) -> bool {
    &&& op_guard(w, op)
    &&& is_update(op) ==> xfer_guard(op_post(w, op), op_from(op), op_to(op), 1)
}

// ---- the two key families do not overlap ----
pub proof fn lemma_votes_vs_nft_key(vk: VotesStorageKey, k: NFTStorageKey)
    ensures vk.sv() != k.sv(),
{
    assert(sv_tag(vk.sv()) != sv_tag(k.sv()));
}
pub proof fn lemma_votes_key_not_nft(vk: VotesStorageKey)
    ensures !is_owner_key(vk.sv()), vk.sv() != k_ctr().sv(),
{
    lemma_votes_vs_nft_key(vk, k_owner(0));
    assert(sv_tag(vk.sv()) != sv_tag(k_owner(0).sv()));
    assert(sv_tag(vk.sv()) != sv_tag(k_ctr().sv()));
}
pub proof fn lemma_nft_key_not_votes(k: NFTStorageKey)
    ensures !is_units_key(k.sv()), !is_deleg_key(k.sv()),
{
    assert(sv_tag(k.sv()) != sv_tag(uk(Address { id: 0 })));
    assert(sv_tag(k.sv()) != sv_tag(dk(Address { id: 0 })));
}

// ---- the token view is untouched by votes writes ----
pub open spec fn nft_same(w: World, w2: World) -> bool {
    &&& w2.same_ledger(w)
    &&& w2.temporary == w.temporary && w2.temp_live == w.temp_live
    &&& forall|k: NFTStorageKey| #[trigger] pget(w2, k) == pget(w, k)
    &&& iget(w2, k_ctr()) == iget(w, k_ctr())
    &&& forall|a: Address| #[trigger] owned_count(w2, a) == owned_count(w, a)
}
pub proof fn lemma_ns_trans(w: World, w1: World, w2: World)
    requires nft_same(w, w1), nft_same(w1, w2),
    ensures nft_same(w, w2),
{
    assert forall|k: NFTStorageKey| #[trigger] pget(w2, k) == pget(w, k) by { assert(pget(w1, k) == pget(w, k)); }
    assert forall|a: Address| #[trigger] owned_count(w2, a) == owned_count(w, a) by { assert(owned_count(w1, a) == owned_count(w, a)); }
}
pub proof fn lemma_ns_views(w: World, w2: World)
    requires nft_same(w, w2),
    ensures
        forall|a: Address| #[trigger] bal(w2, a) == bal(w, a),
        forall|id: u32| #[trigger] cur_owner(w2, id) == cur_owner(w, id),
        forall|id: u32| #[trigger] appr_raw(w2, id) == appr_raw(w, id),
        forall|o: Address, s: Address| #[trigger] oper_raw(w2, o, s) == oper_raw(w, o, s),
        counter(w2) == counter(w),
        inv_own(w) ==> inv_own(w2),
{
    assert forall|a: Address| #[trigger] bal(w2, a) == bal(w, a) by { assert(pget(w2, k_bal(a)) == pget(w, k_bal(a))); }
    assert forall|id: u32| #[trigger] cur_owner(w2, id) == cur_owner(w, id) by { assert(pget(w2, k_owner(id)) == pget(w, k_owner(id))); }
    if inv_own(w) {
        assert forall|a: Address| (#[trigger] bal(w2, a)) as int == owned_count(w2, a) by { assert(bal(w, a) as int == owned_count(w, a)); }
    }
}
pub proof fn lemma_ns_pset(w: World, vk: VotesStorageKey, v: SV)
    ensures nft_same(w, pset(w, vk, v)), nft_same(w, pdel(w, vk)), nft_same(w, iset(w, vk, v)),
{
    lemma_votes_key_not_nft(vk);
    assert forall|k: NFTStorageKey| #[trigger] pget(pset(w, vk, v), k) == pget(w, k) by {
        lemma_votes_vs_nft_key(vk, k);
        lemma_pget_pset_other(w, vk, v, k);
    }
    assert forall|k: NFTStorageKey| #[trigger] pget(pdel(w, vk), k) == pget(w, k) by {
        lemma_votes_vs_nft_key(vk, k);
        lemma_pget_pset_other(w, vk, v, k);
    }
    assert forall|a: Address| #[trigger] owned_count(pset(w, vk, v), a) == owned_count(w, a) by {
        lemma_psum_insert(w.persistent, own_proj(a), vk.sv(), v);
    }
    assert forall|a: Address| #[trigger] owned_count(pdel(w, vk), a) == owned_count(w, a) by {
        lemma_psum_remove_key(w.persistent, own_proj(a), vk.sv());
    }
    lemma_iget_iset_other(w, vk, v, k_ctr());
}
pub proof fn lemma_ns_event(w: World, ev: SV)
    ensures nft_same(w, w_event(w, ev)),
{}
pub proof fn lemma_ns_push(w: World, t: CheckpointType, op: CheckpointOp, delta: u128)
    ensures nft_same(w, push_post(w, t, op, delta)),
{
    let n = cp_num(w, t);
    let c = push_cp(w, t, op, delta);
    if push_same_ledger(w, t) {
        lemma_ns_pset(w, cp_key(t, (n - 1) as u32), c.sv());
    } else {
        let w1 = pset(w, cp_key(t, n), c.sv());
        lemma_ns_pset(w, cp_key(t, n), c.sv());
        match t {
            CheckpointType::TotalSupply => { lemma_ns_pset(w1, VotesStorageKey::NumTotalSupplyCheckpoints, ((n + 1) as u32).sv()); }
            CheckpointType::Account(a) => { lemma_ns_pset(w1, VotesStorageKey::NumCheckpoints(a), ((n + 1) as u32).sv()); }
        }
        lemma_ns_trans(w, w1, push_post(w, t, op, delta));
    }
}
pub proof fn lemma_ns_move1(w: World, d: Option<Address>, op: CheckpointOp, amt: u128)
    ensures nft_same(w, move1_post(w, d, op, amt)),
{
    match d {
        Some(a) => {
            let w1 = push_post(w, t_acct(a), op, amt);
            lemma_ns_push(w, t_acct(a), op, amt);
            let ev = DelegateVotesChanged { delegate: a, previous_votes: cp_latest(w, t_acct(a)), new_votes: cp_apply(cp_latest(w, t_acct(a)), op, amt) as u128 }.ev();
            lemma_ns_event(w1, ev);
            lemma_ns_trans(w, w1, move1_post(w, d, op, amt));
        }
        None => {}
    }
}
pub proof fn lemma_ns_move(w: World, fd: Option<Address>, td: Option<Address>, amt: u128)
    ensures nft_same(w, move_post(w, fd, td, amt)),
{
    if !(amt == 0 || fd == td) {
        let w1 = move1_post(w, fd, CheckpointOp::Sub, amt);
        lemma_ns_move1(w, fd, CheckpointOp::Sub, amt);
        lemma_ns_move1(w1, td, CheckpointOp::Add, amt);
        lemma_ns_trans(w, w1, move_post(w, fd, td, amt));
    }
}
pub proof fn lemma_ns_xfer(w: World, from_a: Option<Address>, to_a: Option<Address>, amt: u128)
    ensures nft_same(w, xfer_post(w, from_a, to_a, amt)),
{
    if amt != 0 {
        let w1 = xfer_from_post(w, from_a, amt);
        let w2 = xfer_to_post(w1, to_a, amt);
        match from_a {
            Some(f) => { lemma_ns_pset(w, VotesStorageKey::VotingUnits(f), ((v_units(w, f) - amt) as u128).sv()); }
            None => { lemma_ns_push(w, t_total(), CheckpointOp::Add, amt); }
        }
        match to_a {
            Some(t) => { lemma_ns_pset(w1, VotesStorageKey::VotingUnits(t), ((v_units(w1, t) + amt) as u128).sv()); }
            None => { lemma_ns_push(w1, t_total(), CheckpointOp::Sub, amt); }
        }
        lemma_ns_trans(w, w1, w2);
        lemma_ns_move(w2, v_delegatee_opt(w, from_a), v_delegatee_opt(w, to_a), amt);
        lemma_ns_trans(w, w2, xfer_post(w, from_a, to_a, amt));
    }
}
pub proof fn lemma_ns_delegate(w: World, acct: Address, d: Address)
    ensures nft_same(w, delegate_post(w, acct, d)),
{
    let w1 = w_auth(w, acct);
    let w2 = pset(w1, VotesStorageKey::Delegatee(acct), d.sv());
    let ev = DelegateChanged { delegator: acct, from_delegate: v_delegatee(w, acct), to_delegate: d }.ev();
    let w3 = delegate_pre(w, acct, d);
    assert(nft_same(w, w1));
    lemma_ns_pset(w1, VotesStorageKey::Delegatee(acct), d.sv());
    lemma_ns_trans(w, w1, w2);
    lemma_ns_event(w2, ev);
    lemma_ns_trans(w, w2, w3);
    lemma_ns_move(w3, v_delegatee(w, acct), Some(d), v_units(w3, acct));
    lemma_ns_trans(w, w3, delegate_post(w, acct, d));
}

// ---- the votes view is untouched by token writes ----
pub open spec fn votes_same(w: World, w2: World) -> bool {
    &&& w2.ledger_seq == w.ledger_seq
    &&& forall|k: VotesStorageKey| #[trigger] pget(w2, k) == pget(w, k)
    &&& forall|k: VotesStorageKey| #[trigger] iget(w2, k) == iget(w, k)
    &&& sum_units(w2) == sum_units(w)
    &&& forall|d: Address| #[trigger] sum_deleg(w2, d) == sum_deleg(w, d)
}
pub proof fn lemma_vs_trans(w: World, w1: World, w2: World)
    requires votes_same(w, w1), votes_same(w1, w2),
    ensures votes_same(w, w2),
{
    assert forall|k: VotesStorageKey| #[trigger] pget(w2, k) == pget(w, k) by { assert(pget(w1, k) == pget(w, k)); }
    assert forall|k: VotesStorageKey| #[trigger] iget(w2, k) == iget(w, k) by { assert(iget(w1, k) == iget(w, k)); }
    assert forall|d: Address| #[trigger] sum_deleg(w2, d) == sum_deleg(w, d) by { assert(sum_deleg(w1, d) == sum_deleg(w, d)); }
}
pub proof fn lemma_vs_nostore(w: World, w2: World)
    requires w2.persistent == w.persistent, w2.instance == w.instance, w2.ledger_seq == w.ledger_seq,
    ensures votes_same(w, w2),
{}
/// removing an entry that is neither a voting-units nor a delegatee entry changes no sum
pub proof fn lemma_m_remove_other(m: Map<SV, SV>, k: SV, d: Address)
    requires !is_units_key(k), !is_deleg_key(k),
    ensures
        psum(m.remove(k), units_proj()) == psum(m, units_proj()),
        psum(m.remove(k), deleg_proj(m.remove(k), d)) == psum(m, deleg_proj(m, d)),
{
    let m2 = m.remove(k);
    let f = deleg_proj(m, d);
    let f2 = deleg_proj(m2, d);
    assert forall|a: Address| m_deleg(m2, a) == m_deleg(m, a) by { lemma_key_facts(a); }
    lemma_vpsum_ext(m2, f2, f);
    lemma_psum_remove_key(m, f, k);
    lemma_psum_remove_key(m, units_proj(), k);
}
/// a persistent write / removal at an NFT key
pub proof fn lemma_vs_nft_write(w: World, k: NFTStorageKey, v: SV)
    ensures votes_same(w, pset(w, k, v)), votes_same(w, pdel(w, k)),
{
    lemma_nft_key_not_votes(k);
    assert forall|vk: VotesStorageKey| #[trigger] pget(pset(w, k, v), vk) == pget(w, vk) by {
        lemma_votes_vs_nft_key(vk, k);
        lemma_pget_pset_other(w, k, v, vk);
    }
    assert forall|vk: VotesStorageKey| #[trigger] pget(pdel(w, k), vk) == pget(w, vk) by {
        lemma_votes_vs_nft_key(vk, k);
        lemma_pget_pset_other(w, k, v, vk);
    }
    lemma_m_write_other(w.persistent, k.sv(), v, Address { id: 0 });
    lemma_m_remove_other(w.persistent, k.sv(), Address { id: 0 });
    assert forall|d: Address| #[trigger] sum_deleg(pset(w, k, v), d) == sum_deleg(w, d) by { lemma_m_write_other(w.persistent, k.sv(), v, d); }
    assert forall|d: Address| #[trigger] sum_deleg(pdel(w, k), d) == sum_deleg(w, d) by { lemma_m_remove_other(w.persistent, k.sv(), d); }
}
pub proof fn lemma_vs_update(w: World, from_a: Option<Address>, to_a: Option<Address>, id: u32)
    ensures votes_same(w, update_post(w, from_a, to_a, id)),
{
    let w1 = match from_a {
        Some(a) => tdel(dec_bal_post(w, a, 1), k_appr(id)),
        None => w,
    };
    match from_a {
        Some(a) => {
            let wd = dec_bal_post(w, a, 1);
            lemma_vs_nft_write(w, k_bal(a), ((bal(w, a) - 1) as u32).sv());
            lemma_vs_nostore(wd, w1);
            lemma_vs_trans(w, wd, w1);
        }
        None => { lemma_vs_nostore(w, w1); }
    }
    match to_a {
        Some(b) => {
            let wi = inc_bal_post(w1, b, 1);
            lemma_vs_nft_write(w1, k_bal(b), ((bal(w1, b) + 1) as u32).sv());
            lemma_vs_nft_write(wi, k_owner(id), b.sv());
            lemma_vs_trans(w1, wi, update_post(w, from_a, to_a, id));
        }
        None => { lemma_vs_nft_write(w1, k_owner(id), SV::Void); }
    }
    lemma_vs_trans(w, w1, update_post(w, from_a, to_a, id));
}
pub proof fn lemma_vs_op(w: World, op: NOp)
    requires op_guard(w, op),
    ensures votes_same(w, op_post(w, op)),
{
    if is_update(op) {
        lemma_op_shape(w, op);
        let w1 = op_pre(w, op);
        let id = op_token(w, op).unwrap();
        assert(votes_same(w, w1)) by {
            match op {
                NOp::SeqMint { to } => {
                    assert forall|vk: VotesStorageKey| #[trigger] iget(w1, vk) == iget(w, vk) by {
                        lemma_votes_key_not_nft(vk);
                        lemma_iget_iset_other(w, k_ctr(), ((counter(w) + 1) as u32).sv(), vk);
                    }
                }
                _ => {}
            }
        }
        let w2 = update_post(w1, op_from(op), op_to(op), id);
        lemma_vs_update(w1, op_from(op), op_to(op), id);
        lemma_vs_trans(w, w1, w2);
        lemma_vs_nostore(w2, op_post(w, op));
        lemma_vs_trans(w, w2, op_post(w, op));
    } else {
        match op {
            NOp::Approve { approver, approved, id, live } => { lemma_vs_nostore(w, op_post(w, op)); }
            NOp::ApproveForAll { owner, operator, live } => { lemma_vs_nostore(w, op_post(w, op)); }
            _ => {}
        }
    }
}
/// inv_v and every observable of the votes view carry over
pub proof fn lemma_vs_inv(w: World, w2: World)
    requires votes_same(w, w2),
    ensures inv_v(w) ==> inv_v(w2),
        forall|a: Address| #[trigger] v_units(w2, a) == v_units(w, a),
        forall|a: Address| #[trigger] v_delegatee(w2, a) == v_delegatee(w, a),
        forall|t: CheckpointType| #[trigger] cp_latest(w2, t) == cp_latest(w, t),
        forall|t: CheckpointType, q: u32| #[trigger] past_value(w2, t, q) == past_value(w, t, q),
{
    assert forall|a: Address| #[trigger] v_units(w2, a) == v_units(w, a) by { assert(pget(w2, VotesStorageKey::VotingUnits(a)) == pget(w, VotesStorageKey::VotingUnits(a))); }
    assert forall|a: Address| #[trigger] v_delegatee(w2, a) == v_delegatee(w, a) by { assert(pget(w2, VotesStorageKey::Delegatee(a)) == pget(w, VotesStorageKey::Delegatee(a))); }
    assert forall|t: CheckpointType| true implies #[trigger] same_timeline(w, w2, t) by {
        assert forall|i: u32| #[trigger] cp_at(w2, t, i) == cp_at(w, t, i) by { assert(pget(w2, cp_key(t, i)) == pget(w, cp_key(t, i))); }
        match t {
            CheckpointType::TotalSupply => { assert(iget(w2, VotesStorageKey::NumTotalSupplyCheckpoints) == iget(w, VotesStorageKey::NumTotalSupplyCheckpoints)); }
            CheckpointType::Account(a) => { assert(pget(w2, VotesStorageKey::NumCheckpoints(a)) == pget(w, VotesStorageKey::NumCheckpoints(a))); }
        }
    }
    assert forall|t: CheckpointType| #[trigger] cp_latest(w2, t) == cp_latest(w, t) by { assert(same_timeline(w, w2, t)); lemma_timeline_frame(w, w2, t); }
    assert forall|t: CheckpointType, q: u32| #[trigger] past_value(w2, t, q) == past_value(w, t, q) by { assert(same_timeline(w, w2, t)); lemma_timeline_frame(w, w2, t); }
    if inv_v(w) {
        assert forall|t: CheckpointType| #[trigger] seq_ok(w2, t) by { assert(seq_ok(w, t)); assert(same_timeline(w, w2, t)); lemma_timeline_frame(w, w2, t); }
        assert forall|d: Address| #[trigger] cp_latest(w2, t_acct(d)) as int == sum_deleg(w2, d) by {
            assert(cp_latest(w, t_acct(d)) as int == sum_deleg(w, d));
            assert(cp_latest(w2, t_acct(d)) == cp_latest(w, t_acct(d)));
        }
        assert(cp_latest(w2, t_total()) == cp_latest(w, t_total()));
    }
}

// ---- the joint invariant: voting units == number of tokens held ----
pub open spec fn units_eq_bal(w: World) -> bool { forall|a: Address| #[trigger] v_units(w, a) as int == bal(w, a) as int }
/// C13 (NFT): inv_own (C10: balance == number of owned tokens), inv_v (votes), units(a) == balance(a)
pub open spec fn inv_nfv(w: World) -> bool { inv_own(w) && inv_v(w) && units_eq_bal(w) }

/// every NonFungibleVotes token operation (and every Base approval) keeps the joint invariant, and never changes an
/// answer about a past ledger. `op_assume`: a mint never names an id in use (the integrator's documented duty).
pub proof fn lemma_nfv_op(w: World, op: NOp)
    requires inv_nfv(w), nfv_guard(w, op), op_assume(w, op),
    ensures
        //@@ C13:lemma.nfv_units_equal_balance
        inv_nfv(nfv_post(w, op)),
        //@@ C13:lemma.nfv_keeps_past
        forall|t: CheckpointType, q: u32| q < w.ledger_seq ==> #[trigger] past_value(nfv_post(w, op), t, q) == past_value(w, t, q),
        //@@ C13:lemma.nfv_keeps_delegations
        forall|a: Address| #[trigger] v_delegatee(nfv_post(w, op), a) == v_delegatee(w, a),
        nfv_post(w, op).same_ledger(w),
{
    let w1 = op_post(w, op);
    let w2 = nfv_post(w, op);
    lemma_op_c10(w, op);
    lemma_vs_op(w, op);
    lemma_vs_inv(w, w1);
    if is_update(op) {
        let (f, t) = (op_from(op), op_to(op));
        lemma_xfer_inv(w1, f, t, 1);
        lemma_ns_xfer(w1, f, t, 1);
        lemma_ns_views(w1, w2);
        assert forall|a: Address| #[trigger] v_units(w2, a) as int == bal(w2, a) as int by {
            assert(v_units(w2, a) as int == v_units(w1, a) + xfer_units_delta(f, t, 1, a));
            assert(v_units(w1, a) == v_units(w, a));
            assert(v_units(w, a) as int == bal(w, a) as int);
            assert(bal(w1, a) as int == bal(w, a) - ind(f == Some(a)) + ind(t == Some(a)));
            assert(bal(w2, a) == bal(w1, a));
        }
        assert forall|t2: CheckpointType, q: u32| q < w.ledger_seq implies #[trigger] past_value(w2, t2, q) == past_value(w, t2, q) by {
            assert(past_value(w1, t2, q) == past_value(w, t2, q));
        }
        assert forall|a: Address| #[trigger] v_delegatee(w2, a) == v_delegatee(w, a) by { assert(v_delegatee(w1, a) == v_delegatee(w, a)); }
    } else {
        assert forall|a: Address| #[trigger] v_units(w2, a) as int == bal(w2, a) as int by {
            assert(v_units(w1, a) == v_units(w, a));
            assert(v_units(w, a) as int == bal(w, a) as int);
            assert(bal(w1, a) as int == bal(w, a));
        }
    }
}
/// `delegate` on a votes-enabled NFT keeps the joint invariant
pub proof fn lemma_nfv_delegate(w: World, acct: Address, d: Address)
    requires inv_nfv(w), delegate_guard(w, acct, d),
    ensures
        //@@ C13:lemma.nfv_delegate_inv
        inv_nfv(delegate_post(w, acct, d)),
{
    let w2 = delegate_post(w, acct, d);
    lemma_delegate_inv(w, acct, d);
    lemma_ns_delegate(w, acct, d);
    lemma_ns_views(w, w2);
    assert forall|a: Address| #[trigger] v_units(w2, a) as int == bal(w2, a) as int by {
        assert(v_units(w2, a) == v_units(w, a));
        assert(v_units(w, a) as int == bal(w, a) as int);
        assert(bal(w2, a) == bal(w, a));
    }
}

// ---- histories of a votes-enabled NFT ----
pub enum NJOp {
    /// mint / sequential_mint / transfer / transfer_from / burn / burn_from through NonFungibleVotes::*,
    /// approve / approve_for_all through Base
    Tok(NOp),
    Delegate { acct: Address, dele: Address },
    Tick { seq: u32, ts: u64 },
}
pub open spec fn njop_guard(w: World, op: NJOp) -> bool {
    match op {
        // `op_assume`: a mint never names an id in use (documented duty of the integrator, see specs/nft)
        NJOp::Tok(f) => nfv_guard(w, f) && op_assume(w, f) && w.auths =~= Set::empty(),
        NJOp::Delegate { acct, dele } => delegate_guard(w, acct, dele),
        NJOp::Tick { seq, ts } => seq >= w.ledger_seq,
    }
}
pub open spec fn njop_post(w: World, op: NJOp) -> World {
    match op {
        NJOp::Tok(f) => World { auths: Set::empty(), ..nfv_post(w, f) },
        NJOp::Delegate { acct, dele } => World { auths: Set::empty(), ..delegate_post(w, acct, dele) },
        NJOp::Tick { seq, ts } => World { ledger_seq: seq, timestamp: ts, auths: Set::empty(), auth_args: Set::empty(), ..w },
    }
}
pub open spec fn nj_run(w0: World, steps: Seq<NJOp>) -> World
    decreases steps.len()
{
    if steps.len() == 0 { World { auths: Set::empty(), ..w0 } } else { njop_post(nj_run(w0, steps.drop_last()), steps.last()) }
}
pub open spec fn nj_valid(w0: World, steps: Seq<NJOp>) -> bool
    decreases steps.len()
{
    steps.len() == 0 || (nj_valid(w0, steps.drop_last()) && njop_guard(nj_run(w0, steps.drop_last()), steps.last()))
}
/// deployment: no token entries, no votes entries
pub open spec fn nj_genesis(w0: World) -> bool {
    &&& forall|k: SV| w0.persistent.contains_key(k) ==> !is_owner_key(k)
    &&& forall|a: Address| (#[trigger] pget(w0, k_bal(a))).is_none()
    &&& v_genesis(w0)
}
pub open spec fn nj_hist_val(w0: World, steps: Seq<NJOp>, t: CheckpointType, q: u32) -> u128
    decreases steps.len()
{
    if nj_run(w0, steps).ledger_seq <= q { cp_latest(nj_run(w0, steps), t) }
    else if steps.len() == 0 { 0 }
    else { nj_hist_val(w0, steps.drop_last(), t, q) }
}

pub proof fn lemma_nfv_no_owner_keys(m: Map<SV, SV>, a: Address)
    requires forall|k: SV| m.contains_key(k) ==> !is_owner_key(k)
    ensures psum(m, own_proj(a)) == 0
    decreases m.dom().len()
{
    if m.dom().len() != 0 {
        let c = m.dom().choose();
        assert(m.contains_key(c));
        lemma_nfv_no_owner_keys(m.remove(c), a);
    }
}
pub proof fn lemma_inv_nfv_frame(w: World, w2: World)
    requires inv_nfv(w), w2.persistent == w.persistent, w2.instance == w.instance, w2.ledger_seq >= w.ledger_seq,
    ensures inv_nfv(w2), forall|t: CheckpointType, q: u32| #[trigger] past_value(w2, t, q) == past_value(w, t, q),
{
    lemma_inv_v_frame(w, w2);
    assert forall|a: Address| (#[trigger] bal(w2, a)) as int == owned_count(w2, a) by { assert(bal(w, a) as int == owned_count(w, a)); }
    assert forall|a: Address| #[trigger] v_units(w2, a) as int == bal(w2, a) as int by { assert(v_units(w, a) as int == bal(w, a) as int); assert(bal(w2, a) == bal(w, a)); }
}
pub proof fn lemma_njstep(w: World, op: NJOp)
    requires inv_nfv(w), njop_guard(w, op),
    ensures inv_nfv(njop_post(w, op)), njop_post(w, op).ledger_seq >= w.ledger_seq,
        !(op is Tick) ==> njop_post(w, op).ledger_seq == w.ledger_seq,
        forall|t: CheckpointType, q: u32| q < w.ledger_seq ==> #[trigger] past_value(njop_post(w, op), t, q) == past_value(w, t, q),
{
    let w2 = njop_post(w, op);
    match op {
        NJOp::Tok(f) => {
            let wm = nfv_post(w, f);
            lemma_nfv_op(w, f);
            lemma_inv_nfv_frame(wm, w2);
            assert forall|t: CheckpointType, q: u32| q < w.ledger_seq implies #[trigger] past_value(w2, t, q) == past_value(w, t, q) by {
                assert(past_value(wm, t, q) == past_value(w, t, q));
            }
        }
        NJOp::Delegate { acct, dele } => {
            let wm = delegate_post(w, acct, dele);
            lemma_nfv_delegate(w, acct, dele);
            lemma_delegate_inv(w, acct, dele);
            lemma_ns_delegate(w, acct, dele);
            lemma_inv_nfv_frame(wm, w2);
            assert forall|t: CheckpointType, q: u32| q < w.ledger_seq implies #[trigger] past_value(w2, t, q) == past_value(w, t, q) by {
                assert(past_value(wm, t, q) == past_value(w, t, q));
            }
        }
        NJOp::Tick { seq, ts } => { lemma_inv_nfv_frame(w, w2); }
    }
}
pub proof fn lemma_nj_genesis(w0: World)
    requires nj_genesis(w0),
    ensures inv_nfv(nj_run(w0, Seq::empty())),
        forall|t: CheckpointType, q: u32| #[trigger] past_value(nj_run(w0, Seq::empty()), t, q) == nj_hist_val(w0, Seq::empty(), t, q),
{
    let steps = Seq::<NJOp>::empty();
    let w = nj_run(w0, steps);
    lemma_v_genesis(w0);
    assert(w == v_run(w0, Seq::empty()));
    assert forall|a: Address| (#[trigger] bal(w, a)) as int == owned_count(w, a) by {
        lemma_nfv_no_owner_keys(w.persistent, a);
        assert(pget(w0, k_bal(a)).is_none());
    }
    assert forall|a: Address| #[trigger] v_units(w, a) as int == bal(w, a) as int by {
        assert(pget(w0, k_bal(a)).is_none());
        assert(pget(w0, VotesStorageKey::VotingUnits(a)).is_none());
    }
    assert forall|t: CheckpointType, q: u32| #[trigger] past_value(w, t, q) == nj_hist_val(w0, steps, t, q) by {
        assert(past_value(w, t, q) == 0);
        assert(cp_latest(w, t) == 0);
    }
}
pub proof fn lemma_nj_hist_point(w0: World, steps: Seq<NJOp>, t: CheckpointType, q: u32)
    requires nj_genesis(w0), nj_valid(w0, steps), steps.len() > 0,
        inv_nfv(nj_run(w0, steps.drop_last())),
        past_value(nj_run(w0, steps.drop_last()), t, q) == nj_hist_val(w0, steps.drop_last(), t, q),
    ensures past_value(nj_run(w0, steps), t, q) == nj_hist_val(w0, steps, t, q),
{
    let w = nj_run(w0, steps);
    let pre = steps.drop_last();
    let wp = nj_run(w0, pre);
    let op = steps.last();
    assert(njop_guard(wp, op));
    assert(w == njop_post(wp, op));
    lemma_njstep(wp, op);
    if w.ledger_seq <= q {
        assert(seq_ok(w, t));
        lemma_past_is_latest(w, t, q);
    } else {
        assert(nj_hist_val(w0, steps, t, q) == nj_hist_val(w0, pre, t, q));
        if q < wp.ledger_seq {
            assert(past_value(w, t, q) == past_value(wp, t, q));
        } else {
            assert(op is Tick);
            match op {
                NJOp::Tick { seq, ts } => { lemma_inv_nfv_frame(wp, w); }
                _ => {}
            }
        }
    }
}
/// C13 over all histories of a votes-enabled NFT: each account's voting units equal the number of tokens it holds
/// (which is the number of tokens `owner_of` reports for it, inv_own), the votes invariant holds, and a past lookup
/// answers the value at the end of that ledger
pub proof fn lemma_nj_history(w0: World, steps: Seq<NJOp>)
    requires nj_genesis(w0), nj_valid(w0, steps),
    ensures
        //@@ C13:history.nfv_units_equal_balance_and_votes_inv
        inv_nfv(nj_run(w0, steps)),
        //@@ C13:history.nfv_past_lookup_is_value_at_end_of_ledger
        forall|t: CheckpointType, q: u32| #[trigger] past_value(nj_run(w0, steps), t, q) == nj_hist_val(w0, steps, t, q),
    decreases steps.len()
{
    let w = nj_run(w0, steps);
    if steps.len() == 0 {
        lemma_nj_genesis(w0);
        assert(steps =~= Seq::empty());
    } else {
        let pre = steps.drop_last();
        let wp = nj_run(w0, pre);
        lemma_nj_history(w0, pre);
        lemma_njstep(wp, steps.last());
        assert forall|t: CheckpointType, q: u32| #[trigger] past_value(w, t, q) == nj_hist_val(w0, steps, t, q) by {
            lemma_nj_hist_point(w0, steps, t, q);
        }
    }
}
/// no later token operation, delegation or ledger advance changes an answer about a past ledger
pub proof fn lemma_nj_past_stable(w0: World, steps: Seq<NJOp>, k: int)
    requires nj_genesis(w0), nj_valid(w0, steps), 0 <= k <= steps.len(),
    ensures
        nj_run(w0, steps.take(k)).ledger_seq <= nj_run(w0, steps).ledger_seq,
        //@@ C13:history.nfv_past_never_changes
        forall|t: CheckpointType, q: u32| q < nj_run(w0, steps.take(k)).ledger_seq ==>
            #[trigger] past_value(nj_run(w0, steps), t, q) == past_value(nj_run(w0, steps.take(k)), t, q),
    decreases steps.len()
{
    if k == steps.len() { assert(steps.take(k) =~= steps); }
    else {
        let pre = steps.drop_last();
        let wp = nj_run(w0, pre);
        let wk = nj_run(w0, steps.take(k));
        assert(pre.take(k) =~= steps.take(k));
        lemma_nj_past_stable(w0, pre, k);
        lemma_nj_history(w0, pre);
        lemma_njstep(wp, steps.last());
        assert forall|t: CheckpointType, q: u32| q < wk.ledger_seq implies
            #[trigger] past_value(nj_run(w0, steps), t, q) == past_value(wk, t, q) by {
            assert(past_value(wp, t, q) == past_value(wk, t, q));
        }
    }
}

/// non-vacuity: a genesis world exists (`w_empty` of specs/votes) and minting a token through NonFungibleVotes is a
/// valid first step from it
pub proof fn lemma_nj_witness()
    ensures nj_genesis(w_empty()),
        nj_valid(w_empty(), seq![NJOp::Tok(NOp::SeqMint { to: Address { id: 1 } })]),
{
    broadcast use sdk_store;
    let w0 = w_empty();
    let a1 = Address { id: 1 };
    let op = NOp::SeqMint { to: a1 };
    let s1 = seq![NJOp::Tok(op)];
    let s0 = s1.drop_last();
    assert(s0.len() == 0);
    let r0 = nj_run(w0, s0);
    assert(r0.persistent == w0.persistent && r0.instance == w0.instance);
    assert(counter(r0) == 0 && bal(r0, a1) == 0 && cur_owner(r0, 0).is_none());
    assert(op_guard(r0, op));
    let w1 = op_post(r0, op);
    lemma_vs_op(r0, op);
    lemma_vs_inv(r0, w1);
    assert(cp_num(r0, t_total()) == 0);
    assert(cp_num(w1, t_total()) == 0) by {
        assert(iget(w1, VotesStorageKey::NumTotalSupplyCheckpoints) == iget(r0, VotesStorageKey::NumTotalSupplyCheckpoints));
    }
    assert(w1.ledger_seq == r0.ledger_seq);
    assert(push_guard(w1, t_total(), CheckpointOp::Add, 1));
    let m1 = xfer_from_post(w1, None, 1);
    assert(v_units(w1, a1) == 0);
    assert(v_units(m1, a1) == 0);
    assert(v_delegatee(w1, a1).is_none());
    assert(xfer_guard(w1, None, Some(a1), 1));
    assert(s1.last() == NJOp::Tok(op));
    assert(njop_guard(r0, s1.last()));
    assert(nj_valid(w0, s0));
    assert(nj_valid(w0, s1));
    assert(s1 =~= seq![NJOp::Tok(NOp::SeqMint { to: Address { id: 1 } })]);
}
