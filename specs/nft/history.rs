// =================================================================================================
// history level for the base NFT: every reachable state, compared with a plain ownership map
// (C10) and with a ledger of granted approvals (C11).
//
// ASSUMPTION built into `step_ok` (via `op_assume`): a mint never names an id that is in use. The
// source documents this as the integrator's duty (**IMPORTANT** notes on `Base::mint` and
// `Base::sequential_mint`); `lemma_seq_only` shows it is automatic when only sequential minting
// is used.
// =================================================================================================

pub enum NStep { Op(NOp), Tick { seq: u32, ts: u64 } }

pub open spec fn is_bal_key(k: SV) -> bool {
    match k { SV::Vec(s) => s.len() == 2 && s[0] == k_bal(Address { id: 0 }).sv()->Vec_0[0], _ => false }
}
pub open spec fn genesis(w: World) -> bool {
    &&& forall|k: SV| w.persistent.contains_key(k) ==> !is_owner_key(k) && !is_bal_key(k)
    &&& forall|k: SV| !w.temporary.contains_key(k)
    &&& !w.instance.contains_key(k_ctr().sv())
    &&& w.events.len() == 0
    &&& w.ledger_ok()
}
pub open spec fn step_ok(w: World, st: NStep) -> bool {
    match st {
        NStep::Op(op) => op_guard(w, op) && op_assume(w, op) && w.auths =~= Set::empty(),
        NStep::Tick { seq, ts } => seq >= w.ledger_seq,
    }
}
/// the same without the freshness assumption
pub open spec fn step_ok_na(w: World, st: NStep) -> bool {
    match st {
        NStep::Op(op) => op_guard(w, op) && w.auths =~= Set::empty(),
        NStep::Tick { seq, ts } => seq >= w.ledger_seq,
    }
}
pub open spec fn step_post(w: World, st: NStep) -> World {
    match st {
        // an operation runs in its own invocation; its authorizations do not outlive it
        NStep::Op(op) => World { auths: Set::empty(), ..op_post(w, op) },
        NStep::Tick { seq, ts } => World { ledger_seq: seq, timestamp: ts, auths: Set::empty(), auth_args: Set::empty(), ..w },
    }
}
pub open spec fn run(w0: World, steps: Seq<NStep>) -> World
    decreases steps.len()
{
    if steps.len() == 0 { World { auths: Set::empty(), ..w0 } } else { step_post(run(w0, steps.drop_last()), steps.last()) }
}
pub open spec fn valid(w0: World, steps: Seq<NStep>) -> bool
    decreases steps.len()
{
    steps.len() == 0 || (valid(w0, steps.drop_last()) && step_ok(run(w0, steps.drop_last()), steps.last()))
}
pub open spec fn valid_na(w0: World, steps: Seq<NStep>) -> bool
    decreases steps.len()
{
    steps.len() == 0 || (valid_na(w0, steps.drop_last()) && step_ok_na(run(w0, steps.drop_last()), steps.last()))
}

// ---- the reference model: a plain ownership map, an id counter, a ledger of grants ----
pub struct Grant { pub approved: Address, pub live: u32, pub owner: Address, pub approver: Address }
pub struct NModel {
    pub owner: Map<u32, Address>,
    pub next: int,
    pub grant: Map<u32, Grant>,
    pub oper: Map<(Address, Address), u32>,
    /// ids handed out by sequential minting, in order
    pub issued: Seq<u32>,
}
pub open spec fn m0() -> NModel {
    NModel { owner: Map::empty(), next: 0, grant: Map::empty(), oper: Map::empty(), issued: Seq::empty() }
}
pub open spec fn m_op(m: NModel, op: NOp) -> NModel {
    match op {
        NOp::Approve { approver, approved, id, live } => NModel {
            grant: if live == 0 { m.grant.remove(id) } else { m.grant.insert(id, Grant { approved: approved, live: live, owner: m.owner[id], approver: approver }) },
            ..m
        },
        NOp::ApproveForAll { owner, operator, live } => NModel {
            oper: if live == 0 { m.oper.remove((owner, operator)) } else { m.oper.insert((owner, operator), live) },
            ..m
        },
        _ => {
            let id = tok(m.next as u32, op).unwrap();
            NModel {
                owner: match op_to(op) { Some(b) => m.owner.insert(id, b), None => m.owner.remove(id) },
                next: m.next + (if op is SeqMint { 1int } else { 0 }),
                grant: if is_move(op) { m.grant.remove(id) } else { m.grant },
                issued: if op is SeqMint { m.issued.push(id) } else { m.issued },
                ..m
            }
        }
    }
}
pub open spec fn m_step(m: NModel, st: NStep) -> NModel {
    match st { NStep::Op(op) => m_op(m, op), NStep::Tick { seq, ts } => m }
}
pub open spec fn model(steps: Seq<NStep>) -> NModel
    decreases steps.len()
{
    if steps.len() == 0 { m0() } else { m_step(model(steps.drop_last()), steps.last()) }
}
pub open spec fn mget<K, V>(m: Map<K, V>, k: K) -> Option<V> { if m.contains_key(k) { Some(m[k]) } else { None } }

/// the contract state agrees with the reference model
pub open spec fn agrees(w: World, m: NModel) -> bool {
    // C10: owner_of is the plain ownership map; the counter is the number of sequential mints
    &&& forall|id: u32| #[trigger] cur_owner(w, id) == mget(m.owner, id)
    &&& counter(w) as int == m.next
    &&& m.issued.len() == m.next && forall|i: int| 0 <= i < m.issued.len() ==> #[trigger] m.issued[i] as int == i
    // C11: every stored approval is a recorded grant ...
    &&& forall|id: u32| (#[trigger] appr_raw(w, id)).is_some() ==> m.grant.contains_key(id)
            && m.grant[id].approved == appr_raw(w, id).unwrap().approved && m.grant[id].live == appr_raw(w, id).unwrap().live_until_ledger
    // ... made while the *current* owner already owned the token, by that owner or an operator of that owner
    &&& forall|id: u32| #[trigger] m.grant.contains_key(id) ==> m.owner.contains_key(id) && m.grant[id].owner == m.owner[id]
    &&& forall|o: Address, s: Address| (#[trigger] oper_raw(w, o, s)).is_some() ==> mget(m.oper, (o, s)) == oper_raw(w, o, s)
}

pub proof fn lemma_psum_no_owner_keys(m: Map<SV, SV>, a: Address)
    requires forall|k: SV| m.contains_key(k) ==> !is_owner_key(k)
    ensures psum(m, own_proj(a)) == 0
    decreases m.dom().len()
{
    if m.dom().len() != 0 {
        let c = m.dom().choose();
        assert(m.contains_key(c));
        lemma_psum_no_owner_keys(m.remove(c), a);
    }
}

pub proof fn lemma_genesis(w0: World)
    requires genesis(w0)
    ensures inv_own(run(w0, Seq::empty())), agrees(run(w0, Seq::empty()), m0()), run(w0, Seq::empty()).ledger_ok(),
{
    let w = run(w0, Seq::empty());
    assert forall|a: Address| (#[trigger] bal(w, a)) as int == owned_count(w, a) by {
        lemma_psum_no_owner_keys(w.persistent, a);
        assert(k_bal(a).sv()->Vec_0.len() == 2);
        assert(is_bal_key(k_bal(a).sv()));
    }
    assert forall|id: u32| #[trigger] cur_owner(w, id) == mget(m0().owner, id) by { lemma_owner_key_facts(id); }
}

/// frame: the views depend only on the stores and the ledger sequence
pub proof fn lemma_view_frame(w: World, w2: World)
    requires w2.same_storage(w), w2.ledger_seq == w.ledger_seq,
    ensures
        inv_own(w) ==> inv_own(w2),
        forall|m: NModel| agrees(w, m) ==> agrees(w2, m),
{
    assert forall|a: Address| (#[trigger] bal(w2, a)) == bal(w, a) && owned_count(w2, a) == owned_count(w, a) by {}
    assert forall|id: u32| #[trigger] cur_owner(w2, id) == cur_owner(w, id) by {}
    assert forall|id: u32| #[trigger] appr_raw(w2, id) == appr_raw(w, id) by {}
    assert forall|o: Address, s: Address| #[trigger] oper_raw(w2, o, s) == oper_raw(w, o, s) by {}
    assert(counter(w2) == counter(w));
    if inv_own(w) {
        assert forall|a: Address| (#[trigger] bal(w2, a)) as int == owned_count(w2, a) by { assert(bal(w, a) as int == owned_count(w, a)); }
    }
}

pub proof fn lemma_op_agrees(w: World, op: NOp, m: NModel)
    requires op_guard(w, op), op_assume(w, op), inv_own(w), agrees(w, m),
    ensures agrees(op_post(w, op), m_op(m, op)),
{
    lemma_op_c10(w, op);
    lemma_op_c11(w, op);
    let w2 = op_post(w, op);
    let m2 = m_op(m, op);
    assert(op_token(w, op) == tok(m.next as u32, op));
    assert forall|id: u32| #[trigger] cur_owner(w2, id) == mget(m2.owner, id) by {
        assert(cur_owner(w, id) == mget(m.owner, id));
    }
    assert forall|id: u32| (#[trigger] appr_raw(w2, id)).is_some() implies m2.grant.contains_key(id)
            && m2.grant[id].approved == appr_raw(w2, id).unwrap().approved && m2.grant[id].live == appr_raw(w2, id).unwrap().live_until_ledger by {
        if appr_raw(w2, id) == appr_raw(w, id) {
            assert(m.grant.contains_key(id));
            if is_move(op) && op_token(w, op) == Some(id) {} else if op is Approve && op_token(w, op) == Some(id) {
                let a = op->Approve_approver;
                lemma_approve_lifetime(w_auth(w, a), op->Approve_approved, id, op->Approve_live, w.ledger_seq);
                assert(appr_raw(w2, id) == appr_raw(appr_store(w_auth(w, a), op->Approve_approved, id, op->Approve_live), id));
            } else {}
        } else {
            assert(op_token(w, op) == Some(id));
            if is_move(op) {} else {
                let a = op->Approve_approver;
                lemma_approve_lifetime(w_auth(w, a), op->Approve_approved, id, op->Approve_live, w.ledger_seq);
                assert(appr_raw(w2, id) == appr_raw(appr_store(w_auth(w, a), op->Approve_approved, id, op->Approve_live), id));
            }
        }
    }
    assert forall|id: u32| #[trigger] m2.grant.contains_key(id) implies m2.owner.contains_key(id) && m2.grant[id].owner == m2.owner[id] by {
        assert(cur_owner(w, id) == mget(m.owner, id));
        assert(cur_owner(w2, id) == mget(m2.owner, id));
        if m.grant.contains_key(id) { assert(m.owner.contains_key(id) && m.grant[id].owner == m.owner[id]); }
        if is_update(op) && op_token(w, op) == Some(id) {
            // a move drops the grant; a mint meets no grant because the id is unused (op_assume)
            if is_mint(op) { assert(cur_owner(w, id).is_none()); assert(!m.grant.contains_key(id)); }
        }
    }
    assert forall|o: Address, s: Address| (#[trigger] oper_raw(w2, o, s)).is_some() implies mget(m2.oper, (o, s)) == oper_raw(w2, o, s) by {
        if oper_raw(w2, o, s) == oper_raw(w, o, s) {
            if op is ApproveForAll && op->ApproveForAll_owner == o && op->ApproveForAll_operator == s {
                lemma_operator_lifetime(w_auth(w, o), o, s, op->ApproveForAll_live, w.ledger_seq);
                assert(oper_raw(w2, o, s) == oper_raw(oper_store(w_auth(w, o), o, s, op->ApproveForAll_live), o, s));
            }
        } else {
            lemma_operator_lifetime(w_auth(w, o), o, s, op->ApproveForAll_live, w.ledger_seq);
            assert(oper_raw(w2, o, s) == oper_raw(oper_store(w_auth(w, o), o, s, op->ApproveForAll_live), o, s));
        }
    }
    assert forall|i: int| 0 <= i < m2.issued.len() implies #[trigger] m2.issued[i] as int == i by {
        if i < m.issued.len() { assert(m.issued[i] as int == i); }
    }
}

pub proof fn lemma_step(w: World, st: NStep, m: NModel)
    requires step_ok(w, st), w.ledger_ok(), inv_own(w), agrees(w, m),
    ensures inv_own(step_post(w, st)), agrees(step_post(w, st), m_step(m, st)), step_post(w, st).ledger_ok(),
        step_post(w, st).ledger_seq >= w.ledger_seq,
{
    let w2 = step_post(w, st);
    match st {
        NStep::Op(op) => {
            lemma_op_c10(w, op);
            lemma_op_agrees(w, op, m);
            lemma_view_frame(op_post(w, op), w2);
            assert(agrees(op_post(w, op), m_op(m, op)));
            assert(agrees(w2, m_op(m, op)));
        }
        NStep::Tick { seq, ts } => {
            lemma_time_only_expires(w, seq);
            let wt = at_ledger(w, seq);
            assert forall|a: Address| (#[trigger] bal(w2, a)) as int == owned_count(w2, a) by { assert(bal(w, a) as int == owned_count(w, a)); }
            assert forall|id: u32| #[trigger] cur_owner(w2, id) == cur_owner(w, id) by {}
            assert forall|id: u32| #[trigger] appr_raw(w2, id) == appr_raw(wt, id) by {}
            assert forall|o: Address, s: Address| #[trigger] oper_raw(w2, o, s) == oper_raw(wt, o, s) by {}
            assert(counter(w2) == counter(w));
            assert(agrees(w2, m));
        }
    }
}

/// what the model says about live approvals (C11 in the property's words)
pub open spec fn approvals_sound(w: World, m: NModel) -> bool {
    // a live per-token approval was granted during the current ownership of the token and is not expired
    &&& forall|id: u32| (#[trigger] cur_approved(w, id)).is_some() ==>
            m.grant.contains_key(id) && m.grant[id].approved == cur_approved(w, id).unwrap()
            && Some(m.grant[id].owner) == cur_owner(w, id) && w.ledger_seq <= m.grant[id].live
    // a live operator approval is the last one the owner itself gave to that operator, not expired, not revoked
    &&& forall|o: Address, s: Address| #[trigger] is_operator(w, o, s) ==> m.oper.contains_key((o, s)) && w.ledger_seq <= m.oper[(o, s)]
    // tokens without an owner have no approval
    &&& forall|id: u32| cur_owner(w, id).is_none() ==> (#[trigger] cur_approved(w, id)).is_none()
}

pub proof fn lemma_agrees_sound(w: World, m: NModel)
    requires agrees(w, m),
    ensures approvals_sound(w, m),
{
    assert forall|id: u32| (#[trigger] cur_approved(w, id)).is_some() implies
            m.grant.contains_key(id) && m.grant[id].approved == cur_approved(w, id).unwrap()
            && Some(m.grant[id].owner) == cur_owner(w, id) && w.ledger_seq <= m.grant[id].live by {
        assert(appr_raw(w, id).is_some());
        assert(cur_owner(w, id) == mget(m.owner, id));
    }
    assert forall|o: Address, s: Address| #[trigger] is_operator(w, o, s) implies m.oper.contains_key((o, s)) && w.ledger_seq <= m.oper[(o, s)] by {
        assert(oper_raw(w, o, s).is_some());
    }
    assert forall|id: u32| cur_owner(w, id).is_none() implies (#[trigger] cur_approved(w, id)).is_none() by {
        if cur_approved(w, id).is_some() {
            assert(appr_raw(w, id).is_some());
            assert(m.grant.contains_key(id));
            assert(cur_owner(w, id) == mget(m.owner, id));
        }
    }
}

pub proof fn lemma_history(w0: World, steps: Seq<NStep>)
    requires genesis(w0), valid(w0, steps),
    ensures
        //@@ C10:history.balance_is_number_of_owned_tokens
        inv_own(run(w0, steps)),
        //@@ C10:history.owner_of_equals_plain_ownership_map
        forall|id: u32| #[trigger] cur_owner(run(w0, steps), id) == mget(model(steps).owner, id),
        //@@ C10:history.sequential_ids_never_reused
        counter(run(w0, steps)) as int == model(steps).issued.len()
            && forall|i: int| 0 <= i < model(steps).issued.len() ==> #[trigger] model(steps).issued[i] as int == i,
        //@@ C11:history.approvals_sound
        approvals_sound(run(w0, steps), model(steps)),
        agrees(run(w0, steps), model(steps)),
        run(w0, steps).ledger_ok(),
    decreases steps.len()
{
    if steps.len() == 0 {
        lemma_genesis(w0);
    } else {
        let pre = steps.drop_last();
        lemma_history(w0, pre);
        lemma_step(run(w0, pre), steps.last(), model(pre));
    }
    lemma_agrees_sound(run(w0, steps), model(steps));
}

// ---- sequential minting alone never needs the freshness assumption ----
pub open spec fn no_explicit_mint(steps: Seq<NStep>) -> bool {
    forall|i: int| 0 <= i < steps.len() ==> !(#[trigger] steps[i] matches NStep::Op(NOp::Mint { .. }))
}
pub open spec fn below_ctr(w: World) -> bool {
    forall|id: u32| (#[trigger] cur_owner(w, id)).is_some() ==> id < counter(w)
}
pub proof fn lemma_seq_only(w0: World, steps: Seq<NStep>)
    requires genesis(w0), valid_na(w0, steps), no_explicit_mint(steps),
    ensures
        //@@ C10:history.sequential_ids_are_fresh
        valid(w0, steps),
        below_ctr(run(w0, steps)),
    decreases steps.len()
{
    if steps.len() == 0 {
        let w = run(w0, steps);
        assert forall|id: u32| (#[trigger] cur_owner(w, id)).is_none() by { lemma_owner_key_facts(id); }
    } else {
        let pre = steps.drop_last();
        assert(no_explicit_mint(pre)) by {
            assert forall|i: int| 0 <= i < pre.len() implies !(#[trigger] pre[i] matches NStep::Op(NOp::Mint { .. })) by { assert(pre[i] == steps[i]); }
        }
        lemma_seq_only(w0, pre);
        lemma_history(w0, pre);
        let wp = run(w0, pre);
        let st = steps.last();
        assert(st == steps[steps.len() - 1]);
        match st {
            NStep::Op(op) => {
                assert(!(op is Mint));
                assert(op_assume(wp, op));
                lemma_op_c10(wp, op);
                let w2 = step_post(wp, st);
                assert forall|id: u32| (#[trigger] cur_owner(w2, id)).is_some() implies id < counter(w2) by {
                    assert(cur_owner(w2, id) == cur_owner(op_post(wp, op), id));
                    assert(counter(w2) == counter(op_post(wp, op)));
                    if cur_owner(wp, id).is_some() { assert(id < counter(wp)); }
                }
            }
            NStep::Tick { seq, ts } => {
                let w2 = step_post(wp, st);
                assert forall|id: u32| (#[trigger] cur_owner(w2, id)).is_some() implies id < counter(w2) by {
                    assert(cur_owner(w2, id) == cur_owner(wp, id));
                    assert(counter(w2) == counter(wp));
                }
            }
        }
    }
}

// ---- non-vacuity: a genesis state exists, and a mint followed by a transfer is a valid history ----
pub open spec fn w_empty() -> World {
    World {
        instance: Map::empty(), persistent: Map::empty(), temporary: Map::empty(), temp_live: Map::empty(),
        ledger_seq: 10, timestamp: 0, max_entry_ttl: 1000, min_temp_ttl: 16, network_id: Seq::empty(),
        this: Address { id: 0 }, auths: Set::empty(), auth_args: Set::empty(), self_auths: Seq::empty(),
        events: Seq::empty(), calls: Seq::empty(), ext: 0,
    }
}
pub proof fn lemma_witness()
    ensures
        genesis(w_empty()),
        ({
            let a = Address { id: 1 }; let b = Address { id: 2 };
            let steps = seq![NStep::Op(NOp::SeqMint { to: a }), NStep::Op(NOp::Transfer { from: a, to: b, id: 0 })];
            valid(w_empty(), steps) && cur_owner(run(w_empty(), steps), 0) == Some(b) && bal(run(w_empty(), steps), b) == 1
        }),
{
    broadcast use sdk_store;
    let a = Address { id: 1 }; let b = Address { id: 2 };
    let s1 = NStep::Op(NOp::SeqMint { to: a });
    let s2 = NStep::Op(NOp::Transfer { from: a, to: b, id: 0 });
    let steps = seq![s1, s2];
    let w0 = w_empty();
    let e0 = Seq::<NStep>::empty();
    assert(steps.drop_last() =~= seq![s1]);
    assert(seq![s1].drop_last() =~= e0);
    assert(seq![s1].last() == s1);
    let r0 = run(w0, e0);
    assert(r0 == w0);
    assert(counter(r0) == 0);
    assert(bal(r0, a) == 0);
    assert(cur_owner(r0, 0) == None::<Address>);
    assert(step_ok(r0, s1));
    let r1 = run(w0, seq![s1]);
    assert(r1 == step_post(r0, s1));
    assert(cur_owner(r1, 0) == Some(a));
    assert(bal(r1, a) == 1);
    assert(bal(r1, b) == 0);
    assert(valid(w0, e0));
    assert(valid(w0, seq![s1]));
    assert(step_ok(r1, s2));
}
