// =================================================================================================
// spec pack `nft` — base non-fungible token (C10 ownership / balances, C11 authorization / approvals)
// Everything here is ghost; the executable text comes from /repo.
// =================================================================================================

// ---- typed keys ----
pub open spec fn k_owner(id: u32) -> NFTStorageKey { NFTStorageKey::Owner(id) }
pub open spec fn k_bal(a: Address) -> NFTStorageKey { NFTStorageKey::Balance(a) }
pub open spec fn k_appr(id: u32) -> NFTStorageKey { NFTStorageKey::Approval(id) }
pub open spec fn k_oper(o: Address, s: Address) -> NFTStorageKey { NFTStorageKey::ApprovalForAll(o, s) }
pub open spec fn k_ctr() -> NFTSequentialStorageKey { NFTSequentialStorageKey::TokenIdCounter }

// ---- abstract view ----
/// the owner entry of a token (None: never minted or burned)
pub open spec fn cur_owner(w: World, id: u32) -> Option<Address> { dec::<Address>(pget(w, k_owner(id))) }
/// what `Base::balance` reports
pub open spec fn bal(w: World, a: Address) -> u32 {
    match dec::<u32>(pget(w, k_bal(a))) { Some(b) => b, None => 0 }
}
/// the stored per-token approval entry; absent once its storage lifetime is over (M2)
pub open spec fn appr_raw(w: World, id: u32) -> Option<ApprovalData> { dec::<ApprovalData>(tget(w, k_appr(id))) }
/// the *live* approval of a token: entry present and its own live_until_ledger not passed
pub open spec fn cur_approved(w: World, id: u32) -> Option<Address> {
    match appr_raw(w, id) {
        Some(d) => if d.live_until_ledger < w.ledger_seq { None } else { Some(d.approved) },
        None => None,
    }
}
pub open spec fn oper_raw(w: World, o: Address, s: Address) -> Option<u32> { dec::<u32>(tget(w, k_oper(o, s))) }
/// `s` is a *live* operator for all tokens of `o`
pub open spec fn is_operator(w: World, o: Address, s: Address) -> bool {
    match oper_raw(w, o, s) { Some(l) => l >= w.ledger_seq, None => false }
}
/// C11: who may move token `id` of `owner`
pub open spec fn spender_ok(w: World, spender: Address, owner: Address, id: u32) -> bool {
    spender == owner || cur_approved(w, id) == Some(spender) || is_operator(w, owner, spender)
}
/// next id handed out by sequential minting
pub open spec fn counter(w: World) -> u32 {
    match dec::<u32>(iget(w, k_ctr())) { Some(c) => c, None => 0 }
}

// ---- world transformers ----
pub open spec fn opt_addr(o: Option<&Address>) -> Option<Address> {
    match o { Some(a) => Some(*a), None => None }
}

pub open spec fn inc_bal_post(w: World, a: Address, n: u32) -> World { pset(w, k_bal(a), ((bal(w, a) + n) as u32).sv()) }
pub open spec fn dec_bal_post(w: World, a: Address, n: u32) -> World { pset(w, k_bal(a), ((bal(w, a) - n) as u32).sv()) }

/// the whole successor state of `Base::update` (touched keys and frame)
pub open spec fn update_post(w: World, from: Option<Address>, to: Option<Address>, id: u32) -> World {
    let w1 = match from {
        Some(a) => tdel(dec_bal_post(w, a, 1), k_appr(id)),
        None => w,
    };
    match to {
        Some(b) => pset(inc_bal_post(w1, b, 1), k_owner(id), b.sv()),
        None => pdel(w1, k_owner(id)),
    }
}
/// when `Base::update` can return at all
pub open spec fn update_guard(w: World, from: Option<Address>, to: Option<Address>, id: u32) -> bool {
    let w1 = match from {
        Some(a) => tdel(dec_bal_post(w, a, 1), k_appr(id)),
        None => w,
    };
    &&& from.is_some() ==> cur_owner(w, id) == from && bal(w, from.unwrap()) >= 1
    &&& to.is_some() ==> bal(w1, to.unwrap()) < u32::MAX
}

/// `approve_for_owner`: stored entry, storage lifetime, event
pub open spec fn appr_store(w: World, approved: Address, id: u32, live: u32) -> World {
    if live == 0 { tdel(w, k_appr(id)) } else {
        text(tset(w, k_appr(id), ApprovalData { approved: approved, live_until_ledger: live }.sv()), k_appr(id),
            (live - w.ledger_seq) as u32, (live - w.ledger_seq) as u32)
    }
}
pub open spec fn live_guard(w: World, live: u32) -> bool {
    live != 0 ==> live >= w.ledger_seq && live as int <= w.max_live_until()
}
pub open spec fn approve_owner_post(w: World, approver: Address, approved: Address, id: u32, live: u32) -> World {
    w_event(appr_store(w, approved, id, live), Approve { approver: approver, token_id: id, approved: approved, live_until_ledger: live }.ev())
}
pub open spec fn approve_owner_guard(w: World, owner: Address, approver: Address, live: u32) -> bool {
    (approver == owner || is_operator(w, owner, approver)) && live_guard(w, live)
}
pub open spec fn oper_store(w: World, o: Address, s: Address, live: u32) -> World {
    if live == 0 { tdel(w, k_oper(o, s)) } else {
        text(tset(w, k_oper(o, s), live.sv()), k_oper(o, s), (live - w.ledger_seq) as u32, (live - w.ledger_seq) as u32)
    }
}

// ---- the public operations of the token as a relation on worlds ----
pub enum NOp {
    /// explicit id; the id being unused is the integrator's documented duty — see `op_assume`
    Mint { to: Address, id: u32 },
    SeqMint { to: Address },
    Transfer { from: Address, to: Address, id: u32 },
    TransferFrom { spender: Address, from: Address, to: Address, id: u32 },
    Burn { from: Address, id: u32 },
    BurnFrom { spender: Address, from: Address, id: u32 },
    Approve { approver: Address, approved: Address, id: u32, live: u32 },
    ApproveForAll { owner: Address, operator: Address, live: u32 },
}

/// what must have held for the call to return (proved on the extracted code)
pub open spec fn op_guard(w: World, op: NOp) -> bool {
    match op {
        NOp::Mint { to, id } => update_guard(w, None, Some(to), id),
        NOp::SeqMint { to } => counter(w) < u32::MAX && update_guard(w, None, Some(to), counter(w)),
        NOp::Transfer { from, to, id } => update_guard(w, Some(from), Some(to), id),
        NOp::TransferFrom { spender, from, to, id } => spender_ok(w, spender, from, id) && update_guard(w, Some(from), Some(to), id),
        NOp::Burn { from, id } => update_guard(w, Some(from), None, id),
        NOp::BurnFrom { spender, from, id } => spender_ok(w, spender, from, id) && update_guard(w, Some(from), None, id),
        NOp::Approve { approver, approved, id, live } =>
            cur_owner(w, id).is_some() && approve_owner_guard(w, cur_owner(w, id).unwrap(), approver, live),
        NOp::ApproveForAll { owner, operator, live } => live_guard(w, live),
    }
}

pub open spec fn op_post(w: World, op: NOp) -> World {
    match op {
        NOp::Mint { to, id } => w_event(update_post(w, None, Some(to), id), Mint { to: to, token_id: id }.ev()),
        NOp::SeqMint { to } =>
            w_event(update_post(iset(w, k_ctr(), ((counter(w) + 1) as u32).sv()), None, Some(to), counter(w)), Mint { to: to, token_id: counter(w) }.ev()),
        NOp::Transfer { from, to, id } =>
            w_event(update_post(w_auth(w, from), Some(from), Some(to), id), Transfer { from: from, to: to, token_id: id }.ev()),
        NOp::TransferFrom { spender, from, to, id } =>
            w_event(update_post(w_auth(w, spender), Some(from), Some(to), id), Transfer { from: from, to: to, token_id: id }.ev()),
        NOp::Burn { from, id } =>
            w_event(update_post(w_auth(w, from), Some(from), None, id), Burn { from: from, token_id: id }.ev()),
        NOp::BurnFrom { spender, from, id } =>
            w_event(update_post(w_auth(w, spender), Some(from), None, id), Burn { from: from, token_id: id }.ev()),
        NOp::Approve { approver, approved, id, live } => approve_owner_post(w_auth(w, approver), approver, approved, id, live),
        NOp::ApproveForAll { owner, operator, live } =>
            w_event(oper_store(w_auth(w, owner), owner, operator, live), ApproveForAll { owner: owner, operator: operator, live_until_ledger: live }.ev()),
    }
}
