// =================================================================================================
// step lemmas for the base NFT: C10 (balance == number of owned tokens, update touches exactly one
// token) and C11 (who can move a token / set an approval, approvals cleared, expiry).
// =================================================================================================

// ---- counting owner entries (C10) ----
pub open spec fn is_owner_key(k: SV) -> bool {
    match k { SV::Vec(s) => s.len() == 2 && s[0] == k_owner(0).sv()->Vec_0[0] && (s[1] is U32), _ => false }
}
/// 1 for an `Owner(id)` entry whose value is `a`, 0 for every other persistent entry
pub open spec fn own_proj(a: Address) -> spec_fn(SV, SV) -> int {
    |k: SV, v: SV| if is_owner_key(k) && <Address as ToSV>::unsv(v) == a { 1int } else { 0int }
}
/// number of tokens whose owner entry is `a`
pub open spec fn owned_count(w: World, a: Address) -> int { psum(w.persistent, own_proj(a)) }

/// C10 representation invariant: `balance(a)` equals the number of tokens `owner_of` reports for `a`
pub open spec fn inv_own(w: World) -> bool {
    forall|a: Address| (#[trigger] bal(w, a)) as int == owned_count(w, a)
}

pub proof fn lemma_owner_key_facts(id: u32)
    ensures is_owner_key(k_owner(id).sv()),
{
    assert(k_owner(id).sv()->Vec_0.len() == 2);
}
pub proof fn lemma_bal_key_not_owner(a: Address)
    ensures !is_owner_key(k_bal(a).sv()),
{
    assert(k_bal(a).sv()->Vec_0[1] is Addr);
}

/// the count equals the cardinality of the set of owner entries with value `a`
pub open spec fn owned_keys(m: Map<SV, SV>, a: Address) -> Set<SV> {
    m.dom().filter(|k: SV| own_proj(a)(k, m[k]) == 1)
}
pub proof fn lemma_count_is_cardinality(m: Map<SV, SV>, a: Address)
    ensures
        //@@ C10:lemma.count_is_cardinality
        psum(m, own_proj(a)) == owned_keys(m, a).len(),
    decreases m.dom().len()
{
    if m.dom().len() == 0 {
        assert(m.dom() =~= Set::empty());
        assert(owned_keys(m, a) =~= Set::empty());
    } else {
        let c = m.dom().choose();
        lemma_count_is_cardinality(m.remove(c), a);
        if own_proj(a)(c, m[c]) == 1 {
            assert(owned_keys(m, a) =~= owned_keys(m.remove(c), a).insert(c));
        } else {
            assert(owned_keys(m, a) =~= owned_keys(m.remove(c), a));
        }
    }
}

/// effect of the three kinds of persistent writes of this unit on the count
pub proof fn lemma_count_writes(w: World, a: Address)
    ensures
        forall|b: Address, v: SV| #[trigger] owned_count(pset(w, k_bal(b), v), a) == owned_count(w, a),
        forall|id: u32, b: Address| #[trigger] owned_count(pset(w, k_owner(id), b.sv()), a)
            == owned_count(w, a) + (if b == a { 1int } else { 0 }) - (if cur_owner(w, id) == Some(a) { 1int } else { 0 }),
        forall|id: u32| #[trigger] owned_count(pdel(w, k_owner(id)), a)
            == owned_count(w, a) - (if cur_owner(w, id) == Some(a) { 1int } else { 0 }),
{
    assert forall|b: Address, v: SV| #[trigger] owned_count(pset(w, k_bal(b), v), a) == owned_count(w, a) by {
        lemma_bal_key_not_owner(b);
        lemma_psum_insert(w.persistent, own_proj(a), k_bal(b).sv(), v);
    }
    assert forall|id: u32, b: Address| #[trigger] owned_count(pset(w, k_owner(id), b.sv()), a)
            == owned_count(w, a) + (if b == a { 1int } else { 0 }) - (if cur_owner(w, id) == Some(a) { 1int } else { 0 }) by {
        lemma_owner_key_facts(id);
        lemma_psum_insert(w.persistent, own_proj(a), k_owner(id).sv(), b.sv());
    }
    assert forall|id: u32| #[trigger] owned_count(pdel(w, k_owner(id)), a)
            == owned_count(w, a) - (if cur_owner(w, id) == Some(a) { 1int } else { 0 }) by {
        lemma_owner_key_facts(id);
        lemma_psum_remove_key(w.persistent, own_proj(a), k_owner(id).sv());
    }
}

pub open spec fn ind(b: bool) -> int { if b { 1 } else { 0 } }

/// the abstract effect of one `update` (C10: exactly `id` moves; C11: its approval is gone)
pub open spec fn upd_view(w: World, w2: World, from: Option<Address>, to: Option<Address>, id: u32) -> bool {
    &&& cur_owner(w2, id) == to
    &&& forall|id2: u32| id2 != id ==> #[trigger] cur_owner(w2, id2) == cur_owner(w, id2)
    &&& forall|a: Address| (#[trigger] bal(w2, a)) as int == bal(w, a) - ind(from == Some(a)) + ind(to == Some(a))
    &&& from.is_some() ==> appr_raw(w2, id).is_none()
    &&& from.is_none() ==> appr_raw(w2, id) == appr_raw(w, id)
    &&& forall|id2: u32| id2 != id ==> #[trigger] appr_raw(w2, id2) == appr_raw(w, id2)
    &&& forall|o: Address, s: Address| #[trigger] oper_raw(w2, o, s) == oper_raw(w, o, s)
    &&& w2.instance == w.instance && w2.events == w.events && w2.auths == w.auths && w2.same_ledger(w)
}

pub proof fn lemma_update_view(w: World, from: Option<Address>, to: Option<Address>, id: u32)
    requires update_guard(w, from, to, id),
    ensures
        //@@ C10+C11:lemma.update_view
        upd_view(w, update_post(w, from, to, id), from, to, id),
{
    broadcast use sdk_store;
    let w2 = update_post(w, from, to, id);
    assert forall|a: Address| (#[trigger] bal(w2, a)) as int == bal(w, a) - ind(from == Some(a)) + ind(to == Some(a)) by {}
}

/// C10 for one `update`: the invariant is kept — provided a mint uses an unused id
pub proof fn lemma_update_inv(w: World, from: Option<Address>, to: Option<Address>, id: u32)
    requires inv_own(w), update_guard(w, from, to, id),
        // the documented duty of the integrator: `mint` must not be given an id that is in use
        from.is_none() ==> cur_owner(w, id).is_none(),
    ensures
        //@@ C10:lemma.update_inv
        inv_own(update_post(w, from, to, id)),
{
    broadcast use sdk_store;
    let w2 = update_post(w, from, to, id);
    lemma_update_view(w, from, to, id);
    assert forall|a: Address| (#[trigger] bal(w2, a)) as int == owned_count(w2, a) by {
        assert(bal(w, a) as int == owned_count(w, a));
        let w1 = match from { Some(f) => tdel(dec_bal_post(w, f, 1), k_appr(id)), None => w };
        lemma_count_writes(w, a);
        assert(owned_count(w1, a) == owned_count(w, a)) by {
            match from { Some(f) => {
                let wd = dec_bal_post(w, f, 1);
                assert(owned_count(wd, a) == owned_count(w, a));
                assert(w1.persistent == wd.persistent);
            } None => {} }
        }
        assert(cur_owner(w1, id) == cur_owner(w, id));
        lemma_count_writes(w1, a);
        match to {
            Some(b) => {
                let w1b = inc_bal_post(w1, b, 1);
                assert(owned_count(w1b, a) == owned_count(w1, a));
                assert(cur_owner(w1b, id) == cur_owner(w1, id));
                lemma_count_writes(w1b, a);
            }
            None => {}
        }
    }
}

// ---- C11: approvals are expiry-aware and cannot outlive what was asked for ----
pub open spec fn at_ledger(w: World, seq: u32) -> World { World { ledger_seq: seq, ..w } }

pub proof fn lemma_approve_lifetime(w: World, approved: Address, id: u32, live: u32, seq2: u32)
    requires live_guard(w, live), seq2 >= w.ledger_seq,
    ensures
        //@@ C11:lemma.approval_live_exactly_until
        cur_approved(at_ledger(appr_store(w, approved, id, live), seq2), id)
            == (if live != 0 && seq2 <= live { Some(approved) } else { None }),
        appr_raw(appr_store(w, approved, id, live), id)
            == (if live != 0 { Some(ApprovalData { approved: approved, live_until_ledger: live }) } else { None }),
        forall|id2: u32| id2 != id ==> #[trigger] appr_raw(appr_store(w, approved, id, live), id2) == appr_raw(w, id2),
        forall|o: Address, s: Address| #[trigger] oper_raw(appr_store(w, approved, id, live), o, s) == oper_raw(w, o, s),
{
    broadcast use sdk_store;
    let d = ApprovalData { approved: approved, live_until_ledger: live };
    if live != 0 {
        let w1 = tset(w, k_appr(id), d.sv());
        assert(tget(w1, k_appr(id)) == Some(d.sv()));
        let w2 = appr_store(w, approved, id, live);
        assert(tlive(w2, k_appr(id)) >= live);
        assert(w2.temporary[k_appr(id).sv()] == d.sv());
        let w3 = at_ledger(w2, seq2);
        if seq2 <= live {
            assert(w3.temp_has(k_appr(id).sv()));
            assert(appr_raw(w3, id) == Some(d));
        }
    }
}

pub proof fn lemma_operator_lifetime(w: World, o: Address, s: Address, live: u32, seq2: u32)
    requires live_guard(w, live), seq2 >= w.ledger_seq,
    ensures
        //@@ C11:lemma.operator_live_exactly_until
        is_operator(at_ledger(oper_store(w, o, s, live), seq2), o, s) == (live != 0 && seq2 <= live),
        oper_raw(oper_store(w, o, s, live), o, s) == (if live != 0 { Some(live) } else { None }),
        forall|o2: Address, s2: Address| !(o2 == o && s2 == s) ==> #[trigger] oper_raw(oper_store(w, o, s, live), o2, s2) == oper_raw(w, o2, s2),
        forall|id: u32| #[trigger] appr_raw(oper_store(w, o, s, live), id) == appr_raw(w, id),
{
    broadcast use sdk_store;
    if live != 0 {
        let w1 = tset(w, k_oper(o, s), live.sv());
        assert(tget(w1, k_oper(o, s)) == Some(live.sv()));
        let w2 = oper_store(w, o, s, live);
        assert(tlive(w2, k_oper(o, s)) >= live);
        assert(w2.temporary[k_oper(o, s).sv()] == live.sv());
        let w3 = at_ledger(w2, seq2);
        if seq2 <= live {
            assert(w3.temp_has(k_oper(o, s).sv()));
            assert(oper_raw(w3, o, s) == Some(live));
        }
    }
}

/// the passing of time alone never creates or revives an approval
pub proof fn lemma_time_only_expires(w: World, seq2: u32)
    requires seq2 >= w.ledger_seq,
    ensures
        //@@ C11:lemma.time_only_expires
        forall|id: u32| (#[trigger] cur_approved(at_ledger(w, seq2), id)).is_some() ==> cur_approved(at_ledger(w, seq2), id) == cur_approved(w, id),
        forall|o: Address, s: Address| #[trigger] is_operator(at_ledger(w, seq2), o, s) ==> is_operator(w, o, s),
        forall|id: u32| (#[trigger] appr_raw(at_ledger(w, seq2), id)).is_some() ==> appr_raw(at_ledger(w, seq2), id) == appr_raw(w, id),
        forall|o: Address, s: Address| (#[trigger] oper_raw(at_ledger(w, seq2), o, s)).is_some() ==> oper_raw(at_ledger(w, seq2), o, s) == oper_raw(w, o, s),
{
}

// ---- C11: one public operation ----
/// the account whose `require_auth` the operation performs
pub open spec fn op_actor(op: NOp) -> Option<Address> {
    match op {
        NOp::Mint { to, id } => None,
        NOp::SeqMint { to } => None,
        NOp::Transfer { from, to, id } => Some(from),
        NOp::TransferFrom { spender, from, to, id } => Some(spender),
        NOp::Burn { from, id } => Some(from),
        NOp::BurnFrom { spender, from, id } => Some(spender),
        NOp::Approve { approver, approved, id, live } => Some(approver),
        NOp::ApproveForAll { owner, operator, live } => Some(owner),
    }
}
/// ASSUMPTION of the history relation (documented in the source as the integrator's duty, see the
/// **IMPORTANT** notes on `Base::mint` / `Base::sequential_mint`): a mint never names an id in use.
pub open spec fn op_assume(w: World, op: NOp) -> bool {
    match op {
        NOp::Mint { to, id } => cur_owner(w, id).is_none(),
        NOp::SeqMint { to } => cur_owner(w, counter(w)).is_none(),
        _ => true,
    }
}
/// the token an operation acts on (`c`: the sequential counter before the call)
pub open spec fn tok(c: u32, op: NOp) -> Option<u32> {
    match op {
        NOp::Mint { to, id } => Some(id),
        NOp::SeqMint { to } => Some(c),
        NOp::Transfer { from, to, id } => Some(id),
        NOp::TransferFrom { spender, from, to, id } => Some(id),
        NOp::Burn { from, id } => Some(id),
        NOp::BurnFrom { spender, from, id } => Some(id),
        NOp::Approve { approver, approved, id, live } => Some(id),
        NOp::ApproveForAll { owner, operator, live } => None,
    }
}
pub open spec fn op_token(w: World, op: NOp) -> Option<u32> { tok(counter(w), op) }
pub open spec fn op_from(op: NOp) -> Option<Address> {
    match op {
        NOp::Transfer { from, to, id } => Some(from),
        NOp::TransferFrom { spender, from, to, id } => Some(from),
        NOp::Burn { from, id } => Some(from),
        NOp::BurnFrom { spender, from, id } => Some(from),
        _ => None,
    }
}
pub open spec fn op_to(op: NOp) -> Option<Address> {
    match op {
        NOp::Mint { to, id } => Some(to),
        NOp::SeqMint { to } => Some(to),
        NOp::Transfer { from, to, id } => Some(to),
        NOp::TransferFrom { spender, from, to, id } => Some(to),
        _ => None,
    }
}
pub open spec fn is_move(op: NOp) -> bool { op_from(op).is_some() }
pub open spec fn is_mint(op: NOp) -> bool { op is Mint || op is SeqMint }
pub open spec fn is_update(op: NOp) -> bool { is_move(op) || is_mint(op) }

/// world just before the `update` of a minting / moving operation
pub open spec fn op_pre(w: World, op: NOp) -> World {
    match op {
        NOp::SeqMint { to } => iset(w, k_ctr(), ((counter(w) + 1) as u32).sv()),
        NOp::Mint { to, id } => w,
        _ => w_auth(w, op_actor(op).unwrap()),
    }
}

/// shape of every minting / moving operation: authorization, one `update`, one event
pub proof fn lemma_op_shape(w: World, op: NOp)
    requires op_guard(w, op), is_update(op),
    ensures
        update_guard(op_pre(w, op), op_from(op), op_to(op), op_token(w, op).unwrap()),
        op_post(w, op).events.len() == w.events.len() + 1,
        op_post(w, op) == w_event(update_post(op_pre(w, op), op_from(op), op_to(op), op_token(w, op).unwrap()), op_post(w, op).events.last()),
        forall|id: u32| #[trigger] cur_owner(op_pre(w, op), id) == cur_owner(w, id),
        forall|a: Address| #[trigger] bal(op_pre(w, op), a) == bal(w, a),
        forall|id: u32| #[trigger] appr_raw(op_pre(w, op), id) == appr_raw(w, id),
        forall|o: Address, s: Address| #[trigger] oper_raw(op_pre(w, op), o, s) == oper_raw(w, o, s),
        op_pre(w, op).persistent == w.persistent,
        op_pre(w, op).same_ledger(w),
{
}

/// abstract effect of any operation on ownership, balances and the id counter (C10)
pub proof fn lemma_op_view(w: World, op: NOp)
    requires op_guard(w, op),
    ensures
        //@@ C10:lemma.op_moves_exactly_one_token
        forall|id: u32| #[trigger] cur_owner(op_post(w, op), id)
            == (if is_update(op) && op_token(w, op) == Some(id) { op_to(op) } else { cur_owner(w, id) }),
        //@@ C10:lemma.op_balances
        forall|a: Address| (#[trigger] bal(op_post(w, op), a)) as int
            == bal(w, a) - ind(is_update(op) && op_from(op) == Some(a)) + ind(is_update(op) && op_to(op) == Some(a)),
        //@@ C10:lemma.op_owner_was_from
        is_move(op) ==> cur_owner(w, op_token(w, op).unwrap()) == op_from(op) && bal(w, op_from(op).unwrap()) >= 1,
        //@@ C10:lemma.op_counter
        counter(op_post(w, op)) == (if op is SeqMint { (counter(w) + 1) as u32 } else { counter(w) }),
        op is SeqMint ==> counter(w) < u32::MAX,
        op_post(w, op).same_ledger(w),
{
    broadcast use sdk_store;
    let w2 = op_post(w, op);
    if is_update(op) {
        lemma_op_shape(w, op);
        let wp = op_pre(w, op);
        let id = op_token(w, op).unwrap();
        lemma_update_view(wp, op_from(op), op_to(op), id);
        let wu = update_post(wp, op_from(op), op_to(op), id);
        assert(w2.persistent == wu.persistent);
        assert(w2.instance == wu.instance);
        assert forall|i2: u32| #[trigger] cur_owner(w2, i2) == (if op_token(w, op) == Some(i2) { op_to(op) } else { cur_owner(w, i2) }) by {
            assert(cur_owner(w2, i2) == cur_owner(wu, i2));
            if i2 != id { assert(cur_owner(wu, i2) == cur_owner(wp, i2)); }
        }
        assert forall|a: Address| (#[trigger] bal(w2, a)) as int == bal(w, a) - ind(op_from(op) == Some(a)) + ind(op_to(op) == Some(a)) by {
            assert(bal(w2, a) == bal(wu, a));
            assert(bal(wp, a) == bal(w, a));
        }
    } else {
        assert(w2.persistent == w.persistent);
        assert(w2.instance == w.instance);
    }
}

/// C10 for one operation: the invariant is kept (under the freshness assumption for mints)
pub proof fn lemma_op_c10(w: World, op: NOp)
    requires op_guard(w, op), op_assume(w, op), inv_own(w),
    ensures
        //@@ C10:lemma.op_inv
        inv_own(op_post(w, op)),
        forall|id: u32| #[trigger] cur_owner(op_post(w, op), id)
            == (if is_update(op) && op_token(w, op) == Some(id) { op_to(op) } else { cur_owner(w, id) }),
        forall|a: Address| (#[trigger] bal(op_post(w, op), a)) as int
            == bal(w, a) - ind(is_update(op) && op_from(op) == Some(a)) + ind(is_update(op) && op_to(op) == Some(a)),
        is_move(op) ==> cur_owner(w, op_token(w, op).unwrap()) == op_from(op),
        counter(op_post(w, op)) == (if op is SeqMint { (counter(w) + 1) as u32 } else { counter(w) }),
        op is SeqMint ==> counter(w) < u32::MAX,
        op_post(w, op).same_ledger(w),
{
    lemma_op_view(w, op);
    let w2 = op_post(w, op);
    if is_update(op) {
        lemma_op_shape(w, op);
        let wp = op_pre(w, op);
        let id = op_token(w, op).unwrap();
        assert(inv_own(wp)) by {
            assert forall|a: Address| (#[trigger] bal(wp, a)) as int == owned_count(wp, a) by { assert(bal(w, a) as int == owned_count(w, a)); }
        }
        lemma_update_inv(wp, op_from(op), op_to(op), id);
        let wu = update_post(wp, op_from(op), op_to(op), id);
        assert(w2.persistent == wu.persistent);
        assert forall|a: Address| (#[trigger] bal(w2, a)) as int == owned_count(w2, a) by { assert(bal(wu, a) as int == owned_count(wu, a)); }
    } else {
        assert(w2.persistent == w.persistent) by {
            match op {
                NOp::Approve { approver, approved, id, live } => {}
                NOp::ApproveForAll { owner, operator, live } => {}
                _ => {}
            }
        }
        assert forall|a: Address| (#[trigger] bal(w2, a)) as int == owned_count(w2, a) by { assert(bal(w, a) as int == owned_count(w, a)); }
    }
}

/// C11 for one operation
pub proof fn lemma_op_c11(w: World, op: NOp)
    requires op_guard(w, op), op_assume(w, op),
    ensures
        //@@ C11:lemma.op_actor_authorized
        op_actor(op).is_some() ==> op_post(w, op).auths.contains(op_actor(op).unwrap()),
        //@@ C11:lemma.move_only_by_owner_approved_or_live_operator
        forall|id: u32| cur_owner(w, id).is_some() && #[trigger] cur_owner(op_post(w, op), id) != cur_owner(w, id) ==>
            is_move(op) && op_token(w, op) == Some(id) && op_from(op) == cur_owner(w, id)
            && spender_ok(w, op_actor(op).unwrap(), cur_owner(w, id).unwrap(), id),
        //@@ C11:lemma.transfer_and_burn_need_owner_auth
        (op is Transfer || op is Burn) ==> op_actor(op) == cur_owner(w, op_token(w, op).unwrap()),
        //@@ C11:lemma.spender_needs_live_approval
        (op is TransferFrom || op is BurnFrom) ==> spender_ok(w, op_actor(op).unwrap(), op_from(op).unwrap(), op_token(w, op).unwrap())
            && cur_owner(w, op_token(w, op).unwrap()) == op_from(op),
        //@@ C11:lemma.move_clears_approval
        is_move(op) ==> appr_raw(op_post(w, op), op_token(w, op).unwrap()).is_none() && cur_approved(op_post(w, op), op_token(w, op).unwrap()).is_none(),
        //@@ C11:lemma.approval_set_only_by_owner_or_live_operator
        forall|id: u32| (#[trigger] appr_raw(op_post(w, op), id)) != appr_raw(w, id) ==>
            op_token(w, op) == Some(id) && (is_move(op) || (op is Approve && cur_owner(w, id).is_some()
                && (op_actor(op) == cur_owner(w, id) || is_operator(w, cur_owner(w, id).unwrap(), op_actor(op).unwrap())))),
        //@@ C11:lemma.operator_set_only_by_owner
        forall|o: Address, s: Address| (#[trigger] oper_raw(op_post(w, op), o, s)) != oper_raw(w, o, s) ==>
            op is ApproveForAll && op_actor(op) == Some(o) && op->ApproveForAll_operator == s,
{
    broadcast use sdk_store;
    let w2 = op_post(w, op);
    if is_update(op) {
        lemma_op_shape(w, op);
        let wp = op_pre(w, op);
        let id = op_token(w, op).unwrap();
        lemma_update_view(wp, op_from(op), op_to(op), id);
        let wu = update_post(wp, op_from(op), op_to(op), id);
        assert(w2.persistent == wu.persistent && w2.temporary == wu.temporary && w2.temp_live == wu.temp_live && w2.same_ledger(wu));
        assert forall|i2: u32| #[trigger] appr_raw(w2, i2) == appr_raw(wu, i2) by {}
        assert forall|i2: u32| #[trigger] cur_owner(w2, i2) == cur_owner(wu, i2) by {}
        assert forall|o: Address, s: Address| #[trigger] oper_raw(w2, o, s) == oper_raw(wu, o, s) by {}
        assert forall|i2: u32| (#[trigger] appr_raw(w2, i2)) != appr_raw(w, i2) implies op_token(w, op) == Some(i2) && is_move(op) by {
            if i2 != id { assert(appr_raw(wu, i2) == appr_raw(wp, i2)); }
        }
        assert forall|i2: u32| cur_owner(w, i2).is_some() && #[trigger] cur_owner(w2, i2) != cur_owner(w, i2) implies
            is_move(op) && op_token(w, op) == Some(i2) && op_from(op) == cur_owner(w, i2)
            && spender_ok(w, op_actor(op).unwrap(), cur_owner(w, i2).unwrap(), i2) by {
            if i2 != id { assert(cur_owner(wu, i2) == cur_owner(wp, i2)); }
        }
    } else {
        match op {
            NOp::Approve { approver, approved, id, live } => {
                lemma_approve_lifetime(w_auth(w, approver), approved, id, live, w.ledger_seq);
                let ws = appr_store(w_auth(w, approver), approved, id, live);
                assert forall|i2: u32| #[trigger] appr_raw(w2, i2) == appr_raw(ws, i2) by {}
                assert forall|o: Address, s: Address| #[trigger] oper_raw(w2, o, s) == oper_raw(ws, o, s) by {}
                assert(w2.persistent == w.persistent);
            }
            NOp::ApproveForAll { owner, operator, live } => {
                lemma_operator_lifetime(w_auth(w, owner), owner, operator, live, w.ledger_seq);
                let ws = oper_store(w_auth(w, owner), owner, operator, live);
                assert forall|i2: u32| #[trigger] appr_raw(w2, i2) == appr_raw(ws, i2) by {}
                assert forall|o: Address, s: Address| #[trigger] oper_raw(w2, o, s) == oper_raw(ws, o, s) by {}
                assert(w2.persistent == w.persistent);
            }
            _ => {}
        }
    }
}
