// expanded fungible-votes example (C13 wiring through `type ContractType = FungibleVotes`, C06 owner-only mint)
