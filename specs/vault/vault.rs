// =================================================================================================
// spec pack `vault` — packages/tokens/src/vault (C05; the share-token side reuses specs/fungible: C01, C02)
//
//   A  = total assets  = the asset token's answer to `balance(vault)`      (a cross-contract call, M8)
//   S  = total shares  = supply(w) of the fungible base                     (specs/fungible/fungible.rs)
//   A' = A + 1,  S' = S + 10^offset                                         (virtual asset / virtual shares)
//
// Part 1: exact successor states of every vault function (used by contracts.vspec).
// Part 2: the rounding / rate lemmas over the integers (division-free, oracle of specs/math/math.rs).
// Part 3: the SEP-41 hypothesis made explicit and the step lemmas that connect Part 1 to Part 2.
// Part 4: history lemma: the rate (A+1)/(S+10^off) never decreases along any trace of operations.
// Everything here is ghost and nothing is trusted.
// =================================================================================================

// ---- views ----
pub open spec fn pow10(n: nat) -> int { vstd::arithmetic::power::pow(10, n) }
pub open spec fn cur_asset(w: World) -> Option<Address> { dec::<Address>(iget(w, VaultStorageKey::AssetAddress)) }
/// the virtual decimals offset (absent = 0)
pub open spec fn cur_offset(w: World) -> u32 {
    match dec::<u32>(iget(w, VaultStorageKey::VirtualDecimalsOffset)) { Some(o) => o, None => 0u32 }
}
pub open spec fn offset_is_set(w: World) -> bool { iget(w, VaultStorageKey::VirtualDecimalsOffset).is_some() }
/// S' = total share supply + 10^offset
pub open spec fn virt_shares(w: World) -> int { supply(w) + pow10(cur_offset(w) as nat) }

// ---- cross-contract calls to the asset token, as recorded in `calls` ----
pub open spec fn mk_call(callee: Address, func: int, args: Seq<SV>, ret: SV) -> Call {
    Call { callee: callee, func: func, args: args, ret: ret, ok: true }
}
pub open spec fn c_balance(tok: Address, id: Address, answer: i128) -> Call {
    mk_call(tok, fn_balance(), seq![id.sv()], answer.sv())
}
pub open spec fn c_decimals(tok: Address, answer: u32) -> Call {
    mk_call(tok, fn_decimals(), Seq::<SV>::empty(), answer.sv())
}
pub open spec fn c_transfer(tok: Address, from: Address, to: Address, amount: i128) -> Call {
    mk_call(tok, fn_transfer(), seq![from.sv(), to.sv(), amount.sv()], SV::Void)
}
pub open spec fn c_transfer_from(tok: Address, spender: Address, from: Address, to: Address, amount: i128) -> Call {
    mk_call(tok, fn_transfer_from(), seq![spender.sv(), from.sv(), to.sv(), amount.sv()], SV::Void)
}
/// one more recorded call; the other contracts' state after it is whatever the final world says (M8)
pub open spec fn xcall_w(w: World, w2: World, c: Call) -> World { World { calls: w.calls.push(c), ext: w2.ext, ..w } }
/// the answer the k-th call recorded after `w` returned
pub open spec fn obs(w: World, w2: World, k: int) -> i128 { <i128 as ToSV>::unsv(w2.calls[w.calls.len() + k].ret) }
pub open spec fn obs_u32(w: World, w2: World, k: int) -> u32 { <u32 as ToSV>::unsv(w2.calls[w.calls.len() + k].ret) }

// ---- configuration: set once ----
pub open spec fn set_asset_post(w: World, asset: Address) -> World { iset(w, VaultStorageKey::AssetAddress, asset.sv()) }
pub open spec fn set_offset_post(w: World, offset: u32) -> World { iset(w, VaultStorageKey::VirtualDecimalsOffset, offset.sv()) }

// ---- total_assets: exactly one `balance(vault)` query to the configured asset ----
pub open spec fn ta_post(w: World, w2: World, answer: i128) -> World {
    xcall_w(w, w2, c_balance(cur_asset(w).unwrap(), w.this, answer))
}
pub open spec fn asset_decimals_post(w: World, w2: World) -> World {
    xcall_w(w, w2, c_decimals(cur_asset(w).unwrap(), obs_u32(w, w2, 0)))
}

// ---- conversions ----
/// r == round_rounding( assets * (S + 10^off) / (A + 1) ), all intermediate values representable
pub open spec fn shares_formula(w: World, assets: i128, rounding: Rounding, ta: i128, r: i128) -> bool {
    &&& ta + 1 != 0 && ta + 1 <= i128::MAX
    &&& virt_shares(w) <= i128::MAX
    &&& pow10(cur_offset(w) as nat) <= i128::MAX
    &&& is_rounded(rounding, assets * virt_shares(w), ta + 1, r as int)
}
/// r == round_rounding( shares * (A + 1) / (S + 10^off) )
pub open spec fn assets_formula(w: World, shares: i128, rounding: Rounding, ta: i128, r: i128) -> bool {
    &&& ta + 1 <= i128::MAX
    &&& virt_shares(w) <= i128::MAX && virt_shares(w) != 0
    &&& pow10(cur_offset(w) as nat) <= i128::MAX
    &&& is_rounded(rounding, shares * (ta + 1), virt_shares(w), r as int)
}
/// what a returning convert_to_shares_with_rounding(assets, rounding) == r tells; `w2` is the world it returns in
pub open spec fn conv_shares_rel(w: World, w2: World, assets: i128, rounding: Rounding, r: i128) -> bool {
    &&& assets >= 0
    &&& assets == 0 ==> r == 0
    &&& assets != 0 ==> cur_asset(w).is_some() && shares_formula(w, assets, rounding, obs(w, w2, 0), r)
}
pub open spec fn conv_assets_rel(w: World, w2: World, shares: i128, rounding: Rounding, r: i128) -> bool {
    &&& shares >= 0
    &&& shares == 0 ==> r == 0
    &&& shares != 0 ==> cur_asset(w).is_some() && assets_formula(w, shares, rounding, obs(w, w2, 0), r)
}
/// successor state of either conversion: nothing for a zero amount, else the single `balance(vault)` query
pub open spec fn conv_post(w: World, w2: World, amount: i128) -> World {
    if amount == 0 { w } else { ta_post(w, w2, obs(w, w2, 0)) }
}
/// max_withdraw(owner) == m : the owner's whole share balance converted to assets, rounded down
pub open spec fn max_withdraw_rel(w: World, w2: World, owner: Address, m: i128) -> bool {
    conv_assets_rel(w, w2, bal(w, owner) as i128, Rounding::Floor, m)
}

// ---- asset / share movement ----
pub open spec fn asset_in_call(w: World, assets: i128, from: Address, operator: Address) -> Call {
    let tok = cur_asset(w).unwrap();
    if operator == from { c_transfer(tok, from, w.this, assets) } else { c_transfer_from(tok, operator, from, w.this, assets) }
}
/// deposit_internal: pull `assets` from `from` into the vault (one token call), then mint `shares` to `receiver`
pub open spec fn deposit_internal_post(w: World, w2: World, receiver: Address, assets: i128, shares: i128, from: Address, operator: Address) -> World {
    update_post(xcall_w(w, w2, asset_in_call(w, assets, from, operator)), None, Some(receiver), shares as int)
}
pub open spec fn deposit_internal_guard(w: World, receiver: Address, shares: i128) -> bool {
    cur_asset(w).is_some() && update_guard(w, None, Some(receiver), shares as int)
}
/// withdraw_internal: spend the share allowance when operator != owner, burn `shares` from `owner`, then
/// send `assets` from the vault to `receiver` (one token call)
pub open spec fn wi_spent(w: World, owner: Address, shares: i128, operator: Address) -> World {
    if operator != owner { spend_post(w, owner, operator, shares) } else { w }
}
pub open spec fn wi_burnt(w: World, owner: Address, shares: i128, operator: Address) -> World {
    update_post(wi_spent(w, owner, shares, operator), Some(owner), None, shares as int)
}
pub open spec fn withdraw_internal_post(w: World, w2: World, receiver: Address, owner: Address, assets: i128, shares: i128, operator: Address) -> World {
    let w3 = wi_burnt(w, owner, shares, operator);
    xcall_w(w3, w2, c_transfer(cur_asset(w3).unwrap(), w3.this, receiver, assets))
}
pub open spec fn withdraw_internal_guard(w: World, owner: Address, shares: i128, operator: Address) -> bool {
    &&& operator != owner ==> spend_guard(w, owner, operator, shares)
    &&& operator != owner && shares > 0 ==>
            set_allow_guard(w, (allowance(w, owner, operator) - shares) as i128, allow_data(w, owner, operator).live_until_ledger)
    &&& update_guard(wi_spent(w, owner, shares, operator), Some(owner), None, shares as int)
    &&& cur_asset(wi_burnt(w, owner, shares, operator)).is_some()
}

// ---- the four operations ----
pub open spec fn deposit_ev(operator: Address, from: Address, receiver: Address, assets: i128, shares: i128) -> SV {
    Deposit { operator: operator, from: from, receiver: receiver, assets: assets, shares: shares }.ev()
}
pub open spec fn withdraw_ev(operator: Address, receiver: Address, owner: Address, assets: i128, shares: i128) -> SV {
    Withdraw { operator: operator, receiver: receiver, owner: owner, assets: assets, shares: shares }.ev()
}
/// deposit(assets) / mint(shares): auth of operator; preview (`amount_in` = the argument that is converted);
/// deposit_internal; event
pub open spec fn enter_post(w: World, wf: World, amount_in: i128, assets: i128, shares: i128, receiver: Address, from: Address, operator: Address) -> World {
    let w1 = w_auth(w, operator);
    let w2 = conv_post(w1, wf, amount_in);
    let w3 = deposit_internal_post(w2, wf, receiver, assets, shares, from, operator);
    w_event(w3, deposit_ev(operator, from, receiver, assets, shares))
}
pub open spec fn enter_guard(w: World, wf: World, amount_in: i128, receiver: Address, shares: i128, operator: Address) -> bool {
    deposit_internal_guard(conv_post(w_auth(w, operator), wf, amount_in), receiver, shares)
}
/// withdraw(assets): auth; max_withdraw (converts the owner's balance); preview_withdraw; withdraw_internal; event
pub open spec fn withdraw_mid(w: World, wf: World, assets: i128, owner: Address, operator: Address) -> World {
    let w1 = w_auth(w, operator);
    let w2 = conv_post(w1, wf, bal(w1, owner) as i128);
    conv_post(w2, wf, assets)
}
pub open spec fn withdraw_post(w: World, wf: World, assets: i128, shares: i128, receiver: Address, owner: Address, operator: Address) -> World {
    let w3 = withdraw_mid(w, wf, assets, owner, operator);
    w_event(withdraw_internal_post(w3, wf, receiver, owner, assets, shares, operator), withdraw_ev(operator, receiver, owner, assets, shares))
}
/// redeem(shares): auth; max_redeem (pure); preview_redeem; withdraw_internal; event
pub open spec fn redeem_mid(w: World, wf: World, shares: i128, operator: Address) -> World {
    conv_post(w_auth(w, operator), wf, shares)
}
pub open spec fn redeem_post(w: World, wf: World, assets: i128, shares: i128, receiver: Address, owner: Address, operator: Address) -> World {
    let w2 = redeem_mid(w, wf, shares, operator);
    w_event(withdraw_internal_post(w2, wf, receiver, owner, assets, shares, operator), withdraw_ev(operator, receiver, owner, assets, shares))
}
