// =================================================================================================
// spec pack `vault` — packages/tokens/src/vault (C05; the share-token side reuses specs/fungible: C01, C02)
//
//   A  = total assets  = the asset token's answer to `balance(vault)`      (a cross-contract call, M8)
//   S  = total shares  = supply(w) of the fungible base                     (specs/fungible/fungible.rs)
//   A' = A + 1,  S' = S + 10^offset                                         (virtual asset / virtual shares)
//
// Part 1: exact successor states of every vault function (used by contracts.vspec).
// Part 2: the rounding / rate lemmas over the integers (division-free, oracle of specs/math/math.rs).
// Part 3: the SEP-41 hypothesis made explicit and the step lemmas that connect Part 1 to Part 2.
// Part 4: history lemma: the rate (A+1)/(S+10^off) never decreases along any trace of operations.
// Everything here is ghost and nothing is trusted.
// =================================================================================================

// ---- views ----
pub open spec fn pow10(n: nat) -> int { vstd::arithmetic::power::pow(10, n) }
pub open spec fn cur_asset(w: World) -> Option<Address> { dec::<Address>(iget(w, VaultStorageKey::AssetAddress)) }
/// the virtual decimals offset (absent = 0)
pub open spec fn cur_offset(w: World) -> u32 {
    match dec::<u32>(iget(w, VaultStorageKey::VirtualDecimalsOffset)) { Some(o) => o, None => 0u32 }
}
pub open spec fn offset_is_set(w: World) -> bool { iget(w, VaultStorageKey::VirtualDecimalsOffset).is_some() }
/// S' = total share supply + 10^offset
pub open spec fn virt_shares(w: World) -> int { supply(w) + pow10(cur_offset(w) as nat) }

// ---- cross-contract calls to the asset token, as recorded in `calls` ----
pub open spec fn mk_call(callee: Address, func: int, args: Seq<SV>, ret: SV) -> Call {
    Call { callee: callee, func: func, args: args, ret: ret, ok: true }
}
pub open spec fn c_balance(tok: Address, id: Address, answer: i128) -> Call {
    mk_call(tok, fn_balance(), seq![id.sv()], answer.sv())
}
pub open spec fn c_decimals(tok: Address, answer: u32) -> Call {
    mk_call(tok, fn_decimals(), Seq::<SV>::empty(), answer.sv())
}
pub open spec fn c_transfer(tok: Address, from: Address, to: Address, amount: i128) -> Call {
    mk_call(tok, fn_transfer(), seq![from.sv(), to.sv(), amount.sv()], SV::Void)
}
pub open spec fn c_transfer_from(tok: Address, spender: Address, from: Address, to: Address, amount: i128) -> Call {
    mk_call(tok, fn_transfer_from(), seq![spender.sv(), from.sv(), to.sv(), amount.sv()], SV::Void)
}
/// one more recorded call; the other contracts' state after it is whatever the final world says (M8)
pub open spec fn xcall_w(w: World, w2: World, c: Call) -> World { World { calls: w.calls.push(c), ext: w2.ext, ..w } }
/// the answer the k-th call recorded after `w` returned
pub open spec fn obs(w: World, w2: World, k: int) -> i128 { <i128 as ToSV>::unsv(w2.calls[w.calls.len() + k].ret) }
pub open spec fn obs_u32(w: World, w2: World, k: int) -> u32 { <u32 as ToSV>::unsv(w2.calls[w.calls.len() + k].ret) }

// ---- configuration: set once ----
pub open spec fn set_asset_post(w: World, asset: Address) -> World { iset(w, VaultStorageKey::AssetAddress, asset.sv()) }
pub open spec fn set_offset_post(w: World, offset: u32) -> World { iset(w, VaultStorageKey::VirtualDecimalsOffset, offset.sv()) }

// ---- total_assets: exactly one `balance(vault)` query to the configured asset ----
pub open spec fn ta_post(w: World, w2: World, answer: i128) -> World {
    xcall_w(w, w2, c_balance(cur_asset(w).unwrap(), w.this, answer))
}
pub open spec fn asset_decimals_post(w: World, w2: World) -> World {
    xcall_w(w, w2, c_decimals(cur_asset(w).unwrap(), obs_u32(w, w2, 0)))
}

// ---- conversions ----
/// r == round_rounding( assets * (S + 10^off) / (A + 1) ), all intermediate values representable
pub open spec fn shares_formula(w: World, assets: i128, rounding: Rounding, ta: i128, r: i128) -> bool {
    &&& ta + 1 != 0 && ta + 1 <= i128::MAX
    &&& virt_shares(w) <= i128::MAX
    &&& pow10(cur_offset(w) as nat) <= i128::MAX
    &&& is_rounded(rounding, assets * virt_shares(w), ta + 1, r as int)
}
/// r == round_rounding( shares * (A + 1) / (S + 10^off) )
pub open spec fn assets_formula(w: World, shares: i128, rounding: Rounding, ta: i128, r: i128) -> bool {
    &&& ta + 1 <= i128::MAX
    &&& virt_shares(w) <= i128::MAX && virt_shares(w) != 0
    &&& pow10(cur_offset(w) as nat) <= i128::MAX
    &&& is_rounded(rounding, shares * (ta + 1), virt_shares(w), r as int)
}
/// what a returning convert_to_shares_with_rounding(assets, rounding) == r tells; `w2` is the world it returns in
pub open spec fn conv_shares_rel(w: World, w2: World, assets: i128, rounding: Rounding, r: i128) -> bool {
    &&& assets >= 0
    &&& assets == 0 ==> r == 0
    &&& assets != 0 ==> cur_asset(w).is_some() && shares_formula(w, assets, rounding, obs(w, w2, 0), r)
}
pub open spec fn conv_assets_rel(w: World, w2: World, shares: i128, rounding: Rounding, r: i128) -> bool {
    &&& shares >= 0
    &&& shares == 0 ==> r == 0
    &&& shares != 0 ==> cur_asset(w).is_some() && assets_formula(w, shares, rounding, obs(w, w2, 0), r)
}
/// successor state of either conversion: nothing for a zero amount, else the single `balance(vault)` query
pub open spec fn conv_post(w: World, w2: World, amount: i128) -> World {
    if amount == 0 { w } else { ta_post(w, w2, obs(w, w2, 0)) }
}
/// max_withdraw(owner) == m : the owner's whole share balance converted to assets, rounded down
pub open spec fn max_withdraw_rel(w: World, w2: World, owner: Address, m: i128) -> bool {
    conv_assets_rel(w, w2, bal(w, owner) as i128, Rounding::Floor, m)
}

// ---- asset / share movement ----
pub open spec fn asset_in_call(w: World, assets: i128, from: Address, operator: Address) -> Call {
    let tok = cur_asset(w).unwrap();
    if operator == from { c_transfer(tok, from, w.this, assets) } else { c_transfer_from(tok, operator, from, w.this, assets) }
}
/// deposit_internal: pull `assets` from `from` into the vault (one token call), then mint `shares` to `receiver`
pub open spec fn deposit_internal_post(w: World, w2: World, receiver: Address, assets: i128, shares: i128, from: Address, operator: Address) -> World {
    update_post(xcall_w(w, w2, asset_in_call(w, assets, from, operator)), None, Some(receiver), shares as int)
}
pub open spec fn deposit_internal_guard(w: World, receiver: Address, shares: i128) -> bool {
    cur_asset(w).is_some() && update_guard(w, None, Some(receiver), shares as int)
}
/// withdraw_internal: spend the share allowance when operator != owner, burn `shares` from `owner`, then
/// send `assets` from the vault to `receiver` (one token call)
pub open spec fn wi_spent(w: World, owner: Address, shares: i128, operator: Address) -> World {
    if operator != owner { spend_post(w, owner, operator, shares) } else { w }
}
pub open spec fn wi_burnt(w: World, owner: Address, shares: i128, operator: Address) -> World {
    update_post(wi_spent(w, owner, shares, operator), Some(owner), None, shares as int)
}
pub open spec fn withdraw_internal_post(w: World, w2: World, receiver: Address, owner: Address, assets: i128, shares: i128, operator: Address) -> World {
    let w3 = wi_burnt(w, owner, shares, operator);
    xcall_w(w3, w2, c_transfer(cur_asset(w3).unwrap(), w3.this, receiver, assets))
}
pub open spec fn withdraw_internal_guard(w: World, owner: Address, shares: i128, operator: Address) -> bool {
    &&& operator != owner ==> spend_guard(w, owner, operator, shares)
    &&& operator != owner && shares > 0 ==>
            set_allow_guard(w, (allowance(w, owner, operator) - shares) as i128, allow_data(w, owner, operator).live_until_ledger)
    &&& update_guard(wi_spent(w, owner, shares, operator), Some(owner), None, shares as int)
    &&& cur_asset(wi_burnt(w, owner, shares, operator)).is_some()
}

// ---- the four operations ----
pub open spec fn deposit_ev(operator: Address, from: Address, receiver: Address, assets: i128, shares: i128) -> SV {
    Deposit { operator: operator, from: from, receiver: receiver, assets: assets, shares: shares }.ev()
}
pub open spec fn withdraw_ev(operator: Address, receiver: Address, owner: Address, assets: i128, shares: i128) -> SV {
    Withdraw { operator: operator, receiver: receiver, owner: owner, assets: assets, shares: shares }.ev()
}
/// deposit(assets) / mint(shares): auth of operator; preview (`amount_in` = the argument that is converted);
/// deposit_internal; event
pub open spec fn enter_post(w: World, wf: World, amount_in: i128, assets: i128, shares: i128, receiver: Address, from: Address, operator: Address) -> World {
    let w1 = w_auth(w, operator);
    let w2 = conv_post(w1, wf, amount_in);
    let w3 = deposit_internal_post(w2, wf, receiver, assets, shares, from, operator);
    w_event(w3, deposit_ev(operator, from, receiver, assets, shares))
}
pub open spec fn enter_guard(w: World, wf: World, amount_in: i128, receiver: Address, shares: i128, operator: Address) -> bool {
    deposit_internal_guard(conv_post(w_auth(w, operator), wf, amount_in), receiver, shares)
}
/// withdraw(assets): auth; max_withdraw (converts the owner's balance); preview_withdraw; withdraw_internal; event
pub open spec fn withdraw_mid(w: World, wf: World, assets: i128, owner: Address, operator: Address) -> World {
    let w1 = w_auth(w, operator);
    let w2 = conv_post(w1, wf, bal(w1, owner) as i128);
    conv_post(w2, wf, assets)
}
pub open spec fn withdraw_post(w: World, wf: World, assets: i128, shares: i128, receiver: Address, owner: Address, operator: Address) -> World {
    let w3 = withdraw_mid(w, wf, assets, owner, operator);
    w_event(withdraw_internal_post(w3, wf, receiver, owner, assets, shares, operator), withdraw_ev(operator, receiver, owner, assets, shares))
}
/// redeem(shares): auth; max_redeem (pure); preview_redeem; withdraw_internal; event
pub open spec fn redeem_mid(w: World, wf: World, shares: i128, operator: Address) -> World {
    conv_post(w_auth(w, operator), wf, shares)
}
pub open spec fn redeem_post(w: World, wf: World, assets: i128, shares: i128, receiver: Address, owner: Address, operator: Address) -> World {
    let w2 = redeem_mid(w, wf, shares, operator);
    w_event(withdraw_internal_post(w2, wf, receiver, owner, assets, shares, operator), withdraw_ev(operator, receiver, owner, assets, shares))
}

// =================================================================================================
// Part 2 — rounding always favours the vault: integer lemmas (ap = A+1 > 0, sp = S+10^off > 0)
// rate_le(ap, sp, ap2, sp2)  <=>  ap/sp <= ap2/sp2   (cross-multiplied, division-free)
// =================================================================================================
pub open spec fn rate_le(ap: int, sp: int, ap2: int, sp2: int) -> bool { ap * sp2 <= ap2 * sp }

/// deposit: a assets in, s = floor(a*sp/ap) shares out: the depositor never gets more than the fair amount
/// and the rate does not fall
pub proof fn lemma_rate_deposit(a: int, ap: int, sp: int, s: int)
    requires ap > 0, sp > 0, a >= 0, is_floor(a * sp, ap, s),
    ensures
        //@@ C05:lemma.deposit_shares_at_most_fair
        s * ap <= a * sp,
        s >= 0,
        //@@ C05:lemma.deposit_rate_not_lower
        rate_le(ap, sp, ap + a, sp + s),
{
    assert(a * sp >= 0) by(nonlinear_arith) requires a >= 0, sp > 0;
    assert(s >= 0) by(nonlinear_arith) requires (s + 1) * ap > 0, ap > 0;
    assert(ap * (sp + s) <= (ap + a) * sp) by(nonlinear_arith) requires s * ap <= a * sp;
}
/// mint: s shares out, a = ceil(s*ap/sp) assets in: the minter pays at least the fair amount
pub proof fn lemma_rate_mint(s: int, ap: int, sp: int, a: int)
    requires ap > 0, sp > 0, s >= 0, is_ceil(s * ap, sp, a),
    ensures
        //@@ C05:lemma.mint_assets_at_least_fair
        a * sp >= s * ap,
        a >= 0,
        //@@ C05:lemma.mint_rate_not_lower
        rate_le(ap, sp, ap + a, sp + s),
{
    assert(s * ap >= 0) by(nonlinear_arith) requires s >= 0, ap > 0;
    assert(a >= 0) by(nonlinear_arith) requires a * sp >= 0, sp > 0;
    assert(ap * (sp + s) <= (ap + a) * sp) by(nonlinear_arith) requires s * ap <= a * sp;
}
/// withdraw: a assets out, s = ceil(a*sp/ap) shares burned: the owner pays at least the fair amount of shares
pub proof fn lemma_rate_withdraw(a: int, ap: int, sp: int, s: int)
    requires ap > 0, sp > 0, a >= 0, is_ceil(a * sp, ap, s),
    ensures
        //@@ C05:lemma.withdraw_shares_at_least_fair
        s * ap >= a * sp,
        s >= 0,
        //@@ C05:lemma.withdraw_rate_not_lower
        rate_le(ap, sp, ap - a, sp - s),
{
    assert(a * sp >= 0) by(nonlinear_arith) requires a >= 0, sp > 0;
    assert(s >= 0) by(nonlinear_arith) requires s * ap >= 0, ap > 0;
    assert(ap * (sp - s) <= (ap - a) * sp) by(nonlinear_arith) requires s * ap >= a * sp;
}
/// redeem: s shares burned, a = floor(s*ap/sp) assets out: the owner never receives more than the fair amount
pub proof fn lemma_rate_redeem(s: int, ap: int, sp: int, a: int)
    requires ap > 0, sp > 0, s >= 0, is_floor(s * ap, sp, a),
    ensures
        //@@ C05:lemma.redeem_assets_at_most_fair
        a * sp <= s * ap,
        a >= 0,
        //@@ C05:lemma.redeem_rate_not_lower
        rate_le(ap, sp, ap - a, sp - s),
{
    assert(s * ap >= 0) by(nonlinear_arith) requires s >= 0, ap > 0;
    assert(a >= 0) by(nonlinear_arith) requires (a + 1) * sp > 0, sp > 0;
    assert(ap * (sp - s) <= (ap - a) * sp) by(nonlinear_arith) requires a * sp <= s * ap;
}
/// a donation (direct transfer of d >= 0 assets to the vault) only raises the rate
pub proof fn lemma_rate_donation(ap: int, sp: int, d: int)
    requires sp > 0, d >= 0,
    ensures //@@ C05:lemma.donation_rate_not_lower
        rate_le(ap, sp, ap + d, sp),
{
    assert(ap * sp <= (ap + d) * sp) by(nonlinear_arith) requires sp > 0, d >= 0;
}
/// redeeming / withdrawing never takes the last virtual asset: what goes out is at most A = ap - 1
/// as long as fewer shares than sp (i.e. at most the real supply, since 10^off >= 1) are burned
pub proof fn lemma_redeem_leaves_virtual_asset(s: int, ap: int, sp: int, a: int)
    requires ap > 0, sp > 0, 0 <= s < sp, is_floor(s * ap, sp, a),
    ensures //@@ C05:lemma.redeem_cannot_drain_virtual_asset
        a <= ap - 1,
{
    // a*sp <= s*ap < sp*ap  ==> a < ap
    assert(s * ap < sp * ap) by(nonlinear_arith) requires s < sp, ap > 0;
    assert(a < ap) by(nonlinear_arith) requires a * sp < sp * ap, sp > 0;
}
/// order of rates is transitive (positive denominators)
pub proof fn lemma_rate_trans(a1: int, s1: int, a2: int, s2: int, a3: int, s3: int)
    requires s1 > 0, s2 > 0, s3 > 0, rate_le(a1, s1, a2, s2), rate_le(a2, s2, a3, s3),
    ensures rate_le(a1, s1, a3, s3),
{
    // a1*s2 <= a2*s1 , a2*s3 <= a3*s2
    assert((a1 * s2) * s3 <= (a2 * s1) * s3) by(nonlinear_arith) requires a1 * s2 <= a2 * s1, s3 > 0;
    assert((a2 * s3) * s1 <= (a3 * s2) * s1) by(nonlinear_arith) requires a2 * s3 <= a3 * s2, s1 > 0;
    assert((a1 * s2) * s3 == (a1 * s3) * s2) by(nonlinear_arith);
    assert((a2 * s1) * s3 == (a2 * s3) * s1) by(nonlinear_arith);
    assert((a3 * s2) * s1 == (a3 * s1) * s2) by(nonlinear_arith);
    assert(a1 * s3 <= a3 * s1) by(nonlinear_arith) requires (a1 * s3) * s2 <= (a3 * s1) * s2, s2 > 0;
}
/// round trip: deposit a, immediately redeem the shares received: never more than a comes back
pub proof fn lemma_round_trip_deposit_redeem(a: int, ap: int, sp: int, s: int, a2: int)
    requires ap > 0, sp > 0, a >= 0, is_floor(a * sp, ap, s), is_floor(s * (ap + a), sp + s, a2),
    ensures //@@ C05:lemma.deposit_then_redeem_returns_at_most_deposit
        a2 <= a,
{
    lemma_rate_deposit(a, ap, sp, s);
    // a2*(sp+s) <= s*(ap+a) ; s*ap <= a*sp
    if a2 >= a + 1 {
        assert((a + 1) * (sp + s) <= a2 * (sp + s)) by(nonlinear_arith) requires a2 >= a + 1, sp + s > 0;
        assert((a + 1) * (sp + s) == a * sp + a * s + sp + s) by(nonlinear_arith);
        assert(s * (ap + a) == s * ap + a * s) by(nonlinear_arith);
        assert(false);
    }
}
/// round trip: mint s (paying a), immediately redeem s: never more than a comes back
pub proof fn lemma_round_trip_mint_redeem(s: int, ap: int, sp: int, a: int, a2: int)
    requires ap > 0, sp > 0, s >= 0, is_ceil(s * ap, sp, a), is_floor(s * (ap + a), sp + s, a2),
    ensures //@@ C05:lemma.mint_then_redeem_returns_at_most_paid
        a2 <= a,
{
    lemma_rate_mint(s, ap, sp, a);
    if a2 >= a + 1 {
        assert((a + 1) * (sp + s) <= a2 * (sp + s)) by(nonlinear_arith) requires a2 >= a + 1, sp + s > 0;
        assert((a + 1) * (sp + s) == a * sp + a * s + sp + s) by(nonlinear_arith);
        assert(s * (ap + a) == s * ap + a * s) by(nonlinear_arith);
        assert(false);
    }
}
/// 10^n is positive, and at most 10^10 for the permitted offsets
pub proof fn lemma_pow10(n: nat)
    ensures pow10(n) >= 1, n <= 10 ==> pow10(n) <= 10_000_000_000,
{
    vstd::arithmetic::power::lemma_pow_positive(10, n);
    if n <= 10 {
        vstd::arithmetic::power::lemma_pow_increases(10, n, 10);
        assert(pow10(10) == 10_000_000_000) by { reveal_with_fuel(vstd::arithmetic::power::pow, 12); }
    }
}

// =================================================================================================
// Part 3 — the asset token, under the explicit hypothesis that it follows SEP-41.
// `AssetLedger` is the asset token's own book (balances, live allowances); an `AOp` is one of the three token
// operations the vault issues; `aop_ok` = "SEP-41 lets it return", `aop_next` = its effect.  Nothing is assumed
// about `ext`: the lemmas say "IF the calls recorded by the operation are answered as SEP-41 prescribes on some
// ledger l0 THEN ...".  The asset is a contract other than the vault (M8: no re-entrancy), its book is not the
// vault's share book.
// =================================================================================================
pub struct AssetLedger { pub bal: Map<Address, int>, pub alw: Map<(Address, Address), int> }
pub open spec fn abal(l: AssetLedger, a: Address) -> int { if l.bal.contains_key(a) { l.bal[a] } else { 0 } }
pub open spec fn aalw(l: AssetLedger, from: Address, spender: Address) -> int { if l.alw.contains_key((from, spender)) { l.alw[(from, spender)] } else { 0 } }
pub open spec fn ledger_inv(l: AssetLedger) -> bool { forall|a: Address| #[trigger] abal(l, a) >= 0 }

pub enum AOp {
    Balance { id: Address, answer: i128 },
    Transfer { from: Address, to: Address, amount: i128 },
    TransferFrom { spender: Address, from: Address, to: Address, amount: i128 },
}
pub open spec fn aop_call(tok: Address, op: AOp) -> Call {
    match op {
        AOp::Balance { id, answer } => c_balance(tok, id, answer),
        AOp::Transfer { from, to, amount } => c_transfer(tok, from, to, amount),
        AOp::TransferFrom { spender, from, to, amount } => c_transfer_from(tok, spender, from, to, amount),
    }
}
/// SEP-41: the operation returns only if ...
pub open spec fn aop_ok(l: AssetLedger, op: AOp) -> bool {
    match op {
        AOp::Balance { id, answer } => answer as int == abal(l, id),
        AOp::Transfer { from, to, amount } => amount >= 0 && abal(l, from) >= amount,
        AOp::TransferFrom { spender, from, to, amount } => amount >= 0 && aalw(l, from, spender) >= amount && abal(l, from) >= amount,
    }
}
pub open spec fn move_bal(l: AssetLedger, from: Address, to: Address, amount: int) -> Map<Address, int> {
    let b1 = l.bal.insert(from, abal(l, from) - amount);
    b1.insert(to, (if b1.contains_key(to) { b1[to] } else { 0 }) + amount)
}
/// ... and then has exactly this effect
pub open spec fn aop_next(l: AssetLedger, op: AOp) -> AssetLedger {
    match op {
        AOp::Balance { .. } => l,
        AOp::Transfer { from, to, amount } => AssetLedger { bal: move_bal(l, from, to, amount as int), ..l },
        AOp::TransferFrom { spender, from, to, amount } =>
            AssetLedger { bal: move_bal(l, from, to, amount as int), alw: l.alw.insert((from, spender), aalw(l, from, spender) - amount) },
    }
}
pub open spec fn aops_run(l: AssetLedger, ops: Seq<AOp>) -> AssetLedger
    decreases ops.len()
{
    if ops.len() == 0 { l } else { aop_next(aops_run(l, ops.drop_last()), ops.last()) }
}
pub open spec fn aops_ok(l: AssetLedger, ops: Seq<AOp>) -> bool
    decreases ops.len()
{
    ops.len() == 0 || (aops_ok(l, ops.drop_last()) && aop_ok(aops_run(l, ops.drop_last()), ops.last()))
}
pub open spec fn aops_calls(tok: Address, ops: Seq<AOp>) -> Seq<Call> { Seq::new(ops.len(), |i: int| aop_call(tok, ops[i])) }

pub proof fn lemma_aops_push(l: AssetLedger, ops: Seq<AOp>, op: AOp)
    ensures aops_run(l, ops.push(op)) == aop_next(aops_run(l, ops), op),
        aops_ok(l, ops.push(op)) == (aops_ok(l, ops) && aop_ok(aops_run(l, ops), op)),
{
    assert(ops.push(op).drop_last() =~= ops);
}
/// a transfer moves exactly `amount` from `from` to `to`, nothing else, and keeps balances non-negative
pub proof fn lemma_move_bal(l: AssetLedger, from: Address, to: Address, amount: int)
    requires ledger_inv(l), 0 <= amount <= abal(l, from),
    ensures
        forall|a: Address| #[trigger] abal(AssetLedger { bal: move_bal(l, from, to, amount), ..l }, a)
            == abal(l, a) - (if a == from { amount } else { 0 }) + (if a == to { amount } else { 0 }),
        ledger_inv(AssetLedger { bal: move_bal(l, from, to, amount), ..l }),
{
    let l2 = AssetLedger { bal: move_bal(l, from, to, amount), ..l };
    assert forall|a: Address| #[trigger] abal(l2, a) == abal(l, a) - (if a == from { amount } else { 0 }) + (if a == to { amount } else { 0 }) by {}
    assert forall|a: Address| #[trigger] abal(l2, a) >= 0 by { assert(abal(l, a) >= 0); }
}
/// effect of one SEP-41 operation on every balance
pub proof fn lemma_aop_effect(l: AssetLedger, op: AOp)
    requires ledger_inv(l), aop_ok(l, op),
    ensures
        ledger_inv(aop_next(l, op)),
        //@@ C05:sep41.transfer_moves_exactly_amount
        forall|a: Address| #[trigger] abal(aop_next(l, op), a) == abal(l, a) + aop_delta(op, a),
{
    match op {
        AOp::Balance { .. } => {}
        AOp::Transfer { from, to, amount } => { lemma_move_bal(l, from, to, amount as int); }
        AOp::TransferFrom { spender, from, to, amount } => {
            lemma_move_bal(l, from, to, amount as int);
            let l2 = AssetLedger { bal: move_bal(l, from, to, amount as int), ..l };
            assert forall|a: Address| #[trigger] abal(aop_next(l, op), a) == abal(l2, a) by {}
        }
    }
}
pub open spec fn aop_delta(op: AOp, a: Address) -> int {
    match op {
        AOp::Balance { .. } => 0,
        AOp::Transfer { from, to, amount } => (if a == to { amount as int } else { 0 }) - (if a == from { amount as int } else { 0 }),
        AOp::TransferFrom { spender, from, to, amount } => (if a == to { amount as int } else { 0 }) - (if a == from { amount as int } else { 0 }),
    }
}

// ---- instance keys of the vault and of the share supply are different ----
pub proof fn lemma_vault_keys(w: World, v: SV)
    ensures
        cur_offset(set_supply_sv(w, v)) == cur_offset(w),
        cur_asset(set_supply_sv(w, v)) == cur_asset(w),
        VaultStorageKey::AssetAddress.sv() != supply_key(),
        VaultStorageKey::VirtualDecimalsOffset.sv() != supply_key(),
{
    assert(VaultStorageKey::AssetAddress.sv()->Vec_0[0] != supply_key()->Vec_0[0]);
    assert(VaultStorageKey::VirtualDecimalsOffset.sv()->Vec_0[0] != supply_key()->Vec_0[0]);
}
pub open spec fn set_supply_sv(w: World, v: SV) -> World { World { instance: w.instance.insert(supply_key(), v), ..w } }

/// the share-side update leaves the vault configuration alone
pub proof fn lemma_update_keeps_config(w: World, from: Option<Address>, to: Option<Address>, amount: int)
    ensures
        cur_offset(update_post(w, from, to, amount)) == cur_offset(w),
        cur_asset(update_post(w, from, to, amount)) == cur_asset(w),
        update_post(w, from, to, amount).calls == w.calls,
        update_post(w, from, to, amount).ext == w.ext,
        update_post(w, from, to, amount).this == w.this,
{
    let w2 = update_post(w, from, to, amount);
    lemma_vault_keys(w, SV::Void);
    let ka = VaultStorageKey::AssetAddress.sv();
    let ko = VaultStorageKey::VirtualDecimalsOffset.sv();
    assert(w2.instance.contains_key(ka) == w.instance.contains_key(ka));
    assert(w2.instance.contains_key(ko) == w.instance.contains_key(ko));
    if w.instance.contains_key(ka) { assert(w2.instance[ka] == w.instance[ka]); }
    if w.instance.contains_key(ko) { assert(w2.instance[ko] == w.instance[ko]); }
}
/// views that depend on the persistent / instance store only
pub proof fn lemma_store_frame(w: World, w1: World)
    requires w1.persistent == w.persistent, w1.instance == w.instance,
    ensures inv(w) ==> inv(w1), supply(w1) == supply(w), forall|a: Address| #[trigger] bal(w1, a) == bal(w, a),
        cur_offset(w1) == cur_offset(w), cur_asset(w1) == cur_asset(w), virt_shares(w1) == virt_shares(w),
{
    assert(sum_bal(w1) == sum_bal(w));
}

// ---- the token operations behind deposit / mint, in order ----
pub open spec fn asset_in_op(w: World, assets: i128, from: Address, operator: Address) -> AOp {
    if operator == from { AOp::Transfer { from: from, to: w.this, amount: assets } }
    else { AOp::TransferFrom { spender: operator, from: from, to: w.this, amount: assets } }
}
/// [balance(vault) unless the converted amount is 0], then the transfer into the vault
pub open spec fn enter_ops(w: World, wf: World, amount_in: i128, assets: i128, from: Address, operator: Address) -> Seq<AOp> {
    let q = if amount_in != 0 { seq![AOp::Balance { id: w.this, answer: obs(w, wf, 0) }] } else { Seq::<AOp>::empty() };
    q.push(asset_in_op(w, assets, from, operator))
}
/// the total assets an operation saw = the vault's balance in the asset ledger it ran on
pub open spec fn assets_before(l0: AssetLedger, w: World) -> int { abal(l0, w.this) }

/// deposit / mint: exact effect on the share book, the asset ledger and the call log
pub proof fn lemma_enter_effect(w: World, wf: World, l0: AssetLedger, amount_in: i128, assets: i128, shares: i128,
                                receiver: Address, from: Address, operator: Address)
    requires
        inv(w), ledger_inv(l0),
        enter_guard(w, wf, amount_in, receiver, shares, operator),
        from != w.this,
        aops_ok(l0, enter_ops(w, wf, amount_in, assets, from, operator)),
    ensures
        ({
            let w2 = enter_post(w, wf, amount_in, assets, shares, receiver, from, operator);
            let ops = enter_ops(w, wf, amount_in, assets, from, operator);
            let l1 = aops_run(l0, ops);
            //@@ C01+C05:lemma.enter_mints_exactly_shares_to_receiver
            &&& inv(w2) && supply(w2) == supply(w) + shares
            &&& forall|a: Address| #[trigger] bal(w2, a) == bal(w, a) + (if a == receiver { shares as int } else { 0 })
            &&& cur_offset(w2) == cur_offset(w) && cur_asset(w2) == cur_asset(w) && w2.this == w.this
            //@@ C05:lemma.enter_calls_are_the_token_ops
            &&& w2.calls =~= w.calls + aops_calls(cur_asset(w).unwrap(), ops)
            //@@ C05:lemma.enter_moves_exactly_assets_from_payer_to_vault
            &&& ledger_inv(l1) && assets >= 0
            &&& forall|a: Address| #[trigger] abal(l1, a) == abal(l0, a) + (if a == w.this { assets as int } else { 0 }) - (if a == from { assets as int } else { 0 })
            //@@ C05:lemma.enter_total_assets_is_vault_balance
            &&& amount_in != 0 ==> obs(w_auth(w, operator), wf, 0) as int == abal(l0, w.this)
            &&& shares >= 0
            &&& w2.same_ledger(w)
        }),
{
    let w1 = w_auth(w, operator);
    let wc = conv_post(w1, wf, amount_in);
    let c = asset_in_call(wc, assets, from, operator);
    let wx = xcall_w(wc, wf, c);
    let wu = update_post(wx, None, Some(receiver), shares as int);
    let w2 = enter_post(w, wf, amount_in, assets, shares, receiver, from, operator);
    assert(w2 == w_event(wu, deposit_ev(operator, from, receiver, assets, shares)));
    lemma_store_frame(w, wx);
    lemma_store_frame(w, wc);
    lemma_update_inv(wx, None, Some(receiver), shares as int);
    lemma_update_keeps_config(wx, None, Some(receiver), shares as int);
    lemma_store_frame(wu, w2);
    assert forall|a: Address| #[trigger] bal(w2, a) == bal(w, a) + (if a == receiver { shares as int } else { 0 }) by {
        assert(bal(w2, a) == bal(wu, a));
        assert(bal(wx, a) == bal(w, a));
    }
    // the asset ledger
    let e0 = Seq::<AOp>::empty();
    let ob = AOp::Balance { id: w.this, answer: obs(w, wf, 0) };
    let ot = asset_in_op(w, assets, from, operator);
    assert(aops_run(l0, e0) == l0 && aops_ok(l0, e0));
    assert(obs(w1, wf, 0) == obs(w, wf, 0));
    let tok = cur_asset(w).unwrap();
    if amount_in != 0 {
        lemma_aops_push(l0, e0, ob);
        lemma_aops_push(l0, e0.push(ob), ot);
        assert(seq![ob] =~= e0.push(ob));
        lemma_aop_effect(l0, ob);
        lemma_aop_effect(aops_run(l0, e0.push(ob)), ot);
        assert(w2.calls =~= w.calls + aops_calls(tok, enter_ops(w, wf, amount_in, assets, from, operator)));
    } else {
        lemma_aops_push(l0, e0, ot);
        lemma_aop_effect(l0, ot);
        assert(w2.calls =~= w.calls + aops_calls(tok, enter_ops(w, wf, amount_in, assets, from, operator)));
    }
}

// ---- the token operations behind withdraw / redeem: `pre` balance queries, then the transfer out ----
pub open spec fn exit_ops(pre: Seq<AOp>, this: Address, receiver: Address, assets: i128) -> Seq<AOp> {
    pre.push(AOp::Transfer { from: this, to: receiver, amount: assets })
}
/// withdraw_internal on world `wm` (the world after auth and previews): exact effect on the share book, the
/// share allowance, and - given the asset ledger `lm` at the time of the transfer - on the asset ledger
pub proof fn lemma_exit_effect(wm: World, wf: World, lm: AssetLedger, receiver: Address, owner: Address, assets: i128, shares: i128, operator: Address)
    requires
        inv(wm), wm.ledger_ok(), ledger_inv(lm),
        withdraw_internal_guard(wm, owner, shares, operator),
        aop_ok(lm, AOp::Transfer { from: wm.this, to: receiver, amount: assets }),
    ensures
        ({
            let w2 = withdraw_internal_post(wm, wf, receiver, owner, assets, shares, operator);
            let l1 = aop_next(lm, AOp::Transfer { from: wm.this, to: receiver, amount: assets });
            //@@ C01+C05:lemma.exit_burns_exactly_shares_from_owner
            &&& inv(w2) && supply(w2) == supply(wm) - shares && 0 <= shares <= bal(wm, owner) && bal(wm, owner) <= supply(wm)
            &&& forall|a: Address| #[trigger] bal(w2, a) == bal(wm, a) - (if a == owner { shares as int } else { 0 })
            &&& cur_offset(w2) == cur_offset(wm) && cur_asset(w2) == cur_asset(wm) && w2.this == wm.this
            //@@ C02+C05:lemma.exit_by_operator_spends_share_allowance
            &&& operator != owner ==> allowance(wm, owner, operator) >= shares && allowance(w2, owner, operator) == allowance(wm, owner, operator) - shares
            &&& w2.auths == wm.auths && w2.events == wm.events
            //@@ C05:lemma.exit_calls_are_the_token_ops
            &&& w2.calls == wm.calls.push(aop_call(cur_asset(wm).unwrap(), AOp::Transfer { from: wm.this, to: receiver, amount: assets }))
            //@@ C05:lemma.exit_moves_exactly_assets_from_vault_to_receiver
            &&& ledger_inv(l1) && 0 <= assets <= abal(lm, wm.this)
            &&& forall|a: Address| #[trigger] abal(l1, a) == abal(lm, a) - (if a == wm.this { assets as int } else { 0 }) + (if a == receiver { assets as int } else { 0 })
        }),
{
    let ws = wi_spent(wm, owner, shares, operator);
    let wb = wi_burnt(wm, owner, shares, operator);
    let w2 = withdraw_internal_post(wm, wf, receiver, owner, assets, shares, operator);
    if operator != owner {
        lemma_spend(wm, owner, operator, shares);
    }
    lemma_store_frame(wm, ws);
    lemma_update_inv(ws, Some(owner), None, shares as int);
    lemma_update_keeps_config(ws, Some(owner), None, shares as int);
    lemma_inv_bal_nonneg(wm, owner);
    lemma_store_frame(wb, w2);
    assert forall|a: Address| #[trigger] bal(w2, a) == bal(wm, a) - (if a == owner { shares as int } else { 0 }) by {
        assert(bal(w2, a) == bal(wb, a));
        assert(bal(ws, a) == bal(wm, a));
    }
    if operator != owner {
        lemma_update_allow_frame(ws, Some(owner), None, shares as int, owner, operator);
        assert(allow_data(w2, owner, operator) == allow_data(wb, owner, operator));
    }
    lemma_aop_effect(lm, AOp::Transfer { from: wm.this, to: receiver, amount: assets });
}

// =================================================================================================
// Step lemmas: every operation leaves the rate (A+1)/(S+10^off) unchanged or higher.
// Hypotheses, all explicit: the fungible invariant of the share book (C01), an asset ledger l0 on which the
// recorded token calls are SEP-41-conformant, and for deposit / mint: the payer is not the vault itself
// (a vault paying itself would mint shares against no new assets; it cannot authorize that: the vault never
// approves anybody on the asset and cannot satisfy its own require_auth as an invoker).
// =================================================================================================
pub open spec fn rate_step(w: World, l0: AssetLedger, w2: World, l1: AssetLedger) -> bool {
    &&& virt_shares(w) > 0 && virt_shares(w2) > 0 && abal(l0, w.this) >= 0 && abal(l1, w2.this) >= 0
    &&& rate_le(abal(l0, w.this) + 1, virt_shares(w), abal(l1, w2.this) + 1, virt_shares(w2))
}

pub proof fn lemma_deposit_rate(w: World, wf: World, l0: AssetLedger, assets: i128, shares: i128, receiver: Address, from: Address, operator: Address)
    requires
        inv(w), ledger_inv(l0), from != w.this,
        conv_shares_rel(w_auth(w, operator), wf, assets, Rounding::Floor, shares),
        enter_guard(w, wf, assets, receiver, shares, operator),
        aops_ok(l0, enter_ops(w, wf, assets, assets, from, operator)),
    ensures
        ({
            let w2 = enter_post(w, wf, assets, assets, shares, receiver, from, operator);
            let l1 = aops_run(l0, enter_ops(w, wf, assets, assets, from, operator));
            //@@ C05:step.deposit_rate_not_lower
            &&& rate_step(w, l0, w2, l1)
            //@@ C05:step.deposit_shares_received_at_most_fair
            &&& shares * (abal(l0, w.this) + 1) <= assets * virt_shares(w)
            &&& abal(l1, w.this) == abal(l0, w.this) + assets && virt_shares(w2) == virt_shares(w) + shares
            &&& inv(w2) && ledger_inv(l1) && (w.ledger_ok() ==> w2.ledger_ok())
        }),
{
    lemma_enter_effect(w, wf, l0, assets, assets, shares, receiver, from, operator);
    lemma_pow10(cur_offset(w) as nat);
    lemma_store_frame(w, w_auth(w, operator));
    let ap = abal(l0, w.this) + 1;
    let sp = virt_shares(w);
    assert(abal(l0, w.this) >= 0);
    if assets != 0 {
        lemma_rate_deposit(assets as int, ap, sp, shares as int);
    } else {
        assert(rate_le(ap, sp, ap, sp));
        assert(0 * ap == 0 && 0 * sp == 0) by(nonlinear_arith);
    }
}

pub proof fn lemma_mint_rate(w: World, wf: World, l0: AssetLedger, assets: i128, shares: i128, receiver: Address, from: Address, operator: Address)
    requires
        inv(w), ledger_inv(l0), from != w.this,
        conv_assets_rel(w_auth(w, operator), wf, shares, Rounding::Ceil, assets),
        enter_guard(w, wf, shares, receiver, shares, operator),
        aops_ok(l0, enter_ops(w, wf, shares, assets, from, operator)),
    ensures
        ({
            let w2 = enter_post(w, wf, shares, assets, shares, receiver, from, operator);
            let l1 = aops_run(l0, enter_ops(w, wf, shares, assets, from, operator));
            //@@ C05:step.mint_rate_not_lower
            &&& rate_step(w, l0, w2, l1)
            //@@ C05:step.mint_assets_paid_at_least_fair
            &&& assets * virt_shares(w) >= shares * (abal(l0, w.this) + 1)
            &&& abal(l1, w.this) == abal(l0, w.this) + assets && virt_shares(w2) == virt_shares(w) + shares
            &&& inv(w2) && ledger_inv(l1) && (w.ledger_ok() ==> w2.ledger_ok())
        }),
{
    lemma_enter_effect(w, wf, l0, shares, assets, shares, receiver, from, operator);
    lemma_pow10(cur_offset(w) as nat);
    lemma_store_frame(w, w_auth(w, operator));
    let ap = abal(l0, w.this) + 1;
    let sp = virt_shares(w);
    assert(abal(l0, w.this) >= 0);
    if shares != 0 {
        lemma_rate_mint(shares as int, ap, sp, assets as int);
    } else {
        assert(rate_le(ap, sp, ap, sp));
        assert(0 * ap == 0 && 0 * sp == 0) by(nonlinear_arith);
    }
}

/// what leaves the vault's balance when `assets` are sent to `receiver`
pub open spec fn out_of_vault(this: Address, receiver: Address, assets: i128) -> int { if receiver == this { 0 } else { assets as int } }

pub proof fn lemma_rate_exit_arith(a: int, d: int, ap: int, sp: int, s: int)
    requires ap > 0, sp > 0, s >= 0, d == a || d == 0, a >= 0, s * ap >= a * sp,
    ensures rate_le(ap, sp, ap - d, sp - s),
{
    assert(a * sp >= 0) by(nonlinear_arith) requires a >= 0, sp > 0;
    assert(ap * (sp - s) <= (ap - d) * sp) by(nonlinear_arith) requires s * ap >= a * sp, d == a || d == 0, a * sp >= 0, s * ap >= 0;
}

/// balance queries before the transfer out of withdraw(assets, owner)
pub open spec fn withdraw_pre_ops(w: World, wf: World, assets: i128, owner: Address, operator: Address) -> Seq<AOp> {
    let w1 = w_auth(w, operator);
    let q1 = if bal(w1, owner) as i128 != 0 { seq![AOp::Balance { id: w.this, answer: obs(w1, wf, 0) }] } else { Seq::<AOp>::empty() };
    let w2 = conv_post(w1, wf, bal(w1, owner) as i128);
    if assets != 0 { q1.push(AOp::Balance { id: w.this, answer: obs(w2, wf, 0) }) } else { q1 }
}
pub open spec fn redeem_pre_ops(w: World, wf: World, shares: i128, operator: Address) -> Seq<AOp> {
    if shares != 0 { seq![AOp::Balance { id: w.this, answer: obs(w_auth(w, operator), wf, 0) }] } else { Seq::<AOp>::empty() }
}

pub proof fn lemma_redeem_rate(w: World, wf: World, l0: AssetLedger, assets: i128, shares: i128, receiver: Address, owner: Address, operator: Address)
    requires
        inv(w), w.ledger_ok(), ledger_inv(l0),
        conv_assets_rel(w_auth(w, operator), wf, shares, Rounding::Floor, assets),
        withdraw_internal_guard(redeem_mid(w, wf, shares, operator), owner, shares, operator),
        aops_ok(l0, exit_ops(redeem_pre_ops(w, wf, shares, operator), w.this, receiver, assets)),
    ensures
        ({
            let w2 = redeem_post(w, wf, assets, shares, receiver, owner, operator);
            let l1 = aops_run(l0, exit_ops(redeem_pre_ops(w, wf, shares, operator), w.this, receiver, assets));
            //@@ C05:step.redeem_rate_not_lower
            &&& rate_step(w, l0, w2, l1)
            //@@ C05:step.redeem_assets_received_at_most_fair
            &&& assets * virt_shares(w) <= shares * (abal(l0, w.this) + 1)
            &&& inv(w2) && w2.ledger_ok()
            &&& abal(l1, w.this) == abal(l0, w.this) - out_of_vault(w.this, receiver, assets) && virt_shares(w2) == virt_shares(w) - shares
            &&& ledger_inv(l1)
        }),
{
    let w1 = w_auth(w, operator);
    let wm = redeem_mid(w, wf, shares, operator);
    let this = w.this;
    let ot = AOp::Transfer { from: this, to: receiver, amount: assets };
    let e0 = Seq::<AOp>::empty();
    lemma_store_frame(w, w1);
    lemma_store_frame(w, wm);
    lemma_pow10(cur_offset(w) as nat);
    assert(aops_run(l0, e0) == l0 && aops_ok(l0, e0));
    let ap = abal(l0, this) + 1;
    let sp = virt_shares(w);
    assert(abal(l0, this) >= 0);
    if shares != 0 {
        let ob = AOp::Balance { id: this, answer: obs(w1, wf, 0) };
        assert(seq![ob] =~= e0.push(ob));
        lemma_aops_push(l0, e0, ob);
        lemma_aops_push(l0, e0.push(ob), ot);
        assert(aops_run(l0, e0.push(ob)) == l0);
        lemma_rate_redeem(shares as int, ap, sp, assets as int);
    } else {
        lemma_aops_push(l0, e0, ot);
        assert(0 * ap == 0 && 0 * sp == 0) by(nonlinear_arith);
    }
    lemma_exit_effect(wm, wf, l0, receiver, owner, assets, shares, operator);
    let wi = withdraw_internal_post(wm, wf, receiver, owner, assets, shares, operator);
    let w2 = redeem_post(w, wf, assets, shares, receiver, owner, operator);
    lemma_store_frame(wi, w2);
    lemma_rate_exit_arith(assets as int, out_of_vault(this, receiver, assets), ap, sp, shares as int);
}

pub proof fn lemma_withdraw_rate(w: World, wf: World, l0: AssetLedger, assets: i128, shares: i128, receiver: Address, owner: Address, operator: Address)
    requires
        inv(w), w.ledger_ok(), ledger_inv(l0),
        conv_shares_rel(conv_post(w_auth(w, operator), wf, bal(w, owner) as i128), wf, assets, Rounding::Ceil, shares),
        withdraw_internal_guard(withdraw_mid(w, wf, assets, owner, operator), owner, shares, operator),
        aops_ok(l0, exit_ops(withdraw_pre_ops(w, wf, assets, owner, operator), w.this, receiver, assets)),
    ensures
        ({
            let w2 = withdraw_post(w, wf, assets, shares, receiver, owner, operator);
            let l1 = aops_run(l0, exit_ops(withdraw_pre_ops(w, wf, assets, owner, operator), w.this, receiver, assets));
            //@@ C05:step.withdraw_rate_not_lower
            &&& rate_step(w, l0, w2, l1)
            //@@ C05:step.withdraw_shares_paid_at_least_fair
            &&& shares * (abal(l0, w.this) + 1) >= assets * virt_shares(w)
            &&& inv(w2) && w2.ledger_ok()
            &&& abal(l1, w.this) == abal(l0, w.this) - out_of_vault(w.this, receiver, assets) && virt_shares(w2) == virt_shares(w) - shares
            &&& ledger_inv(l1)
        }),
{
    let w1 = w_auth(w, operator);
    let wq = conv_post(w1, wf, bal(w1, owner) as i128);
    let wm = withdraw_mid(w, wf, assets, owner, operator);
    let this = w.this;
    let ot = AOp::Transfer { from: this, to: receiver, amount: assets };
    let e0 = Seq::<AOp>::empty();
    lemma_store_frame(w, w1);
    lemma_store_frame(w, wq);
    lemma_store_frame(w, wm);
    lemma_pow10(cur_offset(w) as nat);
    assert(aops_run(l0, e0) == l0 && aops_ok(l0, e0));
    let ap = abal(l0, this) + 1;
    let sp = virt_shares(w);
    assert(abal(l0, this) >= 0);
    let q1 = if bal(w1, owner) as i128 != 0 { seq![AOp::Balance { id: this, answer: obs(w1, wf, 0) }] } else { e0 };
    if bal(w1, owner) as i128 != 0 {
        let o1 = AOp::Balance { id: this, answer: obs(w1, wf, 0) };
        assert(seq![o1] =~= e0.push(o1));
        lemma_aops_push(l0, e0, o1);
    }
    assert(aops_run(l0, q1) == l0);
    if assets != 0 {
        let ob = AOp::Balance { id: this, answer: obs(wq, wf, 0) };
        lemma_aops_push(l0, q1, ob);
        lemma_aops_push(l0, q1.push(ob), ot);
        assert(aops_run(l0, q1.push(ob)) == l0);
        lemma_rate_withdraw(assets as int, ap, sp, shares as int);
    } else {
        lemma_aops_push(l0, q1, ot);
        assert(0 * ap == 0 && 0 * sp == 0) by(nonlinear_arith);
    }
    lemma_exit_effect(wm, wf, l0, receiver, owner, assets, shares, operator);
    let wi = withdraw_internal_post(wm, wf, receiver, owner, assets, shares, operator);
    let w2 = withdraw_post(w, wf, assets, shares, receiver, owner, operator);
    lemma_store_frame(wi, w2);
    lemma_rate_exit_arith(assets as int, out_of_vault(this, receiver, assets), ap, sp, shares as int);
}

/// max_withdraw bounds what an owner can take: at most the fair value of the owner's own shares, and never the
/// virtual asset (ta = the total assets the query saw, non-negative for a SEP-41 token)
pub proof fn lemma_max_withdraw_bound(w: World, w2: World, owner: Address, m: i128, assets: i128)
    requires inv(w), max_withdraw_rel(w, w2, owner, m), 0 <= assets <= m, bal(w, owner) != 0 ==> obs(w, w2, 0) >= 0,
    ensures
        //@@ C05:lemma.max_withdraw_at_most_fair_value_of_own_shares
        bal(w, owner) == 0 ==> assets == 0,
        bal(w, owner) != 0 ==> assets * virt_shares(w) <= bal(w, owner) * (obs(w, w2, 0) + 1) && assets <= obs(w, w2, 0),
{
    lemma_inv_bal_nonneg(w, owner);
    lemma_pow10(cur_offset(w) as nat);
    if bal(w, owner) != 0 {
        let b = bal(w, owner);
        let ap = obs(w, w2, 0) + 1;
        let sp = virt_shares(w);
        assert(b as i128 as int == b);
        lemma_rate_redeem(b, ap, sp, m as int);
        lemma_redeem_leaves_virtual_asset(b, ap, sp, m as int);
        assert(assets * sp <= m * sp) by(nonlinear_arith) requires assets <= m, sp > 0;
    }
}

// =================================================================================================
// Part 4 — history: along every trace of vault operations, share-token operations that create no shares,
// arbitrary other activity on the asset token that does not take assets out of the vault's balance
// (donations included) and ledger advances, the rate (A+1)/(S+10^off) never decreases.
// State of the history = (world of the vault contract, SEP-41 ledger of the asset token).
// Configuration (set_asset / set_decimals_offset) is constructor-only: it happens before the trace starts
// (both functions are once-only, see contracts.vspec; a later first call of set_decimals_offset would change 10^off).
// =================================================================================================
pub struct VH { pub w: World, pub l: AssetLedger }
pub enum VStep {
    Deposit { wf: World, assets: i128, shares: i128, receiver: Address, from: Address, operator: Address },
    Mint { wf: World, assets: i128, shares: i128, receiver: Address, from: Address, operator: Address },
    Withdraw { wf: World, assets: i128, shares: i128, receiver: Address, owner: Address, operator: Address },
    Redeem { wf: World, assets: i128, shares: i128, receiver: Address, owner: Address, operator: Address },
    /// transfer / transfer_from / approve / burn / burn_from of the share token (anything but a raw mint)
    ShareOp { op: FOp },
    /// other activity on the asset token: holders transact among themselves, anybody donates to the vault.
    /// Assets leave the vault's balance only through the vault's own `transfer` calls (SEP-41 requires the
    /// holder's authorization or an allowance; the vault code never approves anybody)
    AssetOther { l2: AssetLedger },
    /// ledger advance / next invocation: the vault's instance and persistent stores are untouched
    Frame { w2: World },
}
pub open spec fn vstep_ok(h: VH, st: VStep) -> bool {
    let w = h.w;
    match st {
        VStep::Deposit { wf, assets, shares, receiver, from, operator } =>
            from != w.this
            && conv_shares_rel(w_auth(w, operator), wf, assets, Rounding::Floor, shares)
            && enter_guard(w, wf, assets, receiver, shares, operator)
            && aops_ok(h.l, enter_ops(w, wf, assets, assets, from, operator)),
        VStep::Mint { wf, assets, shares, receiver, from, operator } =>
            from != w.this
            && conv_assets_rel(w_auth(w, operator), wf, shares, Rounding::Ceil, assets)
            && enter_guard(w, wf, shares, receiver, shares, operator)
            && aops_ok(h.l, enter_ops(w, wf, shares, assets, from, operator)),
        VStep::Withdraw { wf, assets, shares, receiver, owner, operator } =>
            conv_shares_rel(conv_post(w_auth(w, operator), wf, bal(w, owner) as i128), wf, assets, Rounding::Ceil, shares)
            && withdraw_internal_guard(withdraw_mid(w, wf, assets, owner, operator), owner, shares, operator)
            && aops_ok(h.l, exit_ops(withdraw_pre_ops(w, wf, assets, owner, operator), w.this, receiver, assets)),
        VStep::Redeem { wf, assets, shares, receiver, owner, operator } =>
            conv_assets_rel(w_auth(w, operator), wf, shares, Rounding::Floor, assets)
            && withdraw_internal_guard(redeem_mid(w, wf, shares, operator), owner, shares, operator)
            && aops_ok(h.l, exit_ops(redeem_pre_ops(w, wf, shares, operator), w.this, receiver, assets)),
        VStep::ShareOp { op } => !(op is Mint) && op_guard(w, op),
        VStep::AssetOther { l2 } => ledger_inv(l2) && abal(l2, w.this) >= abal(h.l, w.this),
        VStep::Frame { w2 } => w2.persistent == w.persistent && w2.instance == w.instance && w2.this == w.this && w2.ledger_ok(),
    }
}
pub open spec fn vstep_post(h: VH, st: VStep) -> VH {
    let w = h.w;
    match st {
        VStep::Deposit { wf, assets, shares, receiver, from, operator } =>
            VH { w: enter_post(w, wf, assets, assets, shares, receiver, from, operator), l: aops_run(h.l, enter_ops(w, wf, assets, assets, from, operator)) },
        VStep::Mint { wf, assets, shares, receiver, from, operator } =>
            VH { w: enter_post(w, wf, shares, assets, shares, receiver, from, operator), l: aops_run(h.l, enter_ops(w, wf, shares, assets, from, operator)) },
        VStep::Withdraw { wf, assets, shares, receiver, owner, operator } =>
            VH { w: withdraw_post(w, wf, assets, shares, receiver, owner, operator),
                 l: aops_run(h.l, exit_ops(withdraw_pre_ops(w, wf, assets, owner, operator), w.this, receiver, assets)) },
        VStep::Redeem { wf, assets, shares, receiver, owner, operator } =>
            VH { w: redeem_post(w, wf, assets, shares, receiver, owner, operator),
                 l: aops_run(h.l, exit_ops(redeem_pre_ops(w, wf, shares, operator), w.this, receiver, assets)) },
        VStep::ShareOp { op } => VH { w: op_post(w, op), l: h.l },
        VStep::AssetOther { l2 } => VH { w: w, l: l2 },
        VStep::Frame { w2 } => VH { w: w2, l: h.l },
    }
}
pub open spec fn vrun(h0: VH, steps: Seq<VStep>) -> VH
    decreases steps.len()
{
    if steps.len() == 0 { h0 } else { vstep_post(vrun(h0, steps.drop_last()), steps.last()) }
}
pub open spec fn vvalid(h0: VH, steps: Seq<VStep>) -> bool
    decreases steps.len()
{
    steps.len() == 0 || (vvalid(h0, steps.drop_last()) && vstep_ok(vrun(h0, steps.drop_last()), steps.last()))
}
pub open spec fn vh_inv(h: VH) -> bool { inv(h.w) && h.w.ledger_ok() && ledger_inv(h.l) }

/// a share-token operation that is not a mint: invariant kept, supply not raised, configuration untouched
pub proof fn lemma_share_op(w: World, op: FOp)
    requires inv(w), w.ledger_ok(), op_guard(w, op), !(op is Mint),
    ensures inv(op_post(w, op)), op_post(w, op).ledger_ok(), op_post(w, op).this == w.this,
        0 <= supply(op_post(w, op)) <= supply(w),
        //@@ C01+C05:lemma.share_transfers_do_not_change_supply
        (op is Transfer || op is TransferFrom || op is Approve) ==> supply(op_post(w, op)) == supply(w),
        cur_offset(op_post(w, op)) == cur_offset(w), cur_asset(op_post(w, op)) == cur_asset(w),
{
    lemma_op_shape(w, op);
    lemma_op_pre(w, op);
    let w1 = op_pre(w, op);
    lemma_store_frame(w, w1);
    if is_approve(op) {
        lemma_store_frame(w1, op_post(w, op));
    } else {
        lemma_update_inv(w1, op_from(op), op_to(op), op_amount(op));
        lemma_update_keeps_config(w1, op_from(op), op_to(op), op_amount(op));
        let wu = update_post(w1, op_from(op), op_to(op), op_amount(op));
        lemma_store_frame(wu, op_post(w, op));
    }
}

pub proof fn lemma_vstep(h: VH, st: VStep)
    requires vh_inv(h), vstep_ok(h, st),
    ensures
        vh_inv(vstep_post(h, st)),
        //@@ C05:history.step_rate_not_lower
        rate_step(h.w, h.l, vstep_post(h, st).w, vstep_post(h, st).l),
        cur_offset(vstep_post(h, st).w) == cur_offset(h.w),
        vstep_post(h, st).w.this == h.w.this,
{
    let w = h.w;
    let l = h.l;
    lemma_pow10(cur_offset(w) as nat);
    assert(abal(l, w.this) >= 0);
    let ap = abal(l, w.this) + 1;
    let sp = virt_shares(w);
    match st {
        VStep::Deposit { wf, assets, shares, receiver, from, operator } => {
            lemma_deposit_rate(w, wf, l, assets, shares, receiver, from, operator);
            lemma_enter_effect(w, wf, l, assets, assets, shares, receiver, from, operator);
        }
        VStep::Mint { wf, assets, shares, receiver, from, operator } => {
            lemma_mint_rate(w, wf, l, assets, shares, receiver, from, operator);
            lemma_enter_effect(w, wf, l, shares, assets, shares, receiver, from, operator);
        }
        VStep::Withdraw { wf, assets, shares, receiver, owner, operator } => {
            lemma_withdraw_rate(w, wf, l, assets, shares, receiver, owner, operator);
            lemma_withdraw_config(w, wf, assets, shares, receiver, owner, operator);
        }
        VStep::Redeem { wf, assets, shares, receiver, owner, operator } => {
            lemma_redeem_rate(w, wf, l, assets, shares, receiver, owner, operator);
            lemma_redeem_config(w, wf, assets, shares, receiver, owner, operator);
        }
        VStep::ShareOp { op } => {
            lemma_share_op(w, op);
            let w2 = op_post(w, op);
            let d = supply(w) - supply(w2);
            assert(ap * (sp - d) <= ap * sp) by(nonlinear_arith) requires ap > 0, d >= 0;
        }
        VStep::AssetOther { l2 } => {
            lemma_rate_donation(ap, sp, abal(l2, w.this) - abal(l, w.this));
            assert(abal(l2, w.this) >= 0);
        }
        VStep::Frame { w2 } => {
            lemma_store_frame(w, w2);
        }
    }
}
/// withdraw / redeem leave the vault configuration and identity alone
pub proof fn lemma_withdraw_config(w: World, wf: World, assets: i128, shares: i128, receiver: Address, owner: Address, operator: Address)
    ensures ({ let w2 = withdraw_post(w, wf, assets, shares, receiver, owner, operator);
               cur_offset(w2) == cur_offset(wi_spent(withdraw_mid(w, wf, assets, owner, operator), owner, shares, operator)) && w2.this == wi_spent(withdraw_mid(w, wf, assets, owner, operator), owner, shares, operator).this }),
{
    let wm = withdraw_mid(w, wf, assets, owner, operator);
    let ws = wi_spent(wm, owner, shares, operator);
    lemma_update_keeps_config(ws, Some(owner), None, shares as int);
    let wi = withdraw_internal_post(wm, wf, receiver, owner, assets, shares, operator);
    lemma_store_frame(wi_burnt(wm, owner, shares, operator), wi);
    lemma_store_frame(wi, withdraw_post(w, wf, assets, shares, receiver, owner, operator));
}
pub proof fn lemma_redeem_config(w: World, wf: World, assets: i128, shares: i128, receiver: Address, owner: Address, operator: Address)
    ensures ({ let w2 = redeem_post(w, wf, assets, shares, receiver, owner, operator);
               cur_offset(w2) == cur_offset(wi_spent(redeem_mid(w, wf, shares, operator), owner, shares, operator)) && w2.this == wi_spent(redeem_mid(w, wf, shares, operator), owner, shares, operator).this }),
{
    let wm = redeem_mid(w, wf, shares, operator);
    let ws = wi_spent(wm, owner, shares, operator);
    lemma_update_keeps_config(ws, Some(owner), None, shares as int);
    let wi = withdraw_internal_post(wm, wf, receiver, owner, assets, shares, operator);
    lemma_store_frame(wi_burnt(wm, owner, shares, operator), wi);
    lemma_store_frame(wi, redeem_post(w, wf, assets, shares, receiver, owner, operator));
}

/// the history lemma of C05
pub proof fn lemma_vhistory(h0: VH, steps: Seq<VStep>)
    requires vh_inv(h0), vvalid(h0, steps),
    ensures
        vh_inv(vrun(h0, steps)),
        cur_offset(vrun(h0, steps).w) == cur_offset(h0.w), vrun(h0, steps).w.this == h0.w.this,
        //@@ C05:history.rate_never_decreases
        rate_step(h0.w, h0.l, vrun(h0, steps).w, vrun(h0, steps).l),
    decreases steps.len()
{
    lemma_pow10(cur_offset(h0.w) as nat);
    assert(abal(h0.l, h0.w.this) >= 0);
    if steps.len() == 0 {
    } else {
        let pre = steps.drop_last();
        lemma_vhistory(h0, pre);
        let h1 = vrun(h0, pre);
        lemma_vstep(h1, steps.last());
        let h2 = vrun(h0, steps);
        lemma_rate_trans(abal(h0.l, h0.w.this) + 1, virt_shares(h0.w), abal(h1.l, h1.w.this) + 1, virt_shares(h1.w),
                         abal(h2.l, h2.w.this) + 1, virt_shares(h2.w));
    }
}
