// vault spec
