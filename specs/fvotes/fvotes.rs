// =================================================================================================
// spec pack `fvotes` (C13, token part) — FungibleVotes::* = the Base operation followed by
// transfer_voting_units with the same (from, to, amount): voting units mirror token balances
// =================================================================================================
pub open spec fn fv_units_moved(op: FOp) -> bool { op_amount(op) > 0 }
pub open spec fn fv_post(w: World, op: FOp) -> World {
    let w1 = op_post(w, op);
    if fv_units_moved(op) { xfer_post(w1, op_from(op), op_to(op), op_amount(op) as u128) } else { w1 }
}
pub open spec fn fv_guard(w: World, op: FOp) -> bool {
    &&& op_guard(w, op)
    &&& fv_units_moved(op) ==> xfer_guard(op_post(w, op), op_from(op), op_to(op), op_amount(op) as u128)
}

// ---- the two key families do not overlap ----
pub proof fn lemma_votes_key_not_fung(k: VotesStorageKey)
    ensures !is_bal_key(k.sv()), k.sv() != supply_key(),
{
    let b = bal_key(Address { id: 0 })->Vec_0[0];
    match k {
        VotesStorageKey::Delegatee(a) => { assert(k.sv()->Vec_0[0] != b); }
        VotesStorageKey::NumCheckpoints(a) => { assert(k.sv()->Vec_0[0] != b); }
        VotesStorageKey::DelegateCheckpoint(a, i) => { assert(k.sv()->Vec_0.len() == 3); }
        VotesStorageKey::NumTotalSupplyCheckpoints => { assert(k.sv()->Vec_0[0] != supply_key()->Vec_0[0]); }
        VotesStorageKey::TotalSupplyCheckpoint(i) => { assert(k.sv()->Vec_0[0] != b); }
        VotesStorageKey::VotingUnits(a) => { assert(k.sv()->Vec_0[0] != b); }
    }
}
pub proof fn lemma_fung_key_not_votes(a: Address, k: VotesStorageKey)
    ensures bal_key(a) != k.sv(), supply_key() != k.sv(), !is_units_key(bal_key(a)), !is_deleg_key(bal_key(a)),
{
    lemma_votes_key_not_fung(k);
    lemma_bal_key_facts(a);
    assert(bal_key(a)->Vec_0[0] != sym_units());
    assert(bal_key(a)->Vec_0[0] != sym_deleg());
}

// ---- the token view is untouched by votes writes ----
pub open spec fn fung_same(w: World, w2: World) -> bool {
    &&& w2.same_ledger(w)
    &&& w2.temporary == w.temporary && w2.temp_live == w.temp_live
    &&& forall|k: SV| #[trigger] is_bal_key(k) ==> w2.persistent.contains_key(k) == w.persistent.contains_key(k) && w2.persistent[k] == w.persistent[k]
    &&& w2.instance.contains_key(supply_key()) == w.instance.contains_key(supply_key())
    &&& w2.instance[supply_key()] == w.instance[supply_key()]
    &&& sum_bal(w2) == sum_bal(w)
    &&& forall|a: Address| #[trigger] replay_bal(w2.events, a) == replay_bal(w.events, a)
    &&& replay_supply(w2.events) == replay_supply(w.events)
}
pub proof fn lemma_fs_trans(w: World, w1: World, w2: World)
    requires fung_same(w, w1), fung_same(w1, w2),
    ensures fung_same(w, w2),
{
    assert forall|k: SV| #[trigger] is_bal_key(k) implies w2.persistent.contains_key(k) == w.persistent.contains_key(k) && w2.persistent[k] == w.persistent[k] by {}
    assert forall|a: Address| #[trigger] replay_bal(w2.events, a) == replay_bal(w.events, a) by { assert(replay_bal(w1.events, a) == replay_bal(w.events, a)); }
}
pub proof fn lemma_fs_views(w: World, w2: World)
    requires fung_same(w, w2),
    ensures forall|a: Address| #[trigger] bal(w2, a) == bal(w, a), supply(w2) == supply(w),
        forall|o: Address, s: Address| #[trigger] allow_data(w2, o, s) == allow_data(w, o, s),
{
    assert forall|a: Address| #[trigger] bal(w2, a) == bal(w, a) by { lemma_bal_key_facts(a); }
}
pub proof fn lemma_fs_inv(w: World, w2: World)
    requires fung_same(w, w2), inv(w), inv_ev(w),
    ensures inv(w2), inv_ev(w2),
{
    lemma_fs_views(w, w2);
    assert forall|k: SV| #[trigger] w2.persistent.contains_key(k) && is_bal_key(k) implies (w2.persistent[k] is I128) && w2.persistent[k]->I128_0 >= 0 by {
        assert(w.persistent.contains_key(k));
    }
    assert forall|a: Address| replay_bal(w2.events, a) == bal(w2, a) by { assert(replay_bal(w.events, a) == bal(w, a)); }
}
pub proof fn lemma_fs_pset(w: World, k: VotesStorageKey, v: SV)
    ensures fung_same(w, pset(w, k, v)), fung_same(w, pdel(w, k)), fung_same(w, iset(w, k, v)),
{
    lemma_votes_key_not_fung(k);
    lemma_psum_insert(w.persistent, bal_proj(), k.sv(), v);
    lemma_psum_remove_key(w.persistent, bal_proj(), k.sv());
}
pub open spec fn not_token_event(ev: SV) -> bool {
    ev_tag(ev) != tag_transfer() && ev_tag(ev) != tag_mint() && ev_tag(ev) != tag_burn()
}
pub proof fn lemma_fs_event(w: World, ev: SV)
    requires not_token_event(ev),
    ensures fung_same(w, w_event(w, ev)),
{
    assert forall|a: Address| #[trigger] replay_bal(w_event(w, ev).events, a) == replay_bal(w.events, a) by { lemma_replay_push(w.events, ev, a); }
    lemma_replay_push(w.events, ev, a0());
}
pub proof fn lemma_fs_push(w: World, t: CheckpointType, op: CheckpointOp, delta: u128)
    ensures fung_same(w, push_post(w, t, op, delta)),
{
    let n = cp_num(w, t);
    let c = push_cp(w, t, op, delta);
    if push_same_ledger(w, t) {
        lemma_fs_pset(w, cp_key(t, (n - 1) as u32), c.sv());
    } else {
        let w1 = pset(w, cp_key(t, n), c.sv());
        lemma_fs_pset(w, cp_key(t, n), c.sv());
        match t {
            CheckpointType::TotalSupply => { lemma_fs_pset(w1, VotesStorageKey::NumTotalSupplyCheckpoints, ((n + 1) as u32).sv()); }
            CheckpointType::Account(a) => { lemma_fs_pset(w1, VotesStorageKey::NumCheckpoints(a), ((n + 1) as u32).sv()); }
        }
        lemma_fs_trans(w, w1, push_post(w, t, op, delta));
    }
}
pub proof fn lemma_fs_move1(w: World, d: Option<Address>, op: CheckpointOp, amt: u128)
    ensures fung_same(w, move1_post(w, d, op, amt)),
{
    match d {
        Some(a) => {
            let w1 = push_post(w, t_acct(a), op, amt);
            lemma_fs_push(w, t_acct(a), op, amt);
            let ev = DelegateVotesChanged { delegate: a, previous_votes: cp_latest(w, t_acct(a)), new_votes: cp_apply(cp_latest(w, t_acct(a)), op, amt) as u128 }.ev();
            assert(not_token_event(ev));
            lemma_fs_event(w1, ev);
            lemma_fs_trans(w, w1, move1_post(w, d, op, amt));
        }
        None => {}
    }
}
pub proof fn lemma_fs_move(w: World, fd: Option<Address>, td: Option<Address>, amt: u128)
    ensures fung_same(w, move_post(w, fd, td, amt)),
{
    if !(amt == 0 || fd == td) {
        let w1 = move1_post(w, fd, CheckpointOp::Sub, amt);
        lemma_fs_move1(w, fd, CheckpointOp::Sub, amt);
        lemma_fs_move1(w1, td, CheckpointOp::Add, amt);
        lemma_fs_trans(w, w1, move_post(w, fd, td, amt));
    }
}
pub proof fn lemma_fs_xfer(w: World, from_a: Option<Address>, to_a: Option<Address>, amt: u128)
    ensures fung_same(w, xfer_post(w, from_a, to_a, amt)),
{
    if amt != 0 {
        let w1 = xfer_from_post(w, from_a, amt);
        let w2 = xfer_to_post(w1, to_a, amt);
        match from_a {
            Some(f) => { lemma_fs_pset(w, VotesStorageKey::VotingUnits(f), ((v_units(w, f) - amt) as u128).sv()); }
            None => { lemma_fs_push(w, t_total(), CheckpointOp::Add, amt); }
        }
        match to_a {
            Some(t) => { lemma_fs_pset(w1, VotesStorageKey::VotingUnits(t), ((v_units(w1, t) + amt) as u128).sv()); }
            None => { lemma_fs_push(w1, t_total(), CheckpointOp::Sub, amt); }
        }
        lemma_fs_trans(w, w1, w2);
        lemma_fs_move(w2, v_delegatee_opt(w, from_a), v_delegatee_opt(w, to_a), amt);
        lemma_fs_trans(w, w2, xfer_post(w, from_a, to_a, amt));
    }
}
pub proof fn lemma_fs_delegate(w: World, acct: Address, d: Address)
    ensures fung_same(w, delegate_post(w, acct, d)),
{
    let w1 = w_auth(w, acct);
    let w2 = pset(w1, VotesStorageKey::Delegatee(acct), d.sv());
    let ev = DelegateChanged { delegator: acct, from_delegate: v_delegatee(w, acct), to_delegate: d }.ev();
    let w3 = delegate_pre(w, acct, d);
    assert(fung_same(w, w1));
    lemma_fs_pset(w1, VotesStorageKey::Delegatee(acct), d.sv());
    lemma_fs_trans(w, w1, w2);
    assert(not_token_event(ev));
    lemma_fs_event(w2, ev);
    lemma_fs_trans(w, w2, w3);
    lemma_fs_move(w3, v_delegatee(w, acct), Some(d), v_units(w3, acct));
    lemma_fs_trans(w, w3, delegate_post(w, acct, d));
}
