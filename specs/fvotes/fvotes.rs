// =================================================================================================
// spec pack `fvotes` (C13, token part) — FungibleVotes::* = the Base operation followed by
// transfer_voting_units with the same (from, to, amount): voting units mirror token balances
// =================================================================================================
pub open spec fn fv_units_moved(op: FOp) -> bool { op_amount(op) > 0 }
pub open spec fn fv_post(w: World, op: FOp) -> World {
    let w1 = op_post(w, op);
    if fv_units_moved(op) { xfer_post(w1, op_from(op), op_to(op), op_amount(op) as u128) } else { w1 }
}
pub open spec fn fv_guard(w: World, op: FOp) -> bool {
    &&& op_guard(w, op)
    &&& fv_units_moved(op) ==> xfer_guard(op_post(w, op), op_from(op), op_to(op), op_amount(op) as u128)
}

// ---- the two key families do not overlap ----
pub proof fn lemma_votes_key_not_fung(k: VotesStorageKey)
    ensures !is_bal_key(k.sv()), k.sv() != supply_key(),
{
    let b = bal_key(Address { id: 0 })->Vec_0[0];
    match k {
        VotesStorageKey::Delegatee(a) => { assert(k.sv()->Vec_0[0] != b); }
        VotesStorageKey::NumCheckpoints(a) => { assert(k.sv()->Vec_0[0] != b); }
        VotesStorageKey::DelegateCheckpoint(a, i) => { assert(k.sv()->Vec_0.len() == 3); }
        VotesStorageKey::NumTotalSupplyCheckpoints => { assert(k.sv()->Vec_0[0] != supply_key()->Vec_0[0]); }
        VotesStorageKey::TotalSupplyCheckpoint(i) => { assert(k.sv()->Vec_0[0] != b); }
        VotesStorageKey::VotingUnits(a) => { assert(k.sv()->Vec_0[0] != b); }
    }
}
pub proof fn lemma_fung_key_not_votes(a: Address, k: VotesStorageKey)
    ensures bal_key(a) != k.sv(), supply_key() != k.sv(), !is_units_key(bal_key(a)), !is_deleg_key(bal_key(a)),
{
    lemma_votes_key_not_fung(k);
    lemma_bal_key_facts(a);
    assert(bal_key(a)->Vec_0[0] != sym_units());
    assert(bal_key(a)->Vec_0[0] != sym_deleg());
}

// ---- the token view is untouched by votes writes ----
pub open spec fn fung_same(w: World, w2: World) -> bool {
    &&& w2.same_ledger(w)
    &&& w2.temporary == w.temporary && w2.temp_live == w.temp_live
    &&& forall|k: SV| #[trigger] is_bal_key(k) ==> w2.persistent.contains_key(k) == w.persistent.contains_key(k) && w2.persistent[k] == w.persistent[k]
    &&& w2.instance.contains_key(supply_key()) == w.instance.contains_key(supply_key())
    &&& w2.instance[supply_key()] == w.instance[supply_key()]
    &&& sum_bal(w2) == sum_bal(w)
    &&& forall|a: Address| #[trigger] replay_bal(w2.events, a) == replay_bal(w.events, a)
    &&& replay_supply(w2.events) == replay_supply(w.events)
}
pub proof fn lemma_fs_trans(w: World, w1: World, w2: World)
    requires fung_same(w, w1), fung_same(w1, w2),
    ensures fung_same(w, w2),
{
    assert forall|k: SV| #[trigger] is_bal_key(k) implies w2.persistent.contains_key(k) == w.persistent.contains_key(k) && w2.persistent[k] == w.persistent[k] by {}
    assert forall|a: Address| #[trigger] replay_bal(w2.events, a) == replay_bal(w.events, a) by { assert(replay_bal(w1.events, a) == replay_bal(w.events, a)); }
}
pub proof fn lemma_fs_views(w: World, w2: World)
    requires fung_same(w, w2),
    ensures forall|a: Address| #[trigger] bal(w2, a) == bal(w, a), supply(w2) == supply(w),
        forall|o: Address, s: Address| #[trigger] allow_data(w2, o, s) == allow_data(w, o, s),
{
    assert forall|a: Address| #[trigger] bal(w2, a) == bal(w, a) by { lemma_bal_key_facts(a); }
}
pub proof fn lemma_fs_inv(w: World, w2: World)
    requires fung_same(w, w2), inv(w), inv_ev(w),
    ensures inv(w2), inv_ev(w2),
{
    lemma_fs_views(w, w2);
    assert forall|k: SV| #[trigger] w2.persistent.contains_key(k) && is_bal_key(k) implies (w2.persistent[k] is I128) && w2.persistent[k]->I128_0 >= 0 by {
        assert(w.persistent.contains_key(k));
    }
    assert forall|a: Address| replay_bal(w2.events, a) == bal(w2, a) by { assert(replay_bal(w.events, a) == bal(w, a)); }
}
pub proof fn lemma_fs_pset(w: World, k: VotesStorageKey, v: SV)
    ensures fung_same(w, pset(w, k, v)), fung_same(w, pdel(w, k)), fung_same(w, iset(w, k, v)),
{
    lemma_votes_key_not_fung(k);
    lemma_psum_insert(w.persistent, bal_proj(), k.sv(), v);
    lemma_psum_remove_key(w.persistent, bal_proj(), k.sv());
}
pub open spec fn not_token_event(ev: SV) -> bool {
    ev_tag(ev) != tag_transfer() && ev_tag(ev) != tag_mint() && ev_tag(ev) != tag_burn()
}
pub proof fn lemma_fs_event(w: World, ev: SV)
    requires not_token_event(ev),
    ensures fung_same(w, w_event(w, ev)),
{
    assert forall|a: Address| #[trigger] replay_bal(w_event(w, ev).events, a) == replay_bal(w.events, a) by { lemma_replay_push(w.events, ev, a); }
    lemma_replay_push(w.events, ev, a0());
}
pub proof fn lemma_fs_push(w: World, t: CheckpointType, op: CheckpointOp, delta: u128)
    ensures fung_same(w, push_post(w, t, op, delta)),
{
    let n = cp_num(w, t);
    let c = push_cp(w, t, op, delta);
    if push_same_ledger(w, t) {
        lemma_fs_pset(w, cp_key(t, (n - 1) as u32), c.sv());
    } else {
        let w1 = pset(w, cp_key(t, n), c.sv());
        lemma_fs_pset(w, cp_key(t, n), c.sv());
        match t {
            CheckpointType::TotalSupply => { lemma_fs_pset(w1, VotesStorageKey::NumTotalSupplyCheckpoints, ((n + 1) as u32).sv()); }
            CheckpointType::Account(a) => { lemma_fs_pset(w1, VotesStorageKey::NumCheckpoints(a), ((n + 1) as u32).sv()); }
        }
        lemma_fs_trans(w, w1, push_post(w, t, op, delta));
    }
}
pub proof fn lemma_fs_move1(w: World, d: Option<Address>, op: CheckpointOp, amt: u128)
    ensures fung_same(w, move1_post(w, d, op, amt)),
{
    match d {
        Some(a) => {
            let w1 = push_post(w, t_acct(a), op, amt);
            lemma_fs_push(w, t_acct(a), op, amt);
            let ev = DelegateVotesChanged { delegate: a, previous_votes: cp_latest(w, t_acct(a)), new_votes: cp_apply(cp_latest(w, t_acct(a)), op, amt) as u128 }.ev();
            assert(not_token_event(ev));
            lemma_fs_event(w1, ev);
            lemma_fs_trans(w, w1, move1_post(w, d, op, amt));
        }
        None => {}
    }
}
pub proof fn lemma_fs_move(w: World, fd: Option<Address>, td: Option<Address>, amt: u128)
    ensures fung_same(w, move_post(w, fd, td, amt)),
{
    if !(amt == 0 || fd == td) {
        let w1 = move1_post(w, fd, CheckpointOp::Sub, amt);
        lemma_fs_move1(w, fd, CheckpointOp::Sub, amt);
        lemma_fs_move1(w1, td, CheckpointOp::Add, amt);
        lemma_fs_trans(w, w1, move_post(w, fd, td, amt));
    }
}
pub proof fn lemma_fs_xfer(w: World, from_a: Option<Address>, to_a: Option<Address>, amt: u128)
    ensures fung_same(w, xfer_post(w, from_a, to_a, amt)),
{
    if amt != 0 {
        let w1 = xfer_from_post(w, from_a, amt);
        let w2 = xfer_to_post(w1, to_a, amt);
        match from_a {
            Some(f) => { lemma_fs_pset(w, VotesStorageKey::VotingUnits(f), ((v_units(w, f) - amt) as u128).sv()); }
            None => { lemma_fs_push(w, t_total(), CheckpointOp::Add, amt); }
        }
        match to_a {
            Some(t) => { lemma_fs_pset(w1, VotesStorageKey::VotingUnits(t), ((v_units(w1, t) + amt) as u128).sv()); }
            None => { lemma_fs_push(w1, t_total(), CheckpointOp::Sub, amt); }
        }
        lemma_fs_trans(w, w1, w2);
        lemma_fs_move(w2, v_delegatee_opt(w, from_a), v_delegatee_opt(w, to_a), amt);
        lemma_fs_trans(w, w2, xfer_post(w, from_a, to_a, amt));
    }
}
pub proof fn lemma_fs_delegate(w: World, acct: Address, d: Address)
    ensures fung_same(w, delegate_post(w, acct, d)),
{
    let w1 = w_auth(w, acct);
    let w2 = pset(w1, VotesStorageKey::Delegatee(acct), d.sv());
    let ev = DelegateChanged { delegator: acct, from_delegate: v_delegatee(w, acct), to_delegate: d }.ev();
    let w3 = delegate_pre(w, acct, d);
    assert(fung_same(w, w1));
    lemma_fs_pset(w1, VotesStorageKey::Delegatee(acct), d.sv());
    lemma_fs_trans(w, w1, w2);
    assert(not_token_event(ev));
    lemma_fs_event(w2, ev);
    lemma_fs_trans(w, w2, w3);
    lemma_fs_move(w3, v_delegatee(w, acct), Some(d), v_units(w3, acct));
    lemma_fs_trans(w, w3, delegate_post(w, acct, d));
}

// ---- the votes view is untouched by token writes ----
pub open spec fn votes_same(w: World, w2: World) -> bool {
    &&& w2.ledger_seq == w.ledger_seq
    &&& forall|k: VotesStorageKey| #[trigger] pget(w2, k) == pget(w, k)
    &&& forall|k: VotesStorageKey| #[trigger] iget(w2, k) == iget(w, k)
    &&& sum_units(w2) == sum_units(w)
    &&& forall|d: Address| #[trigger] sum_deleg(w2, d) == sum_deleg(w, d)
}
pub proof fn lemma_vs_trans(w: World, w1: World, w2: World)
    requires votes_same(w, w1), votes_same(w1, w2),
    ensures votes_same(w, w2),
{
    assert forall|k: VotesStorageKey| #[trigger] pget(w2, k) == pget(w, k) by { assert(pget(w1, k) == pget(w, k)); }
    assert forall|k: VotesStorageKey| #[trigger] iget(w2, k) == iget(w, k) by { assert(iget(w1, k) == iget(w, k)); }
    assert forall|d: Address| #[trigger] sum_deleg(w2, d) == sum_deleg(w, d) by { assert(sum_deleg(w1, d) == sum_deleg(w, d)); }
}
pub proof fn lemma_vs_nostore(w: World, w2: World)
    requires w2.persistent == w.persistent, w2.instance == w.instance, w2.ledger_seq == w.ledger_seq,
    ensures votes_same(w, w2),
{}
pub proof fn lemma_vs_set_bal(w: World, a: Address, v: int)
    ensures votes_same(w, set_bal(w, a, v)), votes_same(w, set_supply(w, v)),
{
    let w2 = set_bal(w, a, v);
    let x = SV::I128(v as i128);
    assert forall|k: VotesStorageKey| #[trigger] pget(w2, k) == pget(w, k) by { lemma_fung_key_not_votes(a, k); }
    assert forall|k: VotesStorageKey| #[trigger] iget(set_supply(w, v), k) == iget(w, k) by { lemma_fung_key_not_votes(a, k); }
    lemma_fung_key_not_votes(a, VotesStorageKey::NumTotalSupplyCheckpoints);
    lemma_m_write_other(w.persistent, bal_key(a), x, a);
    assert forall|d: Address| #[trigger] sum_deleg(w2, d) == sum_deleg(w, d) by { lemma_m_write_other(w.persistent, bal_key(a), x, d); }
}
pub proof fn lemma_vs_update(w: World, from_a: Option<Address>, to_a: Option<Address>, amount: int)
    ensures votes_same(w, update_post(w, from_a, to_a, amount)),
{
    let w1 = match from_a {
        Some(a) => set_bal(w, a, bal(w, a) - amount),
        None => set_supply(w, supply(w) + amount),
    };
    match from_a {
        Some(a) => { lemma_vs_set_bal(w, a, bal(w, a) - amount); }
        None => { lemma_vs_set_bal(w, a0(), supply(w) + amount); }
    }
    match to_a {
        Some(a) => { lemma_vs_set_bal(w1, a, bal(w1, a) + amount); }
        None => { lemma_vs_set_bal(w1, a0(), supply(w1) - amount); }
    }
    lemma_vs_trans(w, w1, update_post(w, from_a, to_a, amount));
}
pub proof fn lemma_vs_op(w: World, op: FOp)
    requires op_guard(w, op), w.ledger_ok(),
    ensures votes_same(w, op_post(w, op)),
{
    lemma_op_shape(w, op);
    lemma_op_pre(w, op);
    let w1 = op_pre(w, op);
    lemma_vs_nostore(w, w1);
    if is_approve(op) {
        lemma_vs_nostore(w, op_post(w, op));
    } else {
        let w2 = update_post(w1, op_from(op), op_to(op), op_amount(op));
        lemma_vs_update(w1, op_from(op), op_to(op), op_amount(op));
        lemma_vs_trans(w, w1, w2);
        lemma_vs_nostore(w2, op_post(w, op));
        lemma_vs_trans(w, w2, op_post(w, op));
    }
}
/// inv_v and every observable of the votes view carry over
pub proof fn lemma_vs_inv(w: World, w2: World)
    requires votes_same(w, w2),
    ensures inv_v(w) ==> inv_v(w2),
        forall|a: Address| #[trigger] v_units(w2, a) == v_units(w, a),
        forall|a: Address| #[trigger] v_delegatee(w2, a) == v_delegatee(w, a),
        forall|t: CheckpointType| #[trigger] cp_latest(w2, t) == cp_latest(w, t),
        forall|t: CheckpointType, q: u32| #[trigger] past_value(w2, t, q) == past_value(w, t, q),
{
    assert forall|a: Address| #[trigger] v_units(w2, a) == v_units(w, a) by { assert(pget(w2, VotesStorageKey::VotingUnits(a)) == pget(w, VotesStorageKey::VotingUnits(a))); }
    assert forall|a: Address| #[trigger] v_delegatee(w2, a) == v_delegatee(w, a) by { assert(pget(w2, VotesStorageKey::Delegatee(a)) == pget(w, VotesStorageKey::Delegatee(a))); }
    assert forall|t: CheckpointType| true implies #[trigger] same_timeline(w, w2, t) by {
        assert forall|i: u32| #[trigger] cp_at(w2, t, i) == cp_at(w, t, i) by { assert(pget(w2, cp_key(t, i)) == pget(w, cp_key(t, i))); }
        match t {
            CheckpointType::TotalSupply => { assert(iget(w2, VotesStorageKey::NumTotalSupplyCheckpoints) == iget(w, VotesStorageKey::NumTotalSupplyCheckpoints)); }
            CheckpointType::Account(a) => { assert(pget(w2, VotesStorageKey::NumCheckpoints(a)) == pget(w, VotesStorageKey::NumCheckpoints(a))); }
        }
    }
    assert forall|t: CheckpointType| #[trigger] cp_latest(w2, t) == cp_latest(w, t) by { assert(same_timeline(w, w2, t)); lemma_timeline_frame(w, w2, t); }
    assert forall|t: CheckpointType, q: u32| #[trigger] past_value(w2, t, q) == past_value(w, t, q) by { assert(same_timeline(w, w2, t)); lemma_timeline_frame(w, w2, t); }
    if inv_v(w) {
        assert forall|t: CheckpointType| #[trigger] seq_ok(w2, t) by { assert(seq_ok(w, t)); assert(same_timeline(w, w2, t)); lemma_timeline_frame(w, w2, t); }
        assert forall|d: Address| #[trigger] cp_latest(w2, t_acct(d)) as int == sum_deleg(w2, d) by {
            assert(cp_latest(w, t_acct(d)) as int == sum_deleg(w, d));
            assert(cp_latest(w2, t_acct(d)) == cp_latest(w, t_acct(d)));
        }
        assert(cp_latest(w2, t_total()) == cp_latest(w, t_total()));
    }
}

// ---- the joint invariant: voting units == token balance ----
pub open spec fn units_eq_bal(w: World) -> bool { forall|a: Address| #[trigger] v_units(w, a) as int == bal(w, a) }
pub open spec fn inv_fv(w: World) -> bool { inv(w) && inv_ev(w) && inv_v(w) && units_eq_bal(w) && w.ledger_ok() }

/// every FungibleVotes token operation keeps the joint invariant (C13: "each account's voting
/// units equal its token balance"), and never changes an answer about a past ledger
pub proof fn lemma_fv_op(w: World, op: FOp)
    requires inv_fv(w), fv_guard(w, op),
    ensures
        //@@ C13:lemma.fv_units_equal_balance
        inv_fv(fv_post(w, op)),
        //@@ C13:lemma.fv_keeps_past
        forall|t: CheckpointType, q: u32| q < w.ledger_seq ==> #[trigger] past_value(fv_post(w, op), t, q) == past_value(w, t, q),
        //@@ C13:lemma.fv_keeps_delegations
        forall|a: Address| #[trigger] v_delegatee(fv_post(w, op), a) == v_delegatee(w, a),
        fv_post(w, op).same_ledger(w),
{
    let w1 = op_post(w, op);
    let w2 = fv_post(w, op);
    lemma_op_c01(w, op);
    lemma_vs_op(w, op);
    lemma_vs_inv(w, w1);
    if fv_units_moved(op) {
        let (f, t, amt) = (op_from(op), op_to(op), op_amount(op) as u128);
        lemma_xfer_inv(w1, f, t, amt);
        lemma_fs_xfer(w1, f, t, amt);
        lemma_fs_inv(w1, w2);
        lemma_fs_views(w1, w2);
        assert forall|a: Address| #[trigger] v_units(w2, a) as int == bal(w2, a) by {
            assert(v_units(w2, a) as int == v_units(w1, a) + xfer_units_delta(f, t, amt, a));
            assert(v_units(w1, a) == v_units(w, a));
            assert(bal(w1, a) == bal(w, a) + upd_delta(f, t, op_amount(op), a));
            assert(bal(w2, a) == bal(w1, a));
        }
        assert forall|t2: CheckpointType, q: u32| q < w.ledger_seq implies #[trigger] past_value(w2, t2, q) == past_value(w, t2, q) by {
            assert(past_value(w1, t2, q) == past_value(w, t2, q));
        }
        assert forall|a: Address| #[trigger] v_delegatee(w2, a) == v_delegatee(w, a) by { assert(v_delegatee(w1, a) == v_delegatee(w, a)); }
    } else {
        assert forall|a: Address| #[trigger] v_units(w2, a) as int == bal(w2, a) by {
            assert(v_units(w1, a) == v_units(w, a));
            assert(bal(w1, a) == bal(w, a) + upd_delta(op_from(op), op_to(op), op_amount(op), a));
        }
    }
}
/// `delegate` on a votes token keeps the joint invariant
pub proof fn lemma_fv_delegate(w: World, acct: Address, d: Address)
    requires inv_fv(w), delegate_guard(w, acct, d),
    ensures
        //@@ C13:lemma.fv_delegate_inv
        inv_fv(delegate_post(w, acct, d)),
{
    let w2 = delegate_post(w, acct, d);
    lemma_delegate_inv(w, acct, d);
    lemma_fs_delegate(w, acct, d);
    lemma_fs_inv(w, w2);
    lemma_fs_views(w, w2);
    assert forall|a: Address| #[trigger] v_units(w2, a) as int == bal(w2, a) by { assert(v_units(w2, a) == v_units(w, a)); assert(bal(w2, a) == bal(w, a)); }
}

// ---- histories of a votes-enabled fungible token ----
pub enum JOp {
    /// mint / transfer / transfer_from / burn / burn_from through FungibleVotes::*, approve through Base
    Tok(FOp),
    Delegate { acct: Address, dele: Address },
    Tick { seq: u32, ts: u64 },
}
pub open spec fn jop_guard(w: World, op: JOp) -> bool {
    match op {
        JOp::Tok(f) => fv_guard(w, f) && w.auths =~= Set::empty(),
        JOp::Delegate { acct, dele } => delegate_guard(w, acct, dele),
        JOp::Tick { seq, ts } => seq >= w.ledger_seq,
    }
}
pub open spec fn jop_post(w: World, op: JOp) -> World {
    match op {
        JOp::Tok(f) => World { auths: Set::empty(), ..fv_post(w, f) },
        JOp::Delegate { acct, dele } => World { auths: Set::empty(), ..delegate_post(w, acct, dele) },
        JOp::Tick { seq, ts } => World { ledger_seq: seq, timestamp: ts, auths: Set::empty(), auth_args: Set::empty(), ..w },
    }
}
pub open spec fn j_run(w0: World, steps: Seq<JOp>) -> World
    decreases steps.len()
{
    if steps.len() == 0 { World { auths: Set::empty(), ..w0 } } else { jop_post(j_run(w0, steps.drop_last()), steps.last()) }
}
pub open spec fn j_valid(w0: World, steps: Seq<JOp>) -> bool
    decreases steps.len()
{
    steps.len() == 0 || (j_valid(w0, steps.drop_last()) && jop_guard(j_run(w0, steps.drop_last()), steps.last()))
}
pub open spec fn j_genesis(w0: World) -> bool { genesis(w0) && v_genesis(w0) }
pub open spec fn j_hist_val(w0: World, steps: Seq<JOp>, t: CheckpointType, q: u32) -> u128
    decreases steps.len()
{
    if j_run(w0, steps).ledger_seq <= q { cp_latest(j_run(w0, steps), t) }
    else if steps.len() == 0 { 0 }
    else { j_hist_val(w0, steps.drop_last(), t, q) }
}

pub proof fn lemma_inv_fv_frame(w: World, w2: World)
    requires inv_fv(w), w2.persistent == w.persistent, w2.instance == w.instance, w2.events == w.events,
        w2.ledger_seq >= w.ledger_seq, w2.ledger_ok(),
    ensures inv_fv(w2), forall|t: CheckpointType, q: u32| #[trigger] past_value(w2, t, q) == past_value(w, t, q),
{
    lemma_inv_frame(w, w2);
    lemma_inv_v_frame(w, w2);
    assert forall|a: Address| #[trigger] v_units(w2, a) as int == bal(w2, a) by { assert(v_units(w, a) as int == bal(w, a)); assert(bal(w2, a) == bal(w, a)); }
}
pub proof fn lemma_jstep(w: World, op: JOp)
    requires inv_fv(w), jop_guard(w, op),
    ensures inv_fv(jop_post(w, op)), jop_post(w, op).ledger_seq >= w.ledger_seq,
        forall|t: CheckpointType, q: u32| q < w.ledger_seq ==> #[trigger] past_value(jop_post(w, op), t, q) == past_value(w, t, q),
{
    let w2 = jop_post(w, op);
    match op {
        JOp::Tok(f) => {
            let wm = fv_post(w, f);
            lemma_fv_op(w, f);
            lemma_inv_fv_frame(wm, w2);
            assert forall|t: CheckpointType, q: u32| q < w.ledger_seq implies #[trigger] past_value(w2, t, q) == past_value(w, t, q) by {
                assert(past_value(wm, t, q) == past_value(w, t, q));
            }
        }
        JOp::Delegate { acct, dele } => {
            let wm = delegate_post(w, acct, dele);
            lemma_fv_delegate(w, acct, dele);
            lemma_delegate_inv(w, acct, dele);
            lemma_fs_delegate(w, acct, dele);
            lemma_inv_fv_frame(wm, w2);
            assert forall|t: CheckpointType, q: u32| q < w.ledger_seq implies #[trigger] past_value(w2, t, q) == past_value(w, t, q) by {
                assert(past_value(wm, t, q) == past_value(w, t, q));
            }
        }
        JOp::Tick { seq, ts } => { lemma_inv_fv_frame(w, w2); }
    }
}
pub proof fn lemma_j_hist_point(w0: World, steps: Seq<JOp>, t: CheckpointType, q: u32)
    requires j_genesis(w0), w0.ledger_ok(), j_valid(w0, steps), steps.len() > 0,
        inv_fv(j_run(w0, steps.drop_last())),
        past_value(j_run(w0, steps.drop_last()), t, q) == j_hist_val(w0, steps.drop_last(), t, q),
    ensures past_value(j_run(w0, steps), t, q) == j_hist_val(w0, steps, t, q),
{
    let w = j_run(w0, steps);
    let pre = steps.drop_last();
    let wp = j_run(w0, pre);
    lemma_jstep(wp, steps.last());
    if w.ledger_seq <= q {
        assert(seq_ok(w, t));
        lemma_past_is_latest(w, t, q);
    } else {
        assert(j_hist_val(w0, steps, t, q) == j_hist_val(w0, pre, t, q));
        if q < wp.ledger_seq {
            assert(past_value(w, t, q) == past_value(wp, t, q));
        } else {
            assert(steps.last() is Tick);
            lemma_inv_fv_frame(wp, w);
        }
    }
}

pub proof fn lemma_j_genesis(w0: World)
    requires j_genesis(w0), w0.ledger_ok(),
    ensures inv_fv(j_run(w0, Seq::empty())),
        forall|t: CheckpointType, q: u32| #[trigger] past_value(j_run(w0, Seq::empty()), t, q) == j_hist_val(w0, Seq::empty(), t, q),
{
    let steps = Seq::<JOp>::empty();
    let w = j_run(w0, steps);
        lemma_genesis(w0);
        lemma_v_genesis(w0);
        assert(w == run(w0, Seq::empty()));
        assert(w == v_run(w0, Seq::empty()));
        assert forall|a: Address| #[trigger] v_units(w, a) as int == bal(w, a) by {
            lemma_bal_key_facts(a);
            assert(pget(w0, VotesStorageKey::VotingUnits(a)).is_none());
        }
        assert forall|t: CheckpointType, q: u32| #[trigger] past_value(w, t, q) == j_hist_val(w0, steps, t, q) by {
            assert(past_value(w, t, q) == 0);
            assert(cp_latest(w, t) == 0);
        }
}

pub proof fn lemma_j_history(w0: World, steps: Seq<JOp>)
    requires j_genesis(w0), w0.ledger_ok(), j_valid(w0, steps),
    ensures
        //@@ C13:history.fv_units_equal_balance_and_votes_inv
        inv_fv(j_run(w0, steps)),
        //@@ C13:history.fv_past_lookup_is_value_at_end_of_ledger
        forall|t: CheckpointType, q: u32| #[trigger] past_value(j_run(w0, steps), t, q) == j_hist_val(w0, steps, t, q),
    decreases steps.len()
{
    let w = j_run(w0, steps);
    if steps.len() == 0 {
        lemma_j_genesis(w0);
        assert(steps =~= Seq::empty());
    } else {
        let pre = steps.drop_last();
        let wp = j_run(w0, pre);
        lemma_j_history(w0, pre);
        lemma_jstep(wp, steps.last());
        assert forall|t: CheckpointType, q: u32| #[trigger] past_value(w, t, q) == j_hist_val(w0, steps, t, q) by {
            lemma_j_hist_point(w0, steps, t, q);
        }
    }
}

/// no later token operation, delegation or ledger advance changes an answer about a past ledger
pub proof fn lemma_j_past_stable(w0: World, steps: Seq<JOp>, k: int)
    requires j_genesis(w0), w0.ledger_ok(), j_valid(w0, steps), 0 <= k <= steps.len(),
    ensures
        j_run(w0, steps.take(k)).ledger_seq <= j_run(w0, steps).ledger_seq,
        //@@ C13:history.fv_past_never_changes
        forall|t: CheckpointType, q: u32| q < j_run(w0, steps.take(k)).ledger_seq ==>
            #[trigger] past_value(j_run(w0, steps), t, q) == past_value(j_run(w0, steps.take(k)), t, q),
    decreases steps.len()
{
    if k == steps.len() { assert(steps.take(k) =~= steps); }
    else {
        let pre = steps.drop_last();
        let wp = j_run(w0, pre);
        let wk = j_run(w0, steps.take(k));
        assert(pre.take(k) =~= steps.take(k));
        lemma_j_past_stable(w0, pre, k);
        lemma_j_history(w0, pre);
        lemma_jstep(wp, steps.last());
        assert forall|t: CheckpointType, q: u32| q < wk.ledger_seq implies
            #[trigger] past_value(j_run(w0, steps), t, q) == past_value(wk, t, q) by {
            assert(past_value(wp, t, q) == past_value(wk, t, q));
        }
    }
}
