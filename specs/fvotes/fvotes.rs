// =================================================================================================
// spec pack `fvotes` (C13, token part) — FungibleVotes::* = the Base operation followed by
// transfer_voting_units with the same (from, to, amount): voting units mirror token balances
// =================================================================================================
pub open spec fn fv_units_moved(op: FOp) -> bool { op_amount(op) > 0 }
pub open spec fn fv_post(w: World, op: FOp) -> World {
    let w1 = op_post(w, op);
    if fv_units_moved(op) { xfer_post(w1, op_from(op), op_to(op), op_amount(op) as u128) } else { w1 }
}
pub open spec fn fv_guard(w: World, op: FOp) -> bool {
    &&& op_guard(w, op)
    &&& fv_units_moved(op) ==> xfer_guard(op_post(w, op), op_from(op), op_to(op), op_amount(op) as u128)
}
