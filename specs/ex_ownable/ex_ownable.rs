// expanded ownable example: the macro-injected owner check (C06)
pub open spec fn counter(w: World) -> Option<i32> { dec::<i32>(iget(w, DataKey::Counter)) }
