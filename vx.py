#!/usr/bin/env python3
"""vx — assembly of verification units (DESIGN.md §2): runs the mechanical translator on /repo,
generates the data-type encodings, splices the spec pack contracts into the extracted functions,
runs Verus and attributes every diagnostic to a labelled obligation."""
import hashlib, json, os, re, shutil, subprocess, sys, tempfile, time

VERIF = os.path.dirname(os.path.abspath(__file__))
REPO = os.environ.get("VERIF_REPO", "/repo")
TOOL = os.environ.get("VX_TOOL") or os.path.join(VERIF, "tools/sorobanvx/target/release/sorobanvx")
if not os.path.exists(TOOL) and os.path.exists("/verif/tools/sorobanvx/target/release/sorobanvx"):
    TOOL = "/verif/tools/sorobanvx/target/release/sorobanvx"   # developer worktrees share the built translator


LOST_HINTS = []   # proof hints whose anchor text no longer exists in the translated body (dropped; see splice_body)


class Undecided(Exception):
    """exit 2: lost anchor, unsupported construct, tool limit — never an alarm"""


def sym_code(name: str) -> int:
    n = 0
    for b in name.encode():
        n = n * 256 + b
    return n


# ------------------------------------------------------------------------------------------------
# translator invocation

def run_translator(job: dict, scratch: str, tag: str) -> dict:
    jp = os.path.join(scratch, f"{tag}.job.json")
    with open(jp, "w") as f:
        json.dump(job, f)
    p = subprocess.run([TOOL, jp], capture_output=True, text=True)
    try:
        out = json.loads(p.stdout)
    except Exception:
        raise Undecided(f"translator crashed on {tag}: {p.stderr[-2000:]}")
    if out["errors"]:
        raise Undecided(f"translator refused {tag}: " + "; ".join(out["errors"]))
    return out


# ------------------------------------------------------------------------------------------------
# macro expansion of example contracts by rustc itself (DESIGN.md §2.1)

EXPAND_TARGET = os.environ.get("VERIF_EXPAND_TARGET", "/var/tmp/verif-expand-target")
EXPAND_CACHE = os.environ.get("VERIF_EXPAND_CACHE", "/var/tmp/verif-expand-cache")


def repo_source_hash() -> str:
    h = hashlib.sha256()
    for top in ("packages", "examples"):
        for root, dirs, files in os.walk(os.path.join(REPO, top)):
            dirs[:] = sorted(d for d in dirs if d not in ("target", "test_snapshots", ".git"))
            for fn in sorted(files):
                if fn.endswith((".rs", ".toml")):
                    p = os.path.join(root, fn)
                    h.update(os.path.relpath(p, REPO).encode())
                    h.update(open(p, "rb").read())
    for fn in ("Cargo.toml", "Cargo.lock"):
        p = os.path.join(REPO, fn)
        if os.path.exists(p):
            h.update(open(p, "rb").read())
    return h.hexdigest()[:20]


def forget_stale_workspace_artefacts(tdir: str):
    """cargo decides freshness by comparing source mtimes with the time of the last build, so a file that went BACK to
    older content with an older mtime (a restored copy, `cp -p`, rsync -a, an extracted archive) is taken as unchanged
    and the artefact built from the other content (e.g. the stellar-macros proc-macro) is reused. We key on content:
    when the tree hash differs from the one this target directory was last used with, the fingerprints of all
    workspace crates are removed, which makes cargo rebuild exactly those from the current sources."""
    import fcntl, glob, shutil
    os.makedirs(tdir, exist_ok=True)
    cur = repo_source_hash()
    with open(os.path.join(tdir, ".verif-stamp.lock"), "w") as lk:
        fcntl.flock(lk, fcntl.LOCK_EX)
        sp = os.path.join(tdir, ".verif-tree-hash")
        prev = open(sp).read().strip() if os.path.exists(sp) else ""
        if prev != cur:
            names = set()
            for top in ("packages", "examples"):
                for root, dirs, files in os.walk(os.path.join(REPO, top)):
                    dirs[:] = [d for d in dirs if d not in ("target", "test_snapshots", ".git")]
                    if "Cargo.toml" in files:
                        m = re.search(r'^name\s*=\s*"([^"]+)"', open(os.path.join(root, "Cargo.toml")).read(), re.M)
                        if m:
                            names.add(m.group(1))
            for fp in glob.glob(os.path.join(tdir, "*", ".fingerprint", "*")):
                base = os.path.basename(fp).rsplit("-", 1)[0]
                if base in names or base.replace("_", "-") in names:
                    shutil.rmtree(fp, ignore_errors=True)
            with open(sp, "w") as f:
                f.write(cur)


def expand_example(pkg: str) -> str:
    """path of rustc's own macro expansion of example crate `pkg`, built from REPO's current working tree"""
    os.makedirs(EXPAND_CACHE, exist_ok=True)
    out = os.path.join(EXPAND_CACHE, f"{pkg}-{hashlib.sha256(os.path.abspath(REPO).encode()).hexdigest()[:8]}-{repo_source_hash()}.rs")
    if os.path.exists(out) and os.path.getsize(out) > 0:
        return out
    env = dict(os.environ)
    # one target directory per source tree: cargo's freshness check is path/mtime based, so two different copies of the
    # repository must never share build artefacts (a proc-macro crate built from a modified copy would be reused)
    tdir = os.path.join(EXPAND_TARGET, hashlib.sha256(os.path.abspath(REPO).encode()).hexdigest()[:12])
    env.update({"RUSTUP_TOOLCHAIN": "stable-x86_64-unknown-linux-gnu", "RUSTC_BOOTSTRAP": "1", "CARGO_NET_OFFLINE": "true",
                "CARGO_TARGET_DIR": tdir})
    forget_stale_workspace_artefacts(tdir)
    p = subprocess.run(["cargo", "rustc", "--offline", "-p", pkg, "--lib", "--profile", "check", "--", "-Zunpretty=expanded"],
                       cwd=REPO, env=env, capture_output=True, text=True)
    if p.returncode != 0 or "fn " not in p.stdout:
        raise Undecided(f"macro expansion of {pkg} failed (the modified sources do not compile?): {p.stderr[-1500:]}")
    tmp = out + f".{os.getpid()}.tmp"
    with open(tmp, "w") as f:
        f.write(p.stdout)
    os.replace(tmp, out)
    # keep the cache small
    olds = sorted((os.path.getmtime(os.path.join(EXPAND_CACHE, x)), x) for x in os.listdir(EXPAND_CACHE) if x.endswith(".rs"))
    for _, x in olds[:-40]:
        try:
            os.remove(os.path.join(EXPAND_CACHE, x))
        except OSError:
            pass
    return out


# ------------------------------------------------------------------------------------------------
# type generation (T7)

PRIM = {"u32", "i32", "u64", "i64", "u128", "i128", "bool", "()"}


def tosv_call(ty: str) -> str:
    return f"<{ty} as ToSV>::unsv"


def gen_struct(t: dict) -> str:
    name, g = t["name"], t.get("generics", "")
    body = t["body"]
    kind = body["kind"]
    fields = body["fields"]
    out = []
    if kind == "named":
        fl = ", ".join(f"pub {f['name']}: {f['ty']}" for f in fields)
        out.append(f"pub struct {name}{g} {{ {fl} }}")
        acc = [f"self.{f['name']}" for f in fields]
        ctor = name + " { " + ", ".join(f"{f['name']}: {tosv_call(f['ty'])}(s[{i}])" for i, f in enumerate(fields)) + " }"
    elif kind == "tuple":
        fl = ", ".join(f"pub {f['ty']}" for f in fields)
        out.append(f"pub struct {name}{g}({fl});")
        acc = [f"self.{i}" for i, _ in enumerate(fields)]
        ctor = name + "(" + ", ".join(f"{tosv_call(f['ty'])}(s[{i}])" for i, f in enumerate(fields)) + ")"
    else:
        out.append(f"pub struct {name}{g};")
        acc, ctor = [], name
    if t["attr"] in ("contracttype", "contractevent"):
        elems = ", ".join(a + ".sv()" for a in acc)
        out.append(f"""impl ToSV for {name} {{
    open spec fn sv(&self) -> SV {{ SV::Vec(seq![{elems}]) }}
    open spec fn unsv(v: SV) -> Self {{ match v {{ SV::Vec(s) => {ctor}, _ => arbitrary() }} }}
    proof fn lemma_rt(&self) {{ {' '.join(a + '.lemma_rt();' for a in acc)} }}
}}""")
        out.append(clone_impl(name))
    elif "Clone" in t["derives"]:
        out.append(clone_impl(name))
    if "PartialEq" in t["derives"]:
        out.append(eq_impl(name))
    if t["attr"] == "contractevent":
        elems = ", ".join([f"SV::Sym({sym_code(name)}int)"] + [a + ".sv()" for a in acc])
        out.append(f"""impl {name} {{
    /// the published event, as recorded in the ghost log (T7)
    pub open spec fn ev(&self) -> SV {{ SV::Vec(seq![{elems}]) }}
    #[verifier::external_body]
    pub fn publish(&self, e: &mut Env)
        ensures final(e)@ == (World {{ events: old(e)@.events.push(self.ev()), ..old(e)@ }}),
    {{ unimplemented!() }}
}}""")
    return "\n".join(out)


def clone_impl(name):
    return f"""impl Clone for {name} {{
    #[verifier::external_body]
    fn clone(&self) -> (r: Self) ensures r == *self {{ unimplemented!() }}
}}"""


def eq_impl(name):
    return f"""impl PartialEqSpecImpl for {name} {{
    open spec fn obeys_eq_spec() -> bool {{ true }}
    open spec fn eq_spec(&self, other: &{name}) -> bool {{ *self == *other }}
}}
impl PartialEq for {name} {{
    #[verifier::external_body]
    fn eq(&self, other: &{name}) -> (r: bool) {{ unimplemented!() }}
}}
impl Eq for {name} {{}}"""


def gen_enum(t: dict) -> str:
    name = t["name"]
    vs = t["variants"]
    out = []
    if t["attr"] == "contracterror" or all(v["discr"] is not None for v in vs):
        body = ", ".join(f"{v['name']} = {v['discr']}" for v in vs)
        out.append(f"pub enum {name} {{ {body} }}")
        if t["attr"] == "contracttype":
            arms = ", ".join(f"{name}::{v['name']} => SV::U32({v['discr']})" for v in vs)
            un = " else ".join(f"if v == SV::U32({v['discr']}) {{ {name}::{v['name']} }}" for v in vs) + " else { arbitrary() }"
            out.append(f"""impl ToSV for {name} {{
    open spec fn sv(&self) -> SV {{ match self {{ {arms} }} }}
    open spec fn unsv(v: SV) -> Self {{ {un} }}
    proof fn lemma_rt(&self) {{}}
}}""")
            out.append(clone_impl(name))
        elif "Clone" in t["derives"]:
            out.append(clone_impl(name))
        if "PartialEq" in t["derives"]:
            out.append(eq_impl(name))
        return "\n".join(out)
    decl = []
    sv_arms, un_arms, rt_arms = [], [], []
    for v in vs:
        b = v["body"]
        code = sym_code(v["name"])
        if b["kind"] == "unit":
            decl.append(v["name"])
            sv_arms.append(f"{name}::{v['name']} => SV::Vec(seq![SV::Sym({code}int)])")
            un_arms.append(f"if s[0] == SV::Sym({code}int) {{ {name}::{v['name']} }}")
            rt_arms.append(f"{name}::{v['name']} => {{}}")
        elif b["kind"] == "tuple":
            fs = b["fields"]
            decl.append(f"{v['name']}(" + ", ".join(f["ty"] for f in fs) + ")")
            xs = [f"x{i}" for i in range(len(fs))]
            sv_arms.append(f"{name}::{v['name']}({', '.join(xs)}) => SV::Vec(seq![SV::Sym({code}int), " + ", ".join(x + ".sv()" for x in xs) + "])")
            un_arms.append(f"if s[0] == SV::Sym({code}int) {{ {name}::{v['name']}(" + ", ".join(f"{tosv_call(f['ty'])}(s[{i+1}])" for i, f in enumerate(fs)) + ") }")
            rt_arms.append(f"{name}::{v['name']}({', '.join(xs)}) => {{ " + " ".join(x + ".lemma_rt();" for x in xs) + " }")
        else:
            raise Undecided(f"enum {name}: struct-like variant unsupported")
    out.append(f"pub enum {name} {{ {', '.join(decl)} }}")
    if t["attr"] == "contracttype":
        out.append(f"""impl ToSV for {name} {{
    open spec fn sv(&self) -> SV {{ match self {{ {', '.join(sv_arms)} }} }}
    open spec fn unsv(v: SV) -> Self {{ match v {{ SV::Vec(s) => {' else '.join(un_arms)} else {{ arbitrary() }}, _ => arbitrary() }} }}
    proof fn lemma_rt(&self) {{ match self {{ {' '.join(rt_arms)} }} }}
}}""")
        out.append(clone_impl(name))
    elif "Clone" in t["derives"]:
        out.append(clone_impl(name))
    if "PartialEq" in t["derives"]:
        out.append(eq_impl(name))
    return "\n".join(out)


def gen_type(t: dict) -> str:
    return gen_struct(t) if t["kind"] == "struct" else gen_enum(t)


# ------------------------------------------------------------------------------------------------
# spec pack parsing (.vspec)

class FnSpec:
    def __init__(self, key):
        self.key = key
        self.props = []
        self.contract = ""      # requires/ensures text
        self.loops = {}         # k -> text
        self.closures = {}      # k -> text
        self.iters = {}         # k -> name
        self.proofs = []        # (anchor, text)
        self.ghosts = []        # `let ghost` snapshot lines inserted at function entry
        self.trusted = False
        self.no_canary = None
        self.returns = "r"
        self.opts = {}


def parse_vspec(text: str, path: str) -> dict:
    specs = {}
    cur = None
    section = None
    buf = []

    def flush():
        nonlocal buf, section
        if cur is None or section is None:
            buf = []
            return
        t = "\n".join(buf).rstrip()
        if section == "contract":
            cur.contract = t
        elif section[0] == "loop":
            cur.loops[section[1]] = t
        elif section[0] == "closure":
            cur.closures[section[1]] = t
        elif section[0] == "proof":
            cur.proofs.append((section[1], t))
        elif section[0] == "ghost":
            # ghost snapshots of by-value `mut` parameters (Verus has no old() for them): `let ghost x0 = x;` only
            for gl in t.split("\n"):
                if gl.strip() and not re.match(r"^\s*let ghost [A-Za-z_][A-Za-z_0-9]*(\s*:[^=;]+)?\s*=[^;]*;\s*$", gl):
                    raise Undecided(f"{path}: @ghost accepts only `let ghost <name> = <path>;` lines, got {gl.strip()!r}")
            if section[1] != "entry":
                # `@ghost after "text"` / `@ghost before "text"`: ghost snapshots of intermediate states (same restricted
                # `let ghost` form), spliced at the anchor as plain ghost statements instead of inside a proof block
                cur.proofs.append((section[1], GHOST_MARK + t))
            else:
                cur.ghosts.append(t)
        buf = []

    for ln, line in enumerate(text.splitlines(), 1):
        s = line.strip()
        if s.startswith("@fn "):
            flush()
            parts = s.split()
            cur = FnSpec(parts[1])
            for p in parts[2:]:
                if "=" in p:
                    k, v = p.split("=", 1)
                    if k == "props":
                        cur.props = v.split(",")
                    else:
                        cur.opts[k] = v
            if cur.key in specs:
                raise Undecided(f"{path}:{ln}: duplicate @fn {cur.key}")
            specs[cur.key] = cur
            section = "contract"
        elif s.startswith("@loop "):
            flush()
            section = ("loop", int(s.split()[1]))
        elif s.startswith("@closure "):
            flush()
            section = ("closure", int(s.split()[1]))
        elif s.startswith("@iter "):
            _, k, nm = s.split()
            cur.iters[int(k)] = nm
        elif s.startswith("@proof "):
            flush()
            section = ("proof", s[len("@proof "):].strip())
        elif s == "@ghost":
            flush()
            section = ("ghost", "entry")
        elif s.startswith("@ghost "):
            flush()
            section = ("ghost", s[len("@ghost "):].strip())
        elif s == "@trusted":
            cur.trusted = True
        elif s.startswith("@no_canary"):
            cur.no_canary = s[len("@no_canary"):].strip() or "never returns"
        elif s == "@end":
            flush()
            cur, section = None, None
        else:
            if cur is not None:
                buf.append(line)
            elif s and not s.startswith("//"):
                raise Undecided(f"{path}:{ln}: text outside @fn block")
    flush()
    return specs


GHOST_MARK = "// vx:ghost-snapshot\n"
GHOST_OK = re.compile(r"^\s*(requires|ensures|invariant|invariant_except_break|ensures|decreases|returns|no_unwind|opens_invariants)\b")


# ------------------------------------------------------------------------------------------------
# body marker handling

def find_matching(s: str, i: int, open_c="(", close_c=")") -> int:
    depth = 0
    j = i
    while j < len(s):
        c = s[j]
        if c == open_c:
            depth += 1
        elif c == close_c:
            depth -= 1
            if depth == 0:
                return j
        j += 1
    raise Undecided("unbalanced marker")


_TOK = re.compile(r"[A-Za-z_]\w*|\d[\w.]*|\S")
_KW = {"let", "mut", "if", "else", "match", "for", "in", "while", "loop", "return", "break", "continue", "fn", "as", "ref",
       "true", "false", "Some", "None", "Ok", "Err", "Self", "self", "move", "proof", "assert", "by", "forall", "exists"}


def local_rename_map(old_body: str, new_body: str, params: list):
    """If `new_body` is `old_body` with some LOCAL variables consistently renamed and nothing else changed, return
    {old name: new name}; otherwise None. (Token sequences must agree everywhere except at identifiers; the mapping must be
    one-to-one, must map an identifier the same way at every occurrence, and must not touch parameters or keywords.)"""
    a, b = _TOK.findall(old_body), _TOK.findall(new_body)
    if len(a) != len(b) or a == b:
        return None
    fwd, back = {}, {}
    ident = re.compile(r"[A-Za-z_]\w*$")
    for x, y in zip(a, b):
        if not (ident.match(x) and ident.match(y)):
            if x != y:
                return None
            continue
        if x != y and (x in _KW or y in _KW or x in params or y in params):
            return None
        if fwd.get(x, y) != y or back.get(y, x) != x:
            return None
        fwd[x], back[y] = y, x
    m = {x: y for x, y in fwd.items() if x != y}
    # a renamed local is introduced by a binder in the old body (`let x`, `let mut x`, `for x in`, `|x|`, pattern)
    return m or None


def rename_spec(spec: "FnSpec", m: dict) -> "FnSpec":
    """the ghost annotations of one function with local names replaced (contract clauses talk about parameters and are left alone)"""
    import copy
    sp = copy.copy(spec)

    def rw(t):
        return re.sub(r"\b(%s)\b" % "|".join(re.escape(k) for k in m), lambda mo: m[mo.group(1)], t) if t else t
    sp.loops = {k: rw(v) for k, v in spec.loops.items()}
    sp.closures = dict(spec.closures)
    sp.proofs = [(rw(p[0]), rw(p[1])) + tuple(p[2:]) for p in spec.proofs]
    sp.ghosts = [rw(g) for g in spec.ghosts]
    return sp


def outside_inlined(lines: list, pos: int) -> int:
    """`pos` is an insertion index into `lines` (the hint goes before lines[pos]). Inside the text of an inlined helper
    (between /*@inl*/ and /*@endinl*/) the helper's parameter names shadow the caller's variables, which the caller's hints
    talk about: move the insertion point behind the inlined block."""
    depth, start = 0, None
    for i, l in enumerate(lines):
        opens, closes = l.count("/*@inl*/"), l.count("/*@endinl*/")
        if depth == 0 and opens:
            start = i
        depth += opens - closes
        if depth == 0 and start is not None:
            if start < pos <= i:
                return i + 1
            start = None
    return pos


def remap_anchor(needle: str, nth: int, old_body: str, new_lines: list):
    """The anchor text of a proof hint is gone from the translated body. If the body this hint was last locked against
    (anchors.lock.json) is known, find the line the anchor named THERE and carry it over to the current body through a
    line diff: a line inside a replaced region of equal length maps by offset, the first line of a replaced region maps
    to the first line of its replacement. Returns (new_needle, new_nth) naming that line of the current body, or None."""
    import difflib
    if not old_body:
        return None
    old_lines = old_body.split("\n")
    hits = [i for i, l in enumerate(old_lines) if needle in l]
    if len(hits) <= nth:
        return None
    L = hits[nth]
    a = [l.strip() for l in old_lines]
    b = [l.strip() for l in new_lines]
    Ln = None
    for tag, i1, i2, j1, j2 in difflib.SequenceMatcher(None, a, b, autojunk=False).get_opcodes():
        if i1 <= L < i2:
            if tag == "equal" or (tag == "replace" and i2 - i1 == j2 - j1):
                Ln = j1 + (L - i1)
            elif tag == "replace" and L == i1 and j2 > j1:
                Ln = j1
            break
    if Ln is None or not b[Ln]:
        return None
    text = new_lines[Ln]
    return text, sum(1 for l in new_lines[:Ln] if text in l)


def splice_body(body: str, spec: FnSpec, n_loops: int, key: str, diverge_spec="ensures false", lost=None, old_body=None, rec=None) -> str:
    if lost is None:
        lost = LOST_HINTS
    # loops
    for k in range(n_loops):
        inv = spec.loops.get(k, "") if spec else ""
        pat = re.compile(r"\{\s*__vx_loop!\(%d\);" % k)
        m = pat.search(body)
        if not m:
            raise Undecided(f"{key}: loop marker {k} lost")
        rep = ("\n" + inv + "\n{") if inv.strip() else "{"
        body = body[:m.start()] + rep + body[m.end():]
        mt = re.search(r"__vx_iter!\(\s*%d\s*," % k, body)   # prettyplease may break the line after `(`
        i = mt.start() if mt else -1
        if i >= 0:
            j = find_matching(body, i + len("__vx_iter!"))
            inner = body[mt.end():j].strip()
            nm = spec.iters.get(k) if spec else None
            body = body[:i] + (f"{nm}: {inner}" if nm else inner) + body[j + 1:]
    if spec:
        for k in spec.loops:
            if k >= n_loops:
                lost.append(f"{key}: loop spec {k} dropped (the function now has {n_loops} loops)")
    # diverging closures (T5)
    def clos(m):
        k = int(m.group(4))
        txt = (spec.closures.get(k) if spec else None)
        if txt is None:
            txt = diverge_spec if m.group(3) == "diverge" else ""
        # a closure with a declared return type `|..| -> T {`: kept unless the spec text names the result itself (`-> (r: T) ensures ..`)
        ret = (m.group(2) or "").strip()
        head = m.group(1) if (not ret or txt.strip().startswith("->")) else f"{m.group(1)} {ret}"
        return f"{head} {txt.strip()} {{" if txt.strip() else f"{head} {{"
    body = re.sub(r"(\|[^|]*\|)\s*(->\s*[^{]+?)?\s*\{\s*__vx_(diverge|closure)!\((\d+)\);", clos, body)
    if re.search(r"__vx_\w+!", body):   # markers are macros; `__vx_a<k>` are the T1 argument temporaries
        raise Undecided(f"{key}: unreplaced marker")
    # proof insertions
    if spec and rec is not None and any(p[0].startswith(("after ", "before ")) for p in spec.proofs):
        rec[key] = body
    if spec:
        for text in spec.ghosts:
            i = body.index("{")
            body = body[:i + 1] + "\n" + text + body[i + 1:]
        body0_lines = body.split("\n")
        for pitem in spec.proofs:
            anchor, text = pitem[0], pitem[1]
            block = text[len(GHOST_MARK):] if text.startswith(GHOST_MARK) else ("proof {\n" + text + "\n}")
            if anchor == "entry":
                i = body.index("{")
                body = body[:i + 1] + "\n" + block + body[i + 1:]
            elif anchor.startswith("after "):
                m = re.match(r'after\s+"(.*)"(?:\s+#?(\d+))?$', anchor)
                if not m:
                    raise Undecided(f"{key}: bad anchor {anchor}")
                needle, nth = m.group(1), int(m.group(2) or 0)
                lines = body.split("\n")
                hits = [i for i, l in enumerate(lines) if needle in l]
                if len(hits) <= nth:
                    rm = remap_anchor(needle, nth, old_body, body0_lines)
                    if rm:
                        needle, nth = rm
                        hits = [i for i, l in enumerate(lines) if needle in l]
                if len(hits) <= nth:
                    # ghost hint only: without it the proof can fail but never wrongly succeed
                    lost.append(f"{key}: proof hint at anchor {anchor!r} dropped (anchor text no longer present)")
                    continue
                L = hits[nth]
                ind = len(lines[L]) - len(lines[L].lstrip())
                end = None
                for i in range(L, len(lines)):
                    li = lines[i]
                    if len(li) - len(li.lstrip()) == ind and (li.rstrip().endswith(";") or (i > L and li.strip() in ("}", "};"))):
                        end = i
                        break
                    if i == L and li.rstrip().endswith("{"):
                        continue
                if end is None:
                    lost.append(f"{key}: proof hint at anchor {anchor!r} dropped (statement end not found)")
                    continue
                lines.insert(outside_inlined(lines, end + 1), block)
                body = "\n".join(lines)
            elif anchor == "end":
                i = body.rindex("}")
                body = body[:i] + block + "\n" + body[i:]
            elif anchor.startswith("before "):
                m = re.match(r'before\s+"(.*)"(?:\s+#?(\d+))?$', anchor)
                needle, nth = m.group(1), int(m.group(2) or 0)
                lines = body.split("\n")
                hits = [i for i, l in enumerate(lines) if needle in l]
                if len(hits) <= nth:
                    rm = remap_anchor(needle, nth, old_body, body0_lines)
                    if rm:
                        needle, nth = rm
                        hits = [i for i, l in enumerate(lines) if needle in l]
                if len(hits) <= nth:
                    # ghost hint only: without it the proof can fail but never wrongly succeed
                    lost.append(f"{key}: proof hint at anchor {anchor!r} dropped (anchor text no longer present)")
                    continue
                L = hits[nth]
                # the hit may be a continuation line of a multi-line statement (`let x = e\n    .f(..)`):
                # walk back to the line that starts the statement
                while L > 0 and lines[L - 1].strip() and not lines[L - 1].rstrip().endswith((";", "{", "}")):
                    L -= 1
                lines.insert(outside_inlined(lines, L), block)
                body = "\n".join(lines)
            else:
                raise Undecided(f"{key}: unknown anchor {anchor}")
    return body


def _split_top(s: str) -> list:
    """split an argument list at top-level commas ((), [], {}, ::<> and string/char literals respected)"""
    out, depth, cur, i, n = [], 0, "", 0, len(s)
    angle = 0
    while i < n:
        c = s[i]
        if c == '"':
            j = i + 1
            while j < n and s[j] != '"':
                j += 2 if s[j] == "\\" else 1
            cur += s[i:j + 1]
            i = j + 1
            continue
        if c in "([{":
            depth += 1
        elif c in ")]}":
            depth -= 1
        elif c == "<" and cur.rstrip().endswith("::"):
            angle += 1
        elif c == ">" and angle > 0 and not cur.endswith("-"):
            angle -= 1
        if c == "," and depth == 0 and angle == 0:
            out.append(cur.strip())
            cur = ""
        else:
            cur += c
        i += 1
    if cur.strip():
        out.append(cur.strip())
    return out


def sig_sha(f: dict) -> str:
    """hash of a function's source-level signature (parameter names and types before rule T1, return type)"""
    return hashlib.sha256(json.dumps(sorted([p["name"], p.get("orig_ty", p["ty"])] for p in f["params"]) + [f.get("ret")]).encode()).hexdigest()[:16]


def sig_params(f: dict) -> list:
    return [[p["name"], p.get("orig_ty", p["ty"])] for p in f["params"]]


def inline_new_helpers(tr: dict, specs: dict, locked_fns: set, force: set = frozenset()) -> list:
    """A function that did not exist when the unit was locked and has no contract in the spec pack is typically a helper
    introduced by an edit. Modular verification knows nothing about it, so its callers would be undecidable. Where the
    helper is a plain block (no `return`, no `?`, no loop, no closure, no generics, not recursive) its translated body is
    substituted for each call - `{ let <param>: <ty> = <arg>; ... <body> }`, arguments evaluated first, in order, exactly
    as the call does - and the callers are then verified against their own contracts. Returns notes for the evidence."""
    notes = []
    if not locked_fns:
        return notes
    for _round in range(4):
        fns = tr["fns"]
        cand = None
        for f in fns:
            k = f["key"]
            sp = specs.get(k)
            if k not in force and (k in locked_fns or (sp and (sp.contract.strip() or sp.trusted))):
                continue
            b = f["body"]
            gen_names = re.findall(r"(?:^|,)\s*(?:const\s+)?([A-Za-z_]\w*)", f.get("generics") or "")
            if (re.search(r"\breturn\b", b) or "?" in b or re.search(r"__vx_\w+!", b) or k in (f.get("callees") or [])
                    or f.get("in_trait_decl") or f.get("trait")
                    or any(re.search(r"\b%s\b" % re.escape(g_), b) for g_ in gen_names)):
                continue       # (a generic helper is fine as long as its body never names a type parameter)
            if not any(k in (g.get("callees") or []) for g in fns if g is not f):
                continue
            cand = f
            break
        if cand is None:
            break
        k, name, ity = cand["key"], cand["name"], cand.get("impl_type")
        ok_all = True
        for g in fns:
            if g is cand or k not in (g.get("callees") or []):
                continue
            if ity and "Self" in cand["body"] and g.get("impl_type") != ity:
                ok_all = False
                continue
            body, pos, changed = g["body"], 0, False
            if ity:
                pat = re.compile(r"(?<![\w:.])(?:Self|%s(?:::<[^()]*?>)?)::%s\(" % (re.escape(ity), re.escape(name)))
            else:
                pat = re.compile(r"(?<![\w:.])%s\(" % re.escape(name))
            while True:
                m = pat.search(body, pos)
                if not m:
                    break
                close = find_matching(body, m.end() - 1)
                args = _split_top(body[m.end():close])
                params = cand["params"]
                if len(args) != len(params):
                    ok_all = False
                    pos = m.end()
                    continue
                lets, bad = [], False
                for p, a in zip(params, args):
                    if a == p["name"]:
                        continue       # same name in caller and helper: the body reads the caller's variable directly
                    if p["ty"].replace(" ", "") in ("&Env", "&mutEnv"):
                        bad = True     # would need a re-borrow of the environment under another name
                        break
                    gen_here = re.findall(r"(?:^|,)\s*(?:const\s+)?([A-Za-z_]\w*)", cand.get("generics") or "")
                    if any(re.search(r"\b%s\b" % re.escape(g_), p["ty"]) for g_ in gen_here):
                        lets.append(f"let {p['name']}: _ = {a};")      # the parameter's type mentions a type parameter: inferred
                    else:
                        lets.append(f"let {p['name']}: {p['ty']} = {a};")
                if bad:
                    ok_all = False
                    pos = m.end()
                    continue
                if len(lets) > 1:
                    # all arguments are evaluated before any parameter name is bound (a later argument may mention a
                    # variable that has the name of an earlier parameter)
                    names_ = [re.match(r"let (\w+): ", l_).group(1) for l_ in lets]
                    tys_ = [re.match(r"let \w+: (.*) = ", l_).group(1) for l_ in lets]
                    args_ = [re.match(r"let \w+: .*? = (.*);$", l_, re.S).group(1) for l_ in lets]
                    lets = [f"let ({', '.join(names_)}): ({', '.join(tys_)}) = ({', '.join(args_)});"]
                rep = "/*@inl*/ { " + " ".join(lets) + " " + cand["body"] + " } /*@endinl*/"
                body = body[:m.start()] + rep + body[close + 1:]
                pos = m.start() + len(rep)
                changed = True
            if re.search(pat, body):
                ok_all = False
            if changed:
                g["body"] = body
                g["callees"] = sorted((set(g["callees"]) - ({k} if not re.search(pat, body) else set())) | set(cand.get("callees") or []))
                g["n_loops"] = g.get("n_loops", 0)
                notes.append(f"{k} ({'contract dropped' if k in force else 'new, no contract'}) inlined into {g['key']}")
        if ok_all:
            tr["fns"] = [f for f in fns if f is not cand]
        else:
            break
    return notes


_CLIENT_M = re.compile(
    r"(?P<head>[ \t]*#\[verifier::external_body\]\s*\n[ \t]*pub fn (?P<name>\w+)\(&self, e: &mut Env(?P<params>[^)]*)\)\s*->\s*\(r: (?P<ret>\(\)|[^()]+(?:<[^()]*>)?)\)\s*\n"
    r"\s*ensures xcall_post\(old\(e\)@, final\(e\)@, self\.address, (?P<fn>[^,]+),\s*(?P<args>.*?), r\.sv\(\)\),\s*\n[ \t]*\{ unimplemented!\(\) \}\n)", re.S)


def add_try_client_methods(text: str) -> str:
    """for each generated-client method modelled with the generic `xcall_post` contract, the SDK's `try_` variant (model/xcall.rs)"""
    def rep(m):
        name = m.group("name")
        if name.startswith("try_") or re.search(r"\bfn try_%s\b" % re.escape(name), text):
            return m.group(0)
        fn, args, ret, params = m.group("fn"), m.group("args"), m.group("ret").strip(), m.group("params")
        t = f"""    #[verifier::external_body]
    pub fn try_{name}(&self, e: &mut Env{params}) -> (r: Result<Result<{ret}, ConversionError>, Result<SdkError, InvokeError>>)
        ensures match r {{
            Ok(Ok(v)) => xcall_post(old(e)@, final(e)@, self.address, {fn}, {args}, v.sv()),
            Ok(Err(_)) => final(e)@.calls.len() > 0 && xcall_post(old(e)@, final(e)@, self.address, {fn}, {args}, final(e)@.calls.last().ret),
            Err(_) => xcall_failed(old(e)@, final(e)@, self.address, {fn}, {args}),
        }},
    {{ unimplemented!() }}
"""
        return m.group(0) + t
    return _CLIENT_M.sub(rep, text)


# ------------------------------------------------------------------------------------------------
# assembly

PRELUDE_HEAD = """#![allow(unused_imports, unused_variables, dead_code, unused_mut, unused_macros, non_snake_case, unused_parens, unused_braces, unreachable_code, non_camel_case_types, non_upper_case_globals)]
use vstd::prelude::*;
use vstd::std_specs::cmp::PartialEqSpecImpl;
use vstd::std_specs::iter::IteratorSpecImpl;

macro_rules! panic_with_error {
    ($e:expr, $err:expr) => { sdk_panic($err as u32) };
}
macro_rules! symbol_short {
    ($s:literal) => { Symbol::vx_short($s) };
}
macro_rules! vx_panic {
    ($($t:tt)*) => { sdk_panic(0u32) };
}
"""


def load_unit(unit: str) -> dict:
    d = os.path.join(VERIF, "specs", unit)
    with open(os.path.join(d, "unit.json")) as f:
        u = json.load(f)
    u["dir"] = d
    u["name"] = unit
    return u


def fix_bounds(t: str) -> str:
    """T9: SDK conversion bounds -> the model's encoding trait"""
    t = re.sub(r"(IntoVal|TryFromVal|TryIntoVal)\s*<\s*Env\s*,\s*Val\s*>", "ToSV", t)
    return t


def fn_header(f: dict, name_override=None, ret_name="r") -> str:
    g = f"<{f['generics']}>" if f["generics"] else ""
    ps = ", ".join(f"{p['name']}: {p['ty']}" if p["name"] != "self" else p["ty"] for p in f["params"])
    ret = f" -> ({ret_name}: {f['ret']})" if f["ret"] else ""
    vis = (f["vis"] + " ") if f["vis"] else ""
    nm = name_override or f["name"]
    wh = ("\n    " + f["where"]) if f.get("where") else ""
    g = fix_bounds(g)
    wh = fix_bounds(wh)
    return f"{vis}fn {nm}{g}({ps}){ret}{wh}"


def strip_ensures(contract: str) -> str:
    """the `requires` part of a contract (for canaries)"""
    lines = contract.split("\n")
    out = []
    keep = True
    for l in lines:
        s = l.strip()
        if re.match(r"^(ensures|returns)\b", s):
            keep = False
        elif re.match(r"^(requires)\b", s):
            keep = True
        elif re.match(r"^(decreases|no_unwind|opens_invariants)\b", s):
            keep = True
        if keep:
            out.append(l)
    return "\n".join(out)


def spec_rename(unit: dict, sf: str, text: str) -> str:
    """"spec_renames": {"<spec or contract file as listed>": {"old": "new"}} — whole-word renaming of ghost names in a
    BORROWED spec/contract file, for units that combine two spec packs defining the same name (e.g. `cur_owner`)"""
    for a, b in unit.get("spec_renames", {}).get(sf, {}).items():
        text = re.sub(r"\b%s\b" % re.escape(a), b, text)
    # enum variants renamed in the sources since the unit was locked (same position, same payload): ghost text follows
    for a, b in unit.get("_variant_renames", {}).items():
        text = re.sub(r"\b%s\b" % re.escape(a), b, text)
    # "spec_subst": {"<borrowed spec file as listed>": [["old text", "new text"], …]} — literal replacement of ONE occurrence;
    # used by strict units to STRENGTHEN a borrowed declaration (e.g. give a trait method a `requires`) without copying the file
    for a, b in unit.get("spec_subst", {}).get(sf, []):
        if text.count(a) != 1:
            raise Undecided(f"lost anchor: spec_subst text for {sf} occurs {text.count(a)} times: {a[:60]!r}")
        text = text.replace(a, b)
    return text


class Assembled:
    def __init__(self):
        self.text = ""
        self.fn_ranges = []   # (start_line, end_line, key, kind) kind in fn|canary
        self.body_ranges = [] # (first_line, last_line) of every emitted function body
        self.labels = []      # (line, label)
        self.fns = {}
        self.unit = None
        self.spec_fn_ranges = []
        self.n_canaries = 0
        self.translation = {}


def assemble(unit: dict, scratch: str, passname="A", drop_contracts=frozenset()) -> Assembled:
    job = {k: unit[k] for k in ("files", "fns", "exclude_fns", "aliases", "rename_calls", "extern_effectful", "extern_pure",
                                "force_effectful", "native_arith", "rename_fns", "exclude_fn_prefixes") if k in unit}
    job["root"] = REPO
    job["checked_arith"] = passname == "A"
    if unit.get("expand"):
        files = []
        for f in job["files"]:
            if f in unit["expand"]:
                files.append(expand_example(unit["expand"][f]))
            else:
                files.append(f)
        job["files"] = files
    for k in ("resolve_trait_defaults",):
        if k in unit:
            job[k] = unit[k]
    tr = run_translator(job, scratch, unit["name"])
    lockp = os.path.join(unit["dir"], "obligations.lock")
    locked_fns = {l.strip()[3:] for l in open(lockp) if l.startswith("fn:")} if os.path.exists(lockp) else set()
    # a function of the listed files that the selected functions call, that is not in the unit's selection and did not
    # exist when the unit was locked (a helper introduced by an edit) is pulled into the extraction
    known_fns = {l.strip()[6:] for l in open(lockp) if l.startswith("known:")} if os.path.exists(lockp) else set()
    for _ in range(3):
        if not known_fns or "*" in job.get("fns", []):
            break
        new = sorted({k for f in tr["fns"] for k in (f.get("unselected_callees") or [])
                      if k not in locked_fns and k not in known_fns and k not in job.get("exclude_fns", [])})
        if not new:
            break
        job["fns"] = list(job["fns"]) + new
        tr = run_translator(job, scratch, unit["name"])
    type_shapes = {t["name"]: [[v["name"], [fl["ty"] for fl in v["body"]["fields"]]] for v in t["variants"]]
                   for t in tr["types"] if t.get("kind") == "enum" and t.get("variants") is not None}
    tlp = os.path.join(unit["dir"], "types.lock.json")
    variant_renames = {}
    if os.path.exists(tlp):
        for name, old_vs in json.load(open(tlp)).items():
            new_vs = type_shapes.get(name)
            if new_vs and len(new_vs) == len(old_vs) and all(a[1] == b[1] for a, b in zip(old_vs, new_vs)):
                old_names, new_names = [a[0] for a in old_vs], [b[0] for b in new_vs]
                if old_names != new_names and len(set(new_names)) == len(new_names) and not (set(new_names) - set(old_names)) & set(old_names):
                    for a, b in zip(old_names, new_names):
                        if a != b and b not in old_names:
                            variant_renames[f"{name}::{a}"] = f"{name}::{b}"
    unit = dict(unit, _variant_renames=variant_renames)
    specs = {}
    for sf in unit.get("contracts", []):
        p = os.path.join(unit["dir"], sf)
        specs.update(parse_vspec(spec_rename(unit, sf, open(p).read()), p))
    # a contracted function whose source-level signature is not the one its contract was locked against: the contract text
    # no longer applies (it names parameters that are gone / new). If the function is a plain block it is inlined into its
    # callers, whose own contracts then decide; its own labelled clauses are reported as not checkable (check: exit 2 unless
    # a caller fails).
    locked_sigs = {}
    if os.path.exists(lockp):
        for l in open(lockp):
            if l.startswith("sig:"):
                k_, h_ = l.strip()[4:].rsplit(":", 1)
                locked_sigs[k_] = h_
    locked_params = {}
    if os.path.exists(lockp):
        for l in open(lockp):
            if l.startswith("sigp:"):
                k_, j_ = l.strip()[5:].split(":[", 1)
                locked_params[k_] = json.loads("[" + j_)
    sig_changed = set()
    param_renames = {}
    for f in tr["fns"]:
        k_ = f["key"]
        if k_ in locked_sigs and k_ in specs and locked_sigs[k_] != sig_sha(f) and not os.environ.get("VERIF_RELOCK"):
            oldp, newp = locked_params.get(k_), sig_params(f)
            if oldp and len(oldp) == len(newp) and [a[1] for a in oldp] == [b[1] for b in newp]:
                # same types in the same order, only names differ: a pure parameter rename - the contract and the ghost
                # annotations follow it
                rm_ = {a[0]: b[0] for a, b in zip(oldp, newp) if a[0] != b[0]}
                if rm_ and len(set(rm_.values())) == len(rm_) and not (set(rm_.values()) & {a[0] for a in oldp}):
                    sp_ = rename_spec(specs[k_], rm_)
                    sp_.contract = re.sub(r"\b(%s)\b" % "|".join(re.escape(x) for x in rm_), lambda mo: rm_[mo.group(1)], specs[k_].contract)
                    specs[k_] = sp_
                    param_renames[k_] = rm_
                    continue
            sig_changed.add(k_)
    sig_changed |= {k_ for k_ in drop_contracts if k_ in specs}
    # functions about to be inlined (contract dropped, or new helpers) whose body has guard-style early returns: ask the
    # translator for the equivalent nesting (rule T19), so that the body becomes a plain block
    def _needs_nest(f):
        sp0 = specs.get(f["key"])
        cand = f["key"] in sig_changed or (f["key"] not in locked_fns and known_fns and not (sp0 and (sp0.contract.strip() or sp0.trusted)))
        return cand and (re.search(r"\breturn\b", f["body"]) or "?" in f["body"]) and f["key"] not in job.get("nest_returns", [])
    nest = sorted(f["key"] for f in tr["fns"] if _needs_nest(f))
    if nest:
        job["nest_returns"] = sorted(set(job.get("nest_returns", [])) | set(nest))
        tr = run_translator(job, scratch, unit["name"])
    dropped_contracts = []
    for k_ in sorted(sig_changed):
        labs_ = re.findall(r"//@\s*(\S+)", specs[k_].contract)
        before = {f["key"] for f in tr["fns"]}
        saved = specs.pop(k_)
        notes_ = inline_new_helpers(tr, specs, locked_fns, force={k_})
        if k_ in {f["key"] for f in tr["fns"]}:
            specs[k_] = saved          # could not be inlined: keep it (the unit will be undecided on a type error)
        else:
            dropped_contracts.append({"fn": k_, "labels": labs_, "notes": notes_})
    inlined = inline_new_helpers(tr, specs, locked_fns)
    fn_by_key = {f["key"]: f for f in tr["fns"]}
    # "rename_types": {"Map": "SdkMap"} — an SDK type whose name collides with a vstd type is renamed in the
    # generated types and the extracted functions (never in model or spec files)
    ren = unit.get("rename_types", {})

    def rn(s):
        for a, b in ren.items():
            s = re.sub(r"\b%s\b" % re.escape(a), b, s)
        return s
    for k in list(specs):
        if k not in fn_by_key:
            if unit.get("ignore_missing_contracts"):
                del specs[k]     # a shared contract file may cover functions this unit does not select
                continue
            raise Undecided(f"lost anchor: contract for {k} but no such function extracted")
    parts = [PRELUDE_HEAD, "verus! {\n"]
    models = list(unit.get("model", ["core"]))
    if "stdauto" not in models and not unit.get("no_stdauto"):
        models.insert(1 if models and models[0] == "core" else 0, "stdauto")
    for m in models:
        parts.append(f"// ==== model fragment {m} ====\n" + add_try_client_methods(open(os.path.join(VERIF, "model", m + ".rs")).read()))
    # consts
    want_types = unit.get("types", ["*"])
    skip_types = set(unit.get("skip_types", []))
    parts.append("// ==== constants extracted from the sources ====")
    seen_c = set()
    for c in tr["consts"]:
        if c["name"] in seen_c or c["name"] in set(unit.get("skip_consts", [])):
            continue
        seen_c.add(c["name"])
        m = re.search(r'(?:short\s*\(|symbol_short\s*!\s*\()\s*"([A-Za-z0-9_]*)"', c["expr"])
        if c["ty"].endswith("Symbol") and m:
            # a Symbol constant: Verus consts cannot call exec code, so emit an exec const with its value as a postcondition
            parts.append(f'pub exec const {c["name"]}: Symbol ensures {c["name"]}.code@ == str_code("{m.group(1)}"@) {{ Symbol::vx_const("{m.group(1)}") }}')
            continue
        mb = re.fullmatch(r'b"([^"\\]*)"', c["expr"].strip())
        if unit.get("bytestr_consts") == "array" and mb and re.fullmatch(r"&\s*(?:'static\s*)?\[\s*u8\s*\]", c["ty"].strip()):
            # unit option "bytestr_consts": "array" — this Verus rejects `const X: &[u8] = b"…"` (spike s9); the constant is
            # emitted as the fixed-size array with the same bytes (escape-free literals only).  Indexing `X[i]` has the same
            # meaning (bounds check against the same length, same element).
            bs = mb.group(1).encode("ascii")
            parts.append(f"pub const {c['name']}: [u8; {len(bs)}] = [" + ", ".join(str(b) for b in bs) + f"];   // = {c['expr']}")
            continue
        parts.append(f"pub const {c['name']}: {c['ty']} = {c['expr']};")
    parts.append("// ==== data types generated from the source items (T7) ====")
    seen_t = set()
    conv = {ti["type"] for ti in tr.get("trait_impls", []) if ti["trait"] == "TryFromVal"}
    errs = {ti["type"] for ti in tr.get("trait_impls", []) if ti["trait"] == "TryFrom" or ti["trait"] == "From"}
    for t in tr["types"]:
        if t["name"] in skip_types or t["name"] in seen_t:
            continue
        if not t["attr"] and t["name"] in conv:
            # macro-expanded source: the attribute is gone but the SDK conversions it generated are there
            t["attr"] = "contracterror" if (t["kind"] == "enum" and all(v["discr"] is not None for v in t["variants"]) and t["name"].endswith("Error")) else "contracttype"
        if "*" not in want_types and t["name"] not in want_types:
            continue
        seen_t.add(t["name"])
        parts.append(rn(gen_type(t)))
    for it in unit.get("extra_items", []):
        parts.append(it)
    parts.append("// ==== spec pack ====")
    spec_region_start = sum(p.count("\n") + 1 for p in parts) + 1
    borrowed = []   # line ranges of "borrowed_spec_files": their lemmas are verified in the unit that owns the file
    for sf in unit.get("spec_files", []):
        p = os.path.join(unit["dir"], sf) if not sf.startswith("common/") else os.path.join(VERIF, "specs", sf)
        b0 = sum(p_.count("\n") + 1 for p_ in parts) + 1
        parts.append(f"// ---- {sf} ----\n" + spec_rename(unit, sf, open(p).read()))
        if sf in unit.get("borrowed_spec_files", []):
            borrowed.append((b0, sum(p_.count("\n") + 1 for p_ in parts)))
    text = "\n".join(parts) + "\n"
    spec_region_end = text.count("\n")
    asm = Assembled()
    lost_hints, anchor_bodies = [], {}
    alp = os.path.join(unit["dir"], "anchors.lock.json")
    _al = json.load(open(alp)) if os.path.exists(alp) else {}
    anchor_lock = _al.get(passname, {})
    raw_lock = _al.get(passname + ":raw", {})
    raw_bodies, renamed_locals = {}, []
    became_effectful = []
    asm.became_effectful = became_effectful
    asm.type_shapes, asm.variant_renames = type_shapes, variant_renames
    asm.raw_bodies, asm.renamed_locals = raw_bodies, renamed_locals
    asm.lost_hints, asm.anchor_bodies = lost_hints, anchor_bodies
    asm.inlined = inlined + [n for d in dropped_contracts for n in d['notes']]
    asm.dropped_contracts = dropped_contracts
    asm.param_renames = param_renames
    asm.all_fn_keys = sorted({k.split('#', 1)[1] for k in tr.get('all_fn_keys', [])})
    asm.borrowed = borrowed
    asm.spec_region = (spec_region_start, spec_region_end)
    asm.unit = unit
    asm.translation = tr
    lines = text.count("\n")
    # functions grouped by impl
    groups = {}
    order = []
    for f in tr["fns"]:
        if f["in_trait_decl"] and not unit.get("emit_trait_defaults"):
            continue
        # trait impls are emitted as `impl Trait for T` only for the (trait, type) pairs a unit opts into via
        # "trait_impls": {"Trait for T": [ghost items (spec fns) of the impl]}; everything else stays an inherent impl
        tkey = f"{f.get('trait')} for {f['impl_self_ty']}" if f.get("trait") and not f["in_trait_decl"] else None
        if tkey not in unit.get("trait_impls", {}):
            tkey = None
        gtrait = None
        if f["impl_type"] and f.get("trait") and not f["in_trait_decl"] and (
                f["trait"] in unit.get("gen_trait_impls", []) or f"{f['trait']} for {f['impl_self_ty']}" in unit.get("gen_trait_impls", [])):
            # real trait impl with the trait declaration generated from the source (needed when the self type is a
            # primitive such as i128: no inherent impl possible)
            gtrait = f["trait"]
        g = (f["impl_type"], f["impl_generics"], f["impl_self_ty"], f.get("impl_where", ""), tkey, gtrait) if f["impl_type"] else None
        if g not in groups:
            groups[g] = []
            order.append(g)
        groups[g].append(f)
    out = []

    def emit(s):
        nonlocal lines
        out.append(s)
        lines += s.count("\n") + 1

    emit("// ==== functions extracted from /repo (bodies rewritten only by rules T1-T12) ====")
    for tname in sorted({t_.split(" for ")[0] for t_ in unit.get("gen_trait_impls", [])}):
        # declaration of a source trait whose impls are emitted as trait impls (signatures only, from the source)
        for t in tr["traits"]:
            if t["trait"] == tname:
                sups = t["supertraits"] + unit.get("trait_supers", {}).get(tname, [])   # spec-only helper supertraits
                sup = (": " + " + ".join(sups)) if sups else ""
                emit(f"pub trait {tname}{sup} {{")
                for m in t["methods"]:
                    if not any(f_.get("trait") == tname and f_["name"] == m["name"] and not f_["in_trait_decl"] for f_ in tr["fns"]):
                        continue   # excluded via exclude_fns in every impl: keep the generated trait implementable
                    ps = ", ".join(p["ty"] if p["name"] == "self" else f"{p['name']}: {p['ty']}" for p in m["params"])
                    treq = unit.get("trait_requires", {}).get(f"{tname}::{m['name']}")   # trait-level precondition (ghost)
                    emit(f"    fn {m['name']}({ps})" + (f" -> {m['ret']}" if m["ret"] else "") + (f"\n        requires {treq}" if treq else "") + ";")
                emit("}")
    for g in order:
        deferred = []   # canaries of trait-impl methods go into an inherent impl after the trait impl
        pending_canaries = []   # canaries of generated trait impls go into a companion trait
        if g is not None:
            wh = (" " + g[3]) if g[3] else ""
            if g[5]:
                emit(f"impl{g[1]} {g[5]} for {g[2]}{wh} {{")
            elif g[4]:
                emit(f"impl{g[1]} {g[4]}{wh} {{")
                for it in groups[g][0].get("impl_assoc", []):
                    emit("    " + it)
                for it in unit["trait_impls"][g[4]]:
                    emit("    " + it)
            else:
                emit(f"impl{g[1]} {g[2]}{wh} {{")
        for f in groups[g]:
            key = f["key"]
            sp = specs.get(key)
            raw_body = rn(f["body"])
            old_spliced = anchor_lock.get(key)
            if sp and (sp.loops or sp.proofs or sp.ghosts):
                raw_bodies[key] = raw_body
                old_raw = raw_lock.get(key)
                if old_raw is not None and old_raw != raw_body:
                    # locals renamed and nothing else: carry the rename into this function's ghost annotations
                    rm_ = local_rename_map(old_raw, raw_body, [p["name"] for p in f["params"]])
                    if rm_:
                        sp = rename_spec(sp, rm_)
                        renamed_locals.append(f"{key}: ghost annotations follow the renamed locals {rm_}")
                        if old_spliced:
                            old_spliced = re.sub(r"\b(%s)\b" % "|".join(re.escape(k) for k in rm_), lambda mo: rm_[mo.group(1)], old_spliced)
            body = splice_body(raw_body, sp, f["n_loops"], key, unit.get("diverge_spec", "ensures false"),
                               lost=lost_hints, old_body=old_spliced, rec=anchor_bodies)
            ra = sp.opts.get("revert_args") if sp else None
            if ra:
                # strict units (`@fn f revert_args=a,b`): the named parameters of the function are handed on to its
                # `panic_with_error!` sites, so that the unit's revert functions can state over them (and the ghost
                # world) why THIS revert is justified; the default macro has no arm for the longer form
                pos = 0
                while True:
                    mm = re.compile(r"\bpanic_with_error!\s*\(").search(body, pos)
                    if not mm:
                        break
                    close = find_matching(body, mm.end() - 1)
                    body = body[:close] + ", " + ", ".join(ra.split(",")) + body[close:]
                    pos = close
            bc = (sp.opts.get("broadcast") if sp else None) or ",".join(unit.get("broadcast", []))
            if bc and bc != "none":
                i = body.index("{")
                body = body[:i + 1] + "\n    broadcast use " + ", ".join(bc.split(",")) + ";" + body[i + 1:]
            contract = sp.contract if sp else ""
            # a function that took `&Env` when its contract was written and now takes `&mut Env` (an edit made it write
            # state): the contract's bare `e@` meant "the state, which this function cannot change" - read it as the state on
            # entry and make the implicit frame explicit, so that the new effect is checked instead of being a type error
            for p_ in f["params"]:
                if p_["ty"].replace(" ", "") == "&mutEnv" and contract.strip():
                    en = p_["name"]
                    bare = re.compile(r"(?<![\w.])(?<!old\()(?<!final\()%s@" % re.escape(en))
                    if bare.search(contract) and "ensures" in contract:
                        contract = bare.sub(f"old({en})@", contract)
                        contract = contract.rstrip()
                        if not contract.endswith(","):
                            contract += ","
                        contract += f"\n        final({en})@ =~~= old({en})@,   // (implicit when the contract was written: the function took `&Env`)"
                        became_effectful.append(key)
            attrs = ""
            if sp and sp.trusted:
                attrs = "#[verifier::external_body]\n"
            if sp and sp.opts.get("loop_isolation") == "false":
                # verifier attribute only: loops keep the facts established before them (needed when an early
                # `return` inside a loop must be related to the initial value of a `mut` parameter)
                attrs += "#[verifier::loop_isolation(false)]\n"
            start = lines + 1
            ret_name = (sp.opts.get("ret") if sp else None) or ("res" if any(p["name"] in ("r", "mut r") for p in f["params"]) else "r")
            hdr = rn(fn_header(f, ret_name=ret_name))
            emit(f"// @@fn {key}  [{f['file']}]  src_sha={f['src_sha'][:16]}")
            emit(attrs + "/*@exec*/ " + hdr)
            cstart = lines + 1
            emit(contract)
            # labels
            for i, cl in enumerate(contract.split("\n")):
                m = re.search(r"//@\s*(\S+)", cl)
                if m:
                    asm.labels.append((cstart + i, m.group(1)))
            bstart = lines + 1
            emit(body)
            asm.body_ranges.append((bstart, lines))
            asm.fn_ranges.append((start, lines, key, "fn"))
            asm.fns[key] = f
            if sp and sp.contract.strip() and not sp.trusted and sp.no_canary is None and unit.get("canaries", True):
                if g is not None and g[5]:
                    pending_canaries.append((key, f, contract, body, ret_name))
                    continue
                if g is not None and g[4]:
                    deferred.append((f, key, contract, body))
                    continue
                cs = lines + 1
                emit(f"// @@canary {key}")
                emit("/*@canary*/ " + rn(fn_header(f, name_override=f["name"] + "__canary", ret_name=ret_name)))
                req = strip_ensures(contract)
                emit(req + ("\n" if req.strip() else "") + "    ensures false,")
                bstart = lines + 1
                emit(body)
                asm.body_ranges.append((bstart, lines))
                asm.fn_ranges.append((cs, lines, key, "canary"))
                asm.n_canaries += 1
        if g is not None:
            emit("}")
        if pending_canaries:
            ct = f"{g[5]}__canary_{re.sub(r'[^A-Za-z0-9]', '_', g[2])}"
            emit(f"pub trait {ct}: " + " + ".join(["Sized"] + unit.get("trait_supers", {}).get(g[5], [])) + " {")
            for (key, f, contract, body, ret_name) in pending_canaries:
                treq = unit.get("trait_requires", {}).get(f"{g[5]}::{f['name']}")   # same trait-level precondition as the real method
                decl = fn_header(f, name_override=f["name"] + "__canary").replace("pub fn", "fn").replace("-> (r: ", "-> (").rstrip()
                for t_ in tr["traits"]:
                    for m_ in t_["methods"]:
                        if t_["trait"] == g[5] and m_["name"] == f["name"]:   # the source trait's own signature (Self-typed)
                            ps_ = ", ".join(p_["ty"] if p_["name"] == "self" else f"{p_['name']}: {p_['ty']}" for p_ in m_["params"])
                            decl = f"fn {f['name']}__canary({ps_})" + (f" -> {m_['ret']}" if m_["ret"] else "")
                emit("    " + decl + (f"\n        requires {treq}" if treq else "") + ";")
            emit("}")
            emit(f"impl{g[1]} {ct} for {g[2]} {{")
            for (key, f, contract, body, ret_name) in pending_canaries:
                cs = lines + 1
                emit(f"// @@canary {key}")
                emit("/*@canary*/ " + fn_header(f, name_override=f["name"] + "__canary", ret_name=ret_name))
                req = strip_ensures(contract)
                emit(req + ("\n" if req.strip() else "") + "    ensures false,")
                bstart = lines + 1
                emit(body)
                asm.body_ranges.append((bstart, lines))
                asm.fn_ranges.append((cs, lines, key, "canary"))
                asm.n_canaries += 1
            emit("}")
        if deferred:
            wh = (" " + g[3]) if g[3] else ""
            emit(f"impl{g[1]} {g[2]}{wh} {{")
            for (f, key, contract, body) in deferred:
                cs = lines + 1
                emit(f"// @@canary {key}")
                hdr = fn_header(f, name_override=f["name"] + "__canary")
                for it in f.get("impl_assoc", []):
                    an = it.split()[1]
                    hdr = hdr.replace(f"Self::{an}", f"<Self as {f['trait']}>::{an}")
                emit("/*@canary*/ " + hdr)
                req = strip_ensures(contract)
                emit(req + ("\n" if req.strip() else "") + "    ensures false,")
                bstart = lines + 1
                emit(body)
                asm.body_ranges.append((bstart, lines))
                asm.fn_ranges.append((cs, lines, key, "canary"))
                asm.n_canaries += 1
            emit("}")
    text += "\n".join(out) + "\n} // verus!\nfn main() {}\n"
    asm.text = text
    asm.specs = specs
    # labels inside spec files: "//@ LABEL" attaches to the enclosing proof fn
    for i, l in enumerate(text.split("\n"), 1):
        m = re.search(r"//@@\s*(\S+)", l)
        if m:
            asm.labels.append((i, m.group(1)))
    asm.labels.sort()
    return asm


def shard_text(asm: "Assembled", kind: str) -> str:
    """same text, same line numbers, with the items NOT belonging to the shard turned into external_body.
    kinds: all | fns (extracted functions) | lemmas (spec-pack proof fns) | canaries"""
    if kind == "all":
        return asm.text
    lines = asm.text.split("\n")
    s0, s1 = asm.spec_region
    pat = re.compile(r"^(pub\s+)?(broadcast\s+)?proof\s+fn\s")
    XB = "#[verifier::external_body] "
    blank = []   # header line numbers (0-based) of externalised exec functions
    borrowed = getattr(asm, "borrowed", [])
    for i, l in enumerate(lines):
        ln = i + 1
        # kind "dev" (dev_run.py): everything of the unit, minus the lemmas of borrowed spec files
        if s0 <= ln <= s1 and (kind not in ("lemmas", "dev") or any(b0 <= ln <= b1 for (b0, b1) in borrowed)) and pat.match(l):
            lines[i] = XB + l
        elif l.startswith("/*@exec*/ ") and kind not in ("fns", "dev"):
            if not (i > 0 and "external_body" in lines[i - 1]):
                lines[i] = XB + l
            blank.append(i)
        elif l.startswith("/*@canary*/ ") and kind not in ("canaries", "dev"):
            lines[i] = XB + l
            blank.append(i)
    # an externalised body is not checked by Verus but still has to be plain Rust: drop it (same line count)
    for h in blank:
        for (b0, b1) in asm.body_ranges:
            if b0 - 1 > h:
                nxt = b0 - 1
                break
        else:
            continue
        lines[nxt] = "{ unimplemented!() }"
        for j in range(nxt + 1, b1):
            lines[j] = ""
    return "\n".join(lines)


# ------------------------------------------------------------------------------------------------
# verus

VIOLATION_KINDS = ("postcondition not satisfied", "precondition not satisfied", "invariant not satisfied",
                   "assertion failed", "possible arithmetic underflow/overflow", "possible bit shift underflow/overflow", "possible division by zero",
                   "loop invariant", "decreases not satisfied", "unreachable", "recommendation not met",
                   "unable to prove post-condition of closure")


def run_verus(path: str, threads=16, rlimit=None, extra=None):
    cmd = ["verus", path, "--multiple-errors", "20", "--num-threads", str(threads), "--output-json", "--time"]
    if rlimit:
        cmd += ["--rlimit", str(rlimit)]
    if extra:
        cmd += extra
    t0 = time.time()
    env = dict(os.environ)
    env.pop("RUSTUP_TOOLCHAIN", None)
    p = subprocess.run(cmd, capture_output=True, text=True, env=env)
    dt = time.time() - t0
    js = None
    try:
        i = p.stdout.index("{")
        js = json.loads(p.stdout[i:])
    except Exception:
        pass
    return p.returncode, js, p.stderr, dt, " ".join(cmd)


ERR_HEAD = re.compile(r"^(error|warning|note)(\[[A-Z0-9]+\])?: (.*)$")
LOC = re.compile(r"^\s*-->\s+(\S+?):(\d+):(\d+)")
SRC_LINE = re.compile(r"^\s*(\d+)\s*\|(.*)$")


def parse_diagnostics(stderr: str):
    """returns list of {level,msg,line (primary),spans:[(line,text,label)]}"""
    diags = []
    cur = None
    last_src = None
    for l in stderr.split("\n"):
        m = ERR_HEAD.match(l)
        if m:
            cur = {"level": m.group(1), "msg": m.group(3), "line": None, "lines": [], "raw": [l], "marked": []}
            diags.append(cur)
            last_src = None
            continue
        if cur is None:
            continue
        cur["raw"].append(l)
        m = LOC.match(l)
        if m and cur["line"] is None:
            cur["line"] = int(m.group(2))
            continue
        m = SRC_LINE.match(l)
        if m:
            last_src = int(m.group(1))
            cur["lines"].append(last_src)
            continue
        if last_src is not None and re.match(r"^\s*\|\s*[\^\-_|]", l):
            # underline for last_src, maybe with label text
            cur["marked"].append((last_src, l.strip()))
            if "in this macro invocation" in l:
                cur["line"] = last_src     # an obligation inside `panic_with_error!` belongs to the function that invokes the macro
    return diags


def fn_at(asm: Assembled, line: int):
    for (s, e, key, kind) in asm.fn_ranges:
        if s <= line <= e:
            return key, kind
    return None, None


def label_at(asm: Assembled, line: int, lo: int):
    """closest label marker at or before `line`, not before `lo`"""
    best = None
    for (ln, lab) in asm.labels:
        if lo <= ln <= line:
            best = lab
    return best
