// append to examples/nft-access-control/src/test.rs — passes on the unmodified repo (i.e. the defect is real),
// fails (second mint panics with ExampleContractError::TokenAlreadyMinted) once
// notes/candidate-fix-nft-access-control-mint.patch is applied
#[test]
fn witness_remint_existing_id_steals_token() {
    let e = Env::default();
    e.mock_all_auths();
    let admin = Address::generate(&e);
    let client = create_client(&e, &admin);
    let accounts = setup_roles(&e, &client, &admin);
    let alice = Address::generate(&e);
    let bob = Address::generate(&e);
    client.mint(&alice, &7, &accounts.minter1);
    assert_eq!(client.owner_of(&7), alice);
    assert_eq!(client.balance(&alice), 1);
    // second mint of the SAME id succeeds
    client.mint(&bob, &7, &accounts.minter1);
    assert_eq!(client.owner_of(&7), bob);
    assert_eq!(client.balance(&bob), 1);
    // alice owns nothing any more but her balance still says 1
    assert_eq!(client.balance(&alice), 1);
}
