use vstd::prelude::*;
use vstd::arithmetic::div_mod::rust_div;
verus! {

// floor(a/b) characterised without any division operator: the unique q with q*b <= a < (q+1)*b (b>0) / mirrored for b<0
pub open spec fn is_floor(a: int, b: int, q: int) -> bool {
    if b > 0 { q * b <= a < (q + 1) * b } else { q * b >= a > (q + 1) * b }
}

// Euclidean division facts for either sign of the divisor
proof fn lemma_euc(a: int, b: int)
    requires b != 0
    ensures a == (a / b) * b + a % b, 0 <= a % b, b > 0 ==> a % b < b, b < 0 ==> a % b < -b
{
    assert(a == (a / b) * b + a % b && 0 <= a % b && (b > 0 ==> a % b < b) && (b < 0 ==> a % b < -b)) by(nonlinear_arith)
        requires b != 0;
}

proof fn lemma_floor_from_trunc(a: int, b: int)
    requires b != 0
    ensures
        ((a < 0 && b > 0) || (a > 0 && b < 0)) ==> (if a % b > 0 { is_floor(a, b, rust_div(a, b) - 1) } else { is_floor(a, b, rust_div(a, b)) }),
        !((a < 0 && b > 0) || (a > 0 && b < 0)) ==> is_floor(a, b, rust_div(a, b)),
{
    lemma_euc(a, b);
    lemma_euc(-a, b);
    let q1 = a / b; let m1 = a % b; let q2 = (-a) / b; let m2 = (-a) % b;
    if a == 0 {
        assert(is_floor(a, b, 0)) by(nonlinear_arith) requires a == 0, b != 0;
    } else if a > 0 {
        // rust_div = q1, a == q1*b + m1
        if b > 0 {
            assert(is_floor(a, b, q1)) by(nonlinear_arith) requires a == q1 * b + m1, 0 <= m1 < b, b > 0;
        } else {
            if m1 > 0 {
                assert(is_floor(a, b, q1 - 1)) by(nonlinear_arith) requires a == q1 * b + m1, 0 < m1 < -b, b < 0;
            } else {
                assert(is_floor(a, b, q1)) by(nonlinear_arith) requires a == q1 * b + m1, m1 == 0, b < 0;
            }
        }
    } else {
        // rust_div = -q2, -a == q2*b + m2 ; relation between m1 and m2: m1 == 0 <==> m2 == 0
        assert((m1 == 0) == (m2 == 0)) by(nonlinear_arith)
            requires a == q1 * b + m1, -a == q2 * b + m2, 0 <= m1, 0 <= m2, b > 0 ==> (m1 < b && m2 < b), b < 0 ==> (m1 < -b && m2 < -b), b != 0;
        if b > 0 {
            if m1 > 0 {
                assert(is_floor(a, b, -q2 - 1)) by(nonlinear_arith) requires -a == q2 * b + m2, 0 < m2 < b, b > 0;
            } else {
                assert(is_floor(a, b, -q2)) by(nonlinear_arith) requires -a == q2 * b + m2, m2 == 0, b > 0;
            }
        } else {
            assert(is_floor(a, b, -q2)) by(nonlinear_arith) requires -a == q2 * b + m2, 0 <= m2 < -b, b < 0;
        }
    }
}

fn div_floor(r: i128, z: i128) -> (res: Option<i128>)
    ensures
        z == 0 ==> res.is_none(),
        res.is_some() ==> z != 0 && is_floor(r as int, z as int, res.unwrap() as int),
{
    proof {
        if z != 0 {
            lemma_floor_from_trunc(r as int, z as int);
        }
    }
    if (r < 0 && z > 0) || (r > 0 && z < 0) {
        // ceiling is taken by default for a negative result
        let remainder = r.checked_rem_euclid(z)?;
        (r / z).checked_sub(if remainder > 0 { 1 } else { 0 })
    } else {
        // floor taken by default for a positive or zero result
        r.checked_div(z)
    }
}

} // verus!
fn main() {}
