use vstd::prelude::*;
use vstd::std_specs::iter::IteratorSpecImpl;
verus! {
pub struct SVec<T> { pub v: std::vec::Vec<T> }
impl<T: Clone> SVec<T> {
    pub open spec fn view(&self) -> Seq<T> { self.v@ }
    #[verifier::external_body]
    pub fn iter(&self) -> (r: SIter<T>) ensures r.items@ == self@, r.pos == 0 { unimplemented!() }
    #[verifier::external_body]
    pub fn new() -> (r: SVec<T>) ensures r@ == Seq::<T>::empty() { unimplemented!() }
    #[verifier::external_body]
    pub fn push_front(&mut self, x: T) ensures final(self)@ == seq![x] + old(self)@ { unimplemented!() }
    #[verifier::external_body]
    pub fn len(&self) -> (r: u32) ensures r as int == self@.len() { unimplemented!() }
}
pub struct SIter<T> { pub items: std::vec::Vec<T>, pub pos: usize }
impl<T> SIter<T> {
    pub open spec fn rem(&self) -> Seq<T> {
        if self.pos <= self.items@.len() { self.items@.subrange(self.pos as int, self.items@.len() as int) } else { Seq::empty() }
    }
    #[verifier::external_body]
    pub fn zip<U>(self, other: SVec<U>) -> (r: SIter<(T, U)>)
        requires self.pos == 0
        ensures r.pos == 0,
            r.items@.len() == (if self.items@.len() <= other.v@.len() { self.items@.len() } else { other.v@.len() }),
            forall|i: int| 0 <= i < r.items@.len() ==> r.items@[i] == (self.items@[i], other.v@[i]),
    { unimplemented!() }
}
impl<T> Iterator for SIter<T> {
    type Item = T;
    #[verifier::external_body]
    fn next(&mut self) -> (r: Option<T>) { unimplemented!() }
}
impl<T> IteratorSpecImpl for SIter<T> {
    open spec fn obeys_prophetic_iter_laws(&self) -> bool { true }
    open spec fn remaining(&self) -> Seq<T> { self.rem() }
    open spec fn will_return_none(&self) -> bool { true }
    open spec fn decrease(&self) -> Option<nat> { Some(self.rem().len()) }
    open spec fn peek(&self, i: int) -> Option<T> { if 0 <= i < self.rem().len() { Some(self.rem()[i]) } else { None } }
}

pub struct Env { pub w: Ghost<Map<int,int>> }
impl Env {
    pub open spec fn view(&self) -> Map<int,int> { self.w@ }
    #[verifier::external_body]
    pub fn seq(&self) -> (r: u32) { unimplemented!() }
    #[verifier::external_body]
    pub fn mark(&mut self, k: u32) ensures final(self)@ == old(self)@.insert(k as int, 1) { unimplemented!() }
}

// zip loop a la __check_auth
pub fn check_all(e: &mut Env, ctxs: &SVec<u32>, metas: SVec<u32>)
    requires ctxs@.len() < 1000, metas@.len() == ctxs@.len()
    ensures forall|i: int| 0 <= i < ctxs@.len() ==> final(e)@.contains_key(ctxs@[i] as int)
{
    for (c, m) in it: ctxs.iter().zip(metas)
        invariant
            forall|i: int| 0 <= i < it.index@ ==> e@.contains_key(ctxs@[i] as int),
    {
        e.mark(c);
    }
}

// closure stored in a local, with a loop inside, capturing &Env
pub fn rules(e: &Env, ids: SVec<u32>) -> (r: SVec<u32>)
{
    let get_rules = |ids: SVec<u32>| -> (out: SVec<u32>) {
        let mut rules = SVec::new();
        for id in it: ids.iter() {
            if id < e.seq() { } else {
            rules.push_front(id); }
        }
        rules
    };
    get_rules(ids)
}
} // verus!
fn main() {}
