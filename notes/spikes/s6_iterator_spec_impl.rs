use vstd::prelude::*;
use vstd::std_specs::iter::IteratorSpecImpl;
verus! {
pub struct SVec<T> { pub v: std::vec::Vec<T> }
impl<T: Clone> SVec<T> {
    pub open spec fn view(&self) -> Seq<T> { self.v@ }
    #[verifier::external_body]
    pub fn iter(&self) -> (r: SIter<T>)
        ensures r.items@ == self@, r.pos == 0
    { unimplemented!() }
}
pub struct SIter<T> { pub items: std::vec::Vec<T>, pub pos: usize }
impl<T> SIter<T> {
    pub open spec fn rem(&self) -> Seq<T> {
        if self.pos <= self.items@.len() { self.items@.subrange(self.pos as int, self.items@.len() as int) } else { Seq::empty() }
    }
}
impl<T: Clone> Iterator for SIter<T> {
    type Item = T;
    #[verifier::external_body]
    fn next(&mut self) -> (r: Option<T>)
    { unimplemented!() }
}
impl<T: Clone> IteratorSpecImpl for SIter<T> {
    open spec fn obeys_prophetic_iter_laws(&self) -> bool { true }
    open spec fn remaining(&self) -> Seq<T> { self.rem() }
    open spec fn will_return_none(&self) -> bool { true }
    open spec fn decrease(&self) -> Option<nat> { Some(self.rem().len()) }
    open spec fn peek(&self, i: int) -> Option<T> {
        if 0 <= i < self.rem().len() { Some(self.rem()[i]) } else { None }
    }
}

pub open spec fn sum(s: Seq<u32>) -> int decreases s.len() {
    if s.len() == 0 { 0 } else { sum(s.drop_last()) + s.last() }
}

pub fn count_zero(ws: &SVec<u32>) -> (r: u64)
    requires ws@.len() < 1000
    ensures r <= ws@.len()
{
    let mut n: u64 = 0;
    let ghost mut k: int = 0;
    for w in it: ws.iter()
        invariant n <= it.index@, it.index@ <= ws@.len(), it.history@ == ws@.take(it.index@ as int),
    {
        if w == 0 { n = n + 1; }
        
    }
    n
}
}
fn main() {}
