use vstd::prelude::*;
verus! {

// Sum of a finite-domain map's values, by recursion on the domain.
pub open spec fn msum<K>(m: Map<K, int>) -> int
    decreases m.dom().len()

{
    if m.dom().len() == 0 { 0 } else {
        let k = m.dom().choose();
        m[k] + msum(m.remove(k))
    }
}

pub proof fn lemma_msum_remove<K>(m: Map<K, int>, k: K)
    requires m.dom().contains(k)
    ensures msum(m) == m[k] + msum(m.remove(k))
    decreases m.dom().len()
{
    let c = m.dom().choose();
    assert(m.dom().len() != 0) by { if m.dom().len() == 0 { assert(m.dom() =~= Set::empty()); } }
    if c == k {
    } else {
        // msum(m) = m[c] + msum(m - c);  msum(m - c) = m[k] + msum(m - c - k) (IH)
        lemma_msum_remove(m.remove(c), k);
        // msum(m - k) = m[c] + msum(m - k - c) (IH on m-k with c)
        lemma_msum_remove(m.remove(k), c);
        assert(m.remove(c).remove(k) =~= m.remove(k).remove(c));
    }
}

pub proof fn lemma_msum_insert<K>(m: Map<K, int>, k: K, v: int)
    requires true
    ensures msum(m.insert(k, v)) == msum(m) + v - (if m.dom().contains(k) { m[k] } else { 0 })
{
    let m2 = m.insert(k, v);
    lemma_msum_remove(m2, k);
    assert(m2.remove(k) =~= m.remove(k));
    if m.dom().contains(k) {
        lemma_msum_remove(m, k);
    } else {
        assert(m.remove(k) =~= m);
    }
}

pub proof fn lemma_msum_nonneg_bound<K>(m: Map<K, int>, k: K)
    requires m.dom().contains(k), forall|j: K| m.dom().contains(j) ==> m[j] >= 0
    ensures m[k] <= msum(m), msum(m) >= 0
    decreases m.dom().len()
{
    lemma_msum_nonneg(m);
    lemma_msum_remove(m, k);
    lemma_msum_nonneg(m.remove(k));
}
pub proof fn lemma_msum_nonneg<K>(m: Map<K, int>)
    requires forall|j: K| m.dom().contains(j) ==> m[j] >= 0
    ensures msum(m) >= 0
    decreases m.dom().len()
{
    if m.dom().len() != 0 {
        let c = m.dom().choose();
        lemma_msum_nonneg(m.remove(c));
    }
}
}
fn main() {}
