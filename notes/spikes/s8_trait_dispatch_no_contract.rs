use vstd::prelude::*;
verus! {
pub struct Env { pub w: Ghost<int> }
impl Env { pub open spec fn view(&self) -> int { self.w@ } 
  #[verifier::external_body] pub fn bump(&mut self, k: u32) ensures final(self)@ == old(self)@ + k { unimplemented!() } }

pub trait ContractOverrides {
    fn transfer(e: &mut Env, amount: u32) {
        Base::transfer(e, amount);
    }
    fn total(e: &Env) -> u32 { 0 }
}
pub struct Base;
impl ContractOverrides for Base {}
impl Base {
    pub fn transfer(e: &mut Env, amount: u32) ensures final(e)@ == old(e)@ + amount { e.bump(amount) }
}
pub struct AllowList;
impl ContractOverrides for AllowList {
    fn transfer(e: &mut Env, amount: u32) {
        AllowList::transfer(e, amount);
    }
}
impl AllowList {
    pub fn transfer(e: &mut Env, amount: u32) ensures final(e)@ == old(e)@ + amount, amount < 10 {
        if amount >= 10 { loop decreases 0int { assume(false); } }
        Base::transfer(e, amount);
    }
}
pub trait FungibleToken {
    type ContractType: ContractOverrides;
    fn transfer(e: &mut Env, amount: u32) {
        Self::ContractType::transfer(e, amount);
    }
}
pub struct Example;
impl FungibleToken for Example { type ContractType = AllowList; }

fn client(e: &mut Env, amount: u32)
    ensures amount < 10
{
    <Example as FungibleToken>::transfer(e, amount);
}
}
fn main() {}
