use vstd::prelude::*;
verus! {
pub fn enc_head(dst: &mut [u8], src: &[u8])
    requires src.len() >= 3, old(dst).len() >= 4
{
    let val = (src[0] as usize) << 16 | (src[0 + 1] as usize) << 8 | (src[0 + 2] as usize);
    dst[0] = (val >> 18 & 0x3F) as u8;
}
pub fn wl(v: &mut Vec<u32>, cutoff: u32) -> (removed: u64)
{
    let mut removed_total = 0u64;
    while let Some(entry) = v.first()
        invariant removed_total == 0
        decreases v.len()
    {
        if *entry <= cutoff {
            v.remove(0);
        } else {
            break;
        }
    }
    removed_total
}
} // verus!
fn main() {}
