use vstd::prelude::*;

macro_rules! panic_with_error {
    ($e:expr, $err:expr) => { sdk_panic($err as u32) };
}

verus! {

#[derive(PartialEq, Eq, Clone)]
pub struct Address { pub id: u64 }

pub struct World { pub ledger_seq: u32, pub inst: Map<int,int> }
pub struct Env { pub w: Ghost<World> }
impl Env {
    pub open spec fn view(&self) -> World { self.w@ }
    #[verifier::external_body]
    pub fn get_u32(&self, k: u32) -> (r: Option<u32>)
        ensures r.is_some() <==> self@.inst.contains_key(k as int),
                r.is_some() ==> r.unwrap() as int == self@.inst[k as int]
    { unimplemented!() }
    #[verifier::external_body]
    pub fn ledger_sequence(&self) -> (r: u32) ensures r == self@.ledger_seq { unimplemented!() }
    #[verifier::external_body]
    pub fn touch(&self, k: u32) { unimplemented!() }
}

pub assume_specification<T, F: FnOnce(&T) -> ()> [Option::<T>::inspect] (o: Option<T>, f: F) -> (r: Option<T>)
    requires o.is_some() ==> f.requires((&o.unwrap(),)),
    ensures r == o;

#[verifier::external_body]
pub fn sdk_panic(code: u32) -> !
    ensures false
{ panic!() }

pub enum TimelockError { MinDelayNotSet = 1 }
pub enum OperationState { Unset, Waiting, Ready, Done }
pub const UNSET_LEDGER: u32 = 0;
pub const DONE_LEDGER: u32 = 1;

pub fn get_min_delay(e: &mut Env) -> (r: u32)
    ensures old(e)@.inst.contains_key(7), r as int == old(e)@.inst[7], final(e)@ == old(e)@
{
    e.get_u32(7)
        .unwrap_or_else(|| panic_with_error!(e, TimelockError::MinDelayNotSet))
}

pub fn state(e: &mut Env, ready_ledger: u32) -> (r: OperationState)
    ensures final(e)@ == old(e)@,
      ready_ledger == 0 ==> r is Unset,
      ready_ledger == 1 ==> r is Done,
      ready_ledger > 1 && ready_ledger > old(e)@.ledger_seq ==> r is Waiting,
      ready_ledger > 1 && ready_ledger <= old(e)@.ledger_seq ==> r is Ready,
{
    let current_ledger = e.ledger_sequence();

    match ready_ledger {
        UNSET_LEDGER => OperationState::Unset,
        DONE_LEDGER => OperationState::Done,
        ready if ready > current_ledger => OperationState::Waiting,
        _ => OperationState::Ready,
    }
}

pub fn insp(e: &mut Env) -> (r: Option<u32>)
    ensures final(e)@ == old(e)@
{
    e.get_u32(3).inspect(|_x| { e.touch(3) })
}

pub fn eqtest(a: &Address, b: &Address) -> (r: bool)
    ensures r == (a.id == b.id)
{
    a == b
}

} // verus!
fn main() {}
