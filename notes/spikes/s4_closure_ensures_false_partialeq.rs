use vstd::prelude::*;
use vstd::std_specs::cmp::{PartialEqSpecImpl};

macro_rules! panic_with_error {
    ($e:expr, $err:expr) => { sdk_panic($err as u32) };
}

verus! {

pub struct Address { pub id: u64 }

impl PartialEqSpecImpl for Address {
    open spec fn obeys_eq_spec() -> bool { true }
    open spec fn eq_spec(&self, other: &Address) -> bool { self.id == other.id }
}
impl PartialEq for Address {
    fn eq(&self, other: &Address) -> (r: bool)
    { self.id == other.id }
}
impl Eq for Address {}

pub struct Env { pub w: Ghost<Map<int,int>> }
impl Env {
    pub open spec fn view(&self) -> Map<int,int> { self.w@ }
    #[verifier::external_body]
    pub fn get_u32(&self, k: u32) -> (r: Option<u32>)
        ensures r.is_some() <==> self@.contains_key(k as int),
                r.is_some() ==> r.unwrap() as int == self@[k as int]
    { unimplemented!() }
}

#[verifier::external_body]
pub fn sdk_panic(code: u32) -> !
    ensures false
{ panic!() }

pub enum TimelockError { MinDelayNotSet = 1 }

pub fn get_min_delay(e: &mut Env) -> (r: u32)
    ensures old(e)@.contains_key(7), r as int == old(e)@[7], final(e)@ == old(e)@
{
    e.get_u32(7)
        .unwrap_or_else(|| -> (r: u32) ensures false { panic_with_error!(e, TimelockError::MinDelayNotSet) })
}

pub fn eqtest(a: &Address, b: &Address, c: Option<&Address>) -> (r: bool)
    ensures r == (a.id == b.id)
{
    let x = c == Some(a);
    a == b
}
pub fn netest(a: &Address, b: &Address) -> (r: bool)
    ensures r == (a.id != b.id)
{
    *a != *b
}

} // verus!
fn main() {}
