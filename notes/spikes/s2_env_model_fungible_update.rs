use vstd::prelude::*;
verus! {

// ---------- SDK model (sketch) ----------
pub enum SV { Unit, Bool(bool), U32(u32), I128(i128), Addr(int), Sym(Seq<char>), Vec(Seq<SV>) }

pub struct Address { pub id: u64 }
impl Clone for Address {
    fn clone(&self) -> (r: Self) ensures r == *self { Address { id: self.id } }
}

pub trait ToSV { spec fn sv(&self) -> SV; }
impl ToSV for Address { open spec fn sv(&self) -> SV { SV::Addr(self.id as int) } }
impl ToSV for i128 { open spec fn sv(&self) -> SV { SV::I128(*self) } }

pub struct World {
    pub instance: Map<SV, SV>,
    pub persistent: Map<SV, SV>,
    pub ledger_seq: u32,
}

pub struct Env { pub w: Ghost<World> }

impl Env {
    pub open spec fn view(&self) -> World { self.w@ }

    #[verifier::external_body]
    pub fn storage_persistent_get<K: ToSV, V: ToSV>(&self, key: &K) -> (r: Option<V>)
        ensures
            r.is_some() <==> self@.persistent.contains_key(key.sv()),
            r.is_some() ==> r.unwrap().sv() == self@.persistent[key.sv()],
    { unimplemented!() }

    #[verifier::external_body]
    pub fn storage_persistent_set<K: ToSV, V: ToSV>(&mut self, key: &K, val: &V)
        ensures
            final(self)@.persistent == old(self)@.persistent.insert(key.sv(), val.sv()),
            final(self)@.instance == old(self)@.instance,
            final(self)@.ledger_seq == old(self)@.ledger_seq,
    { unimplemented!() }

    #[verifier::external_body]
    pub fn storage_instance_get<K: ToSV, V: ToSV>(&self, key: &K) -> (r: Option<V>)
        ensures
            r.is_some() <==> self@.instance.contains_key(key.sv()),
            r.is_some() ==> r.unwrap().sv() == self@.instance[key.sv()],
    { unimplemented!() }

    #[verifier::external_body]
    pub fn storage_instance_set<K: ToSV, V: ToSV>(&mut self, key: &K, val: &V)
        ensures
            final(self)@.instance == old(self)@.instance.insert(key.sv(), val.sv()),
            final(self)@.persistent == old(self)@.persistent,
            final(self)@.ledger_seq == old(self)@.ledger_seq,
    { unimplemented!() }

    #[verifier::external_body]
    pub fn storage_persistent_extend_ttl<K: ToSV>(&self, key: &K, a: u32, b: u32)
    { unimplemented!() }
}

#[verifier::external_body]
pub fn sdk_panic(code: u32) -> !
    ensures false
{ panic!() }

// ---------- generated from #[contracttype] ----------
pub enum FungibleStorageKey { Meta, TotalSupply, Balance(Address) }
impl ToSV for FungibleStorageKey {
    open spec fn sv(&self) -> SV {
        match self {
            FungibleStorageKey::Meta => SV::Vec(seq![SV::Sym("Meta"@)]),
            FungibleStorageKey::TotalSupply => SV::Vec(seq![SV::Sym("TotalSupply"@)]),
            FungibleStorageKey::Balance(a) => SV::Vec(seq![SV::Sym("Balance"@), a.sv()]),
        }
    }
}
pub enum FungibleTokenError { InsufficientBalance = 100, LessThanZero = 103, MathOverflow = 104 }

pub const BALANCE_TTL_THRESHOLD: u32 = 100;
pub const BALANCE_EXTEND_AMOUNT: u32 = 200;

pub struct Base;

// ---------- spec ----------
pub open spec fn bal(w: World, a: Address) -> int {
    let k = FungibleStorageKey::Balance(a).sv();
    if w.persistent.contains_key(k) { match w.persistent[k] { SV::I128(x) => x as int, _ => 0 } } else { 0 }
}
pub open spec fn supply(w: World) -> int {
    let k = FungibleStorageKey::TotalSupply.sv();
    if w.instance.contains_key(k) { match w.instance[k] { SV::I128(x) => x as int, _ => 0 } } else { 0 }
}

// ---------- extracted ----------
impl Base {
    pub fn total_supply(e: &mut Env) -> (r: i128)
        ensures r as int == supply(old(e)@), final(e)@ == old(e)@,
    {
        e.storage_instance_get(&FungibleStorageKey::TotalSupply).unwrap_or(0)
    }

    pub fn balance(e: &mut Env, account: &Address) -> (r: i128)
        ensures r as int == bal(old(e)@, *account), final(e)@ == old(e)@,
    {
        let key = FungibleStorageKey::Balance(account.clone());
        if let Some(balance) = e.storage_persistent_get::<_, i128>(&key) {
            e.storage_persistent_extend_ttl(&key, BALANCE_TTL_THRESHOLD, BALANCE_EXTEND_AMOUNT);
            balance
        } else {
            0
        }
    }

    pub fn update(e: &mut Env, from: Option<&Address>, to: Option<&Address>, amount: i128)
        requires
            from.is_some() && to.is_some(),
            bal(old(e)@, *to.unwrap()) + amount <= i128::MAX,
        ensures
            amount >= 0,
            from.unwrap().id != to.unwrap().id ==> bal(final(e)@, *from.unwrap()) == bal(old(e)@, *from.unwrap()) - amount,
            from.unwrap().id != to.unwrap().id ==> bal(final(e)@, *to.unwrap()) == bal(old(e)@, *to.unwrap()) + amount,
            supply(final(e)@) == supply(old(e)@),
    {
        if amount < 0 {
            sdk_panic(FungibleTokenError::LessThanZero as u32);
        }
        if let Some(account) = from {
            let mut from_balance = Base::balance(e, account);
            if from_balance < amount {
                sdk_panic(FungibleTokenError::InsufficientBalance as u32);
            }
            // NOTE: can't underflow because of the check above.
            from_balance -= amount;
            e.storage_persistent_set(&FungibleStorageKey::Balance(account.clone()), &from_balance);
        } else {
            // `from` is None, so we're minting tokens.
            let total_supply = Base::total_supply(e);
            let Some(new_total_supply) = total_supply.checked_add(amount) else {
                sdk_panic(FungibleTokenError::MathOverflow as u32);
            };
            e.storage_instance_set(&FungibleStorageKey::TotalSupply, &new_total_supply);
        }

        if let Some(account) = to {
            // NOTE: can't overflow because balance + amount is at most total_supply.
            let to_balance = Base::balance(e, account) + amount;
            e.storage_persistent_set(&FungibleStorageKey::Balance(account.clone()), &to_balance);
        } else {
            let total_supply = Base::total_supply(e) - amount;
            e.storage_instance_set(&FungibleStorageKey::TotalSupply, &total_supply);
        }
    }
}

} // verus!
fn main() {}
