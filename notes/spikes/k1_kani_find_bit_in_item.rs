pub(crate) fn find_bit_in_item(input: Option<u32>, start: u32) -> Option<u32> {
    if let Some(num) = input {
        if num == 0 { return None; }
        let ids_in_item = u32::BITS;
        if start >= ids_in_item { return None; }
        let last = ids_in_item - 1;
        for i in (0..=(last - start)).rev() {
            if (num & (1 << i)) != 0 {
                return Some(last - i);
            }
        }
    }
    None
}
#[cfg(kani)]
#[kani::proof]
#[kani::unwind(34)]
fn check_find_bit() {
    let num: u32 = kani::any();
    let start: u32 = kani::any();
    let r = find_bit_in_item(Some(num), start);
    match r {
        Some(p) => {
            assert!(p >= start && p < 32);
            assert!(num & (1u32 << (31 - p)) != 0);
            // first: no set bit in [start, p)
            let j: u32 = kani::any();
            kani::assume(j >= start && j < p);
            assert!(num & (1u32 << (31 - j)) == 0);
        }
        None => {
            let j: u32 = kani::any();
            kani::assume(j >= start && j < 32);
            assert!(num & (1u32 << (31 - j)) == 0);
        }
    }
}
